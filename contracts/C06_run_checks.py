"""C06 / C02 / C01 (composition level, pandas): the loops that run user checks and collect core results.

* ArraySchemaBackend.run_checks, ColumnBackend.run_checks, DataFrameSchemaBackend.run_checks:
    for EVERY k: the k-th check contributes exactly one result; if the k-th check (a user callback inside
    run_check) raises, the result is a failed CHECK_ERROR result naming that check, its index and the exception,
    and no exception escapes (SchemaDefinitionError is the documented exception of the container loop).
* ArraySchemaBackend.run_checks_and_handle_errors / DataFrameSchemaBackend.run_checks_and_handle_errors:
    every failing core result is offered to the error handler exactly once, in order, as a SchemaError carrying
    the result's fields (or the component's own SchemaError); passing results are never offered.
"""
import z3

from pandera.api.base.error_handler import ErrorHandler
from pandera.backends.base import CoreCheckResult
from pandera.errors import SchemaDefinitionError, SchemaError, SchemaErrorReason, SchemaErrors
from pandera.validation_depth import VALIDATION_DEPTH_ERROR_CODE_MAP
from pyvc import core, types as T
from pyvc.core import And, Iff, Implies, Not, Or, PyExc, SAny, SBool, SNum, cur, ite, py_eq
from pyvc.heap import ListObj, Obj
from pyvc.interp import OtherException
from pyvc.spec import Contract, LoopSpec, resolve_target
from pyvc.theories import pandas_lite as PL
from pyvc.theories.pandas_lite import SeriesVal
from pyvc.values import SymSeq
from contracts.util import fld, fld0

ARR = "pandera.backends.pandas.array:ArraySchemaBackend"
COL = "pandera.backends.pandas.components:ColumnBackend"
DF = "pandera.backends.pandas.container:DataFrameSchemaBackend"
RUN_CHECK = "pandera.backends.pandas.base:PandasSchemaBackend.run_check"


def result_ref(reason, name="r", schema_error=T.Const(None), passed=T.Bool):
    return T.Ref(CoreCheckResult, strict=True, passed=passed, check=T.Any, check_index=T.Any, check_output=T.Any, reason_code=reason,
                 message=T.Any, failure_cases=T.Any, schema_error=schema_error, original_exc=T.Any)


def install_run_check(I, raise_classes, run_check_target=None):
    """run_check is under its own contract (C19 RunCheck): here it returns an arbitrary result or propagates an
    arbitrary exception of the user's check function."""
    rc = resolve_target(run_check_target or RUN_CHECK)

    def model(I, self_obj, check_obj, schema, check, check_index, *args):
        p = cur()
        n = len(p.ghost.setdefault("run_check_calls", []))
        p.ghost["run_check_calls"].append((check_obj, schema, check, check_index, args))
        k = p.choose([("ret", None)] + [(c.__name__, None) for c in raise_classes], f"run_check#{n}")
        if k > 0:
            exc = I.make_exc(raise_classes[k - 1])
            exc.attrs["__from_callback__"] = ("run_check", n)
            p.ghost["raised_exc"] = exc
            raise PyExc(exc)
        r = result_ref(T.Const(SchemaErrorReason.DATAFRAME_CHECK)).fresh(f"run_check_result#{n}")
        p.ghost["returned_result"] = r
        return r

    I.models[id(rc)] = model


def results_havoc(name="check_results"):
    def hv(I, fr, k, old):
        return SymSeq(name + "'", k if isinstance(k, SNum) else SNum(z3.IntVal(k)), lambda i: SAny(name=f"{name}[{getattr(i, 'z', i)}]"), pre=False)

    return hv


def _run_checks_contract(target, raise_classes, escaping=(), name="RunChecks", schema_error_reason=SchemaErrorReason.CHECK_ERROR, run_check_target=None):
    class RC(Contract):
        params = dict(self=T.Ref(None), check_obj=T.Any, schema=T.Ref(None, checks=T.ListOf(T.Ref(None)), name=T.Opt(T.Label)))
        raises = tuple(escaping)

        def setup(self, I):
            PL.install(I)
            install_run_check(I, raise_classes, run_check_target)
            traceback_mod = __import__("traceback")
            I.models[id(traceback_mod.format_exc)] = lambda I: __import__("pyvc.values", fromlist=["Fmt"]).Fmt(["<traceback>"])

        def make_args(self):
            a = super().make_args()
            modname, qual = target.split(":")
            cls = getattr(__import__(modname, fromlist=["x"]), qual.split(".")[0])
            a["self"] = T.Ref(cls).fresh("self")
            k = cur().choose([("Series", None), ("DataFrame", None)], "kind(check_obj)")
            a["check_obj"] = SeriesVal.fresh("check_obj", "real") if k == 0 else PL.FrameVal.fresh("check_obj")
            return a

        def call_target(self, I, fn, a):
            return I.call(fn, [a["self"], a["check_obj"], a["schema"]], {})

        @property
        def loops(self):
            def invariant(I, fr, k, phase):
                p = cur()
                if phase == "assume":
                    p.ghost["run_check_calls"] = []
                    p.ghost.pop("raised_exc", None)
                    p.ghost.pop("returned_result", None)
                    return {}
                if phase == "init":
                    cr = fr.locals["check_results"]
                    return {"starts_empty": isinstance(cr, list) and len(cr) == 0}
                cr = fr.locals["check_results"]
                calls = p.ghost["run_check_calls"]
                out = {"one_result_per_check": isinstance(cr, SymSeq) and len(cr.appended) == 1,
                       "runs_the_kth_check_once": len(calls) == 1 and calls[0][2] is fr.locals["check"] and calls[0][0] is fr.locals["check_obj"]
                       and calls[0][1] is fr.locals["schema"]}
                if len(calls) == 1:
                    out["passes_its_index"] = core.as_z3_bool(py_eq(calls[0][3], k - 1)) is not None and bool(
                        z3.is_true(z3.simplify(core.as_z3_bool(py_eq(calls[0][3], k - 1)))))
                if not out["one_result_per_check"]:
                    return out
                r = cr.appended[0]
                exc = p.ghost.get("raised_exc")
                if exc is None:
                    out["result_of_run_check_is_kept"] = r is p.ghost.get("returned_result")
                else:
                    isres = isinstance(r, Obj) and r.cls is CoreCheckResult
                    out["raising_check_becomes_failed_result"] = isres and r.attrs["passed"] is False
                    if isres:
                        want = schema_error_reason if exc.cls is SchemaError else SchemaErrorReason.CHECK_ERROR
                        out["reason_is_check_error"] = r.attrs["reason_code"] is want
                        out["names_the_check_and_index"] = r.attrs["check"] is fr.locals["check"] and r.attrs["check_index"] is fr.locals["check_index"]
                        out["keeps_the_exception"] = r.attrs["original_exc"] is exc
                return out

            return {0: LoopSpec(invariant=invariant, havoc={"check_results": results_havoc()})}

        def ensures(self, result, old, self_, check_obj, schema):
            n = fld0(schema, "checks").n
            return {"one_result_per_declared_check": isinstance(result, (SymSeq, list)) and (
                py_eq(result.slen(), n) if isinstance(result, SymSeq) else False)}

        def on_raise(self, exc, old, self_, check_obj, schema):
            return {"only_the_documented_usage_error_escapes": exc.cls in escaping}

    RC.target = target
    RC.__name__ = name
    return RC


ArrayRunChecks = _run_checks_contract(f"{ARR}.run_checks.<unwrap>", [OtherException, SchemaError, SchemaDefinitionError], name="ArrayRunChecks")
ColumnRunChecks = _run_checks_contract(f"{COL}.run_checks.<unwrap>", [OtherException, SchemaError, SchemaDefinitionError], name="ColumnRunChecks",
                                       schema_error_reason=SchemaErrorReason.DATAFRAME_CHECK)
ContainerRunChecks = _run_checks_contract(f"{DF}.run_checks.<unwrap>", [OtherException, SchemaError, SchemaDefinitionError], escaping=(SchemaDefinitionError,),
                                          name="ContainerRunChecks")


# ---------------------------------------------------------------------------------------
# collection of core results
# ---------------------------------------------------------------------------------------


def handler_ref():
    return T.Ref(ErrorHandler, _lazy=T.Bool, _schema_errors=T.ListOf(T.Ref(SchemaError)), _collected_errors=T.ListOf(T.Any))


def offered_errors(h):
    se = fld(h, "_schema_errors")
    return list(se.appended) if isinstance(se, SymSeq) else None


def error_matches_result(err, r, schema, check_obj):
    """the SchemaError offered for failing result r"""
    if fld0(r, "schema_error") is not None:
        return err is fld0(r, "schema_error")
    return (isinstance(err, Obj) and err.cls is SchemaError and err.attrs.get("schema") is schema
            and err.attrs.get("failure_cases") is fld0(r, "failure_cases") and err.attrs.get("check") is fld0(r, "check")
            and err.attrs.get("check_index") is fld0(r, "check_index") and err.attrs.get("check_output") is fld0(r, "check_output")
            and err.attrs.get("reason_code") is fld0(r, "reason_code") and err.attrs.get("args") == (fld0(r, "message"),))


class ArrayCollect(Contract):
    target = f"{ARR}.run_checks_and_handle_errors"
    raises = (SchemaError,)
    CORE = [("check_name", SchemaErrorReason.WRONG_FIELD_NAME), ("check_nullable", SchemaErrorReason.SERIES_CONTAINS_NULLS),
            ("check_unique", SchemaErrorReason.SERIES_CONTAINS_DUPLICATES), ("check_dtype", SchemaErrorReason.WRONG_DATATYPE)]

    def setup(self, I):
        PL.install(I)
        from pandera.backends.pandas.array import ArraySchemaBackend as B

        def core_model(name, reason):
            def m(I, self_obj, *args):
                r = result_ref(T.Const(reason)).fresh(f"result_{name}")
                cur().ghost.setdefault("results", []).append(r)
                return r

            return m

        for name, reason in self.CORE:
            I.models[id(getattr(B, name))] = core_model(name, reason)

        def run_checks(I, self_obj, *args):
            def elem(i):
                return result_ref(T.OneOf(SchemaErrorReason.DATAFRAME_CHECK, SchemaErrorReason.CHECK_ERROR)).fresh(f"user_result[{getattr(i, 'z', i)}]")

            n = core.sym_int("n_user_results")
            cur().assume(n >= 0)
            s = SymSeq("user_results", n, elem)
            cur().ghost["user_results"] = s
            return s

        I.models[id(B.run_checks)] = run_checks
        I.models[id(B.subsample)] = lambda I, self_obj, obj, **kw: obj

    def make_args(self):
        from pandera.backends.pandas.array import ArraySchemaBackend as B

        return {"self": T.Ref(B).fresh("self"), "error_handler": handler_ref().fresh("error_handler"),
                "schema": T.Ref(None, name=T.Opt(T.Label)).fresh("schema"), "check_obj": SeriesVal.fresh("check_obj", "real")}

    def call_target(self, I, fn, a):
        return I.call(fn, [a["self"], a["error_handler"], a["schema"], a["check_obj"]], {})

    def modifies(self, self_, error_handler, schema, check_obj):
        return [(error_handler, "_schema_errors"), (error_handler, "_collected_errors")]

    @property
    def loops(self):
        def havoc_handler(I, fr, k, old):
            # the handler after k user results: arbitrary lists (the step obligation is about ONE iteration)
            for a in ("_schema_errors", "_collected_errors"):
                old.attrs[a] = T.ListOf(T.Any).fresh(f"handler.{a}'")
                old.writes.append(a)
            cur().ghost["pre_loop_offers"] = None
            return old

        def invariant(I, fr, k, phase):
            if phase != "keep":
                return {}
            h = fr.locals["error_handler"]
            r = fr.locals["result"]
            off = offered_errors(h)
            passed = fld0(r, "passed")
            # this point is reached on normal completion of the iteration (lazy, or a passing result)
            if cur().decide(passed, "result.passed"):
                return {"passing_result_not_offered": off == []}
            out = {"failing_result_offered_once": off is not None and len(off) == 1}
            if out["failing_result_offered_once"]:
                out["offered_error_carries_the_result"] = error_matches_result(off[0], r, fr.locals["schema"], fr.locals["check_obj"])
            return out

        return {1: LoopSpec(invariant=invariant, havoc={"error_handler": havoc_handler}, heap_unchanged=False)}

    def _expected(self):
        return [r for r in cur().ghost.get("results", [])]

    def ensures(self, result, old, self_, error_handler, schema, check_obj):
        # normal exit: (loop exit path) the four field-level results were handled before the user-check loop;
        # their offers are checked on the iteration path below via `pre_loop` ghost - here: returns the handler
        return {"returns_the_handler": result is error_handler}

    def on_raise(self, exc, old, self_, error_handler, schema, check_obj):
        # eager: the exception is the SchemaError of a FAILING result
        res = cur().ghost.get("results", [])
        cands = list(res)
        ur = cur().ghost.get("user_results")
        if ur is not None:
            cands += list(ur.cache.values())
        hit = [r for r in cands if error_matches_result(exc, r, schema, check_obj) is True]
        out = {"eager_error_belongs_to_a_core_result": len(hit) >= 1, "only_when_eager": py_eq(fld0(error_handler, "_lazy"), False)}
        if hit:
            out["that_result_failed"] = Not(fld0(hit[0], "passed"))
        return out


class ArrayCollectPrefix(ArrayCollect):
    """same function, observed just before the user-check loop: the four field-level results.
    (obligations are generated on every path through the first four core checks)"""

    def setup(self, I):
        super().setup(I)
        from pandera.backends.pandas.array import ArraySchemaBackend as B

        # no user checks: the fifth core check returns an empty list, so the function runs to its end concretely
        I.models[id(B.run_checks)] = lambda I, self_obj, *args: ListObj()

    loops = {}

    def ensures(self, result, old, self_, error_handler, schema, check_obj):
        res = cur().ghost.get("results", [])
        off = offered_errors(error_handler)
        failing = [r for r in res if fld0(r, "passed") is not True and not cur().decide(fld0(r, "passed"), "passed?")]
        out = {"all_four_field_checks_ran": len(res) == 4, "one_offer_per_failing_result_in_order": off is not None and len(off) == len(failing)}
        if out["one_offer_per_failing_result_in_order"]:
            for n, (e, r) in enumerate(zip(off, failing)):
                out[f"offer_{n}_carries_result"] = error_matches_result(e, r, schema, check_obj)
        out["lazy_when_returning_with_failures"] = Implies(len(failing) > 0, fld0(error_handler, "_lazy"))
        return out


# polars twins: a user check that raises becomes a failed CHECK_ERROR result at its own position, for every position
PL_RUN_CHECK = "pandera.backends.polars.base:PolarsSchemaBackend.run_check"
PolarsColumnRunChecks = _run_checks_contract("pandera.backends.polars.components:ColumnBackend.run_checks.<unwrap>", [OtherException, SchemaError, SchemaDefinitionError],
                                             name="PolarsColumnRunChecks", run_check_target=PL_RUN_CHECK)
PolarsContainerRunChecks = _run_checks_contract("pandera.backends.polars.container:DataFrameSchemaBackend.run_checks.<unwrap>", [OtherException, SchemaError, SchemaDefinitionError],
                                                escaping=(SchemaDefinitionError,), name="PolarsContainerRunChecks", run_check_target=PL_RUN_CHECK)

CONTRACTS = [ArrayRunChecks, ColumnRunChecks, ContainerRunChecks, ArrayCollect, ArrayCollectPrefix, PolarsColumnRunChecks, PolarsContainerRunChecks]
