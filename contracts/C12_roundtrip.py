"""C12 (YAML / JSON leg) - record-level round trips through the real serialisers.

Every contract here runs the live source of a serialiser, sends its output through the assumed JSON/YAML
transport (`pyvc.theories.serial.transport`: identity on the JSON domain, failure outside it) and runs the live
source of the matching de-serialiser on what arrives.  The postconditions are the property statement, attribute by
attribute: what the constructors are called with on the way back equals what the original object held.

Cut points (S-callback): the constructors reached by the de-serialisers (`Check.<name>`, `Column`, `Index`,
`MultiIndex`, `DataFrameSchema`) are recording callbacks; the postconditions talk about the recorded arguments.
That the constructors store their arguments under the same attribute names is the structural obligation
`constructors_store_serialisable_arguments` (C12_structure.py), decided on the live classes.
"""
import inspect

import z3

from pandera.api.checks import Check
from pyvc import core, types as T
from pyvc.core import And, Iff, Implies, Not, Or, SAny, SBool, SNum, SStr, cur, ite, py_eq
from pyvc.heap import DictObj, ListObj, Obj
from pyvc.interp import LOADER, OtherException
from pyvc.spec import Contract, Lemma, resolve_target
from pyvc.theories import serial
from pyvc.theories.serial import FlowJson, JsonList, TdVal, TsVal
from pyvc.values import SymCallable

IO = "pandera.io.pandas_io"
STATS = "pandera.schema_statistics.pandas"

OPTION_NAMES = ("raise_warning", "n_failure_cases", "ignore_na")  # the documented per-check options (Check.__init__)


def builtin_shapes():
    """registered built-in checks that carry statistics: name -> parameter names (live registry + live signatures).
    The *args hypotheses (one_sample_ttest, two_sample_ttest) are not statistics-bearing and are not serialisable."""
    out = {}
    for name in sorted(Check.CHECK_FUNCTION_REGISTRY):
        ps = [p for p in inspect.signature(getattr(Check, name)).parameters.values() if p.kind is p.POSITIONAL_OR_KEYWORD]
        if ps:
            out[name] = [p.name for p in ps]
    return out


SHAPES = builtin_shapes()
NAMES = sorted(SHAPES)
DTYPE_KINDS = ("none", "int64", "datetime64[ns]", "timedelta64[ns]")


NON_TEMPORAL_ONLY = {n for n, ps in SHAPES.items() if n.startswith("str_") or set(ps) & {"allowed_values", "forbidden_values", "values", "pattern", "string"}}


def dtype_kinds_for(name):
    """typed domain: string / membership checks are considered on non-temporal components only"""
    return DTYPE_KINDS[:2] if name in NON_TEMPORAL_ONLY else DTYPE_KINDS


def live_dtype(kind):
    from pandera.engines import pandas_engine

    return None if kind == "none" else pandas_engine.Engine.dtype(kind)


def stat_value(check_name, key, dtype_kind, label):
    """a symbolic statistic of the documented type for parameter `key` of Check.<check_name>; temporal bounds exactly on
    temporal columns (typed domain, see notes/C12.md)"""
    if key in ("include_min", "include_max"):
        return T.fresh_value(T.Bool, label)
    if key in ("allowed_values", "forbidden_values", "values"):
        return JsonList(name=label)
    if key in ("pattern", "string"):
        return T.fresh_value(T.Str, label)
    if check_name == "str_length":
        return T.fresh_value(T.Opt(T.Nat), label)
    # a bound: value / min_value / max_value
    if dtype_kind == "datetime64[ns]":
        return TsVal.fresh(label)
    if dtype_kind == "timedelta64[ns]":
        return TdVal.fresh(label)
    k = cur().choose([("real", None), ("str", None)], f"kind({label})")
    return T.fresh_value(T.Real if k == 0 else T.Str, label)


def options_value(label):
    """the options record parse_checks attaches: the three documented options, None-valued ones left out"""
    d = DictObj()
    d["raise_warning"] = T.fresh_value(T.Bool, f"{label}.raise_warning")
    nfc = T.fresh_value(T.Opt(T.Nat), f"{label}.n_failure_cases")
    if nfc is not None:
        d["n_failure_cases"] = nfc
    d["ignore_na"] = T.fresh_value(T.Bool, f"{label}.ignore_na")
    return d


def check_stats_value(name, dtype_kind, label, with_options=True):
    d = DictObj()
    for key in SHAPES[name]:
        d[key] = stat_value(name, key, dtype_kind, f"{label}.{key}")
    if with_options:
        d["options"] = options_value(label)
    return d


def fresh_instance(n):
    return Obj(None, n, pre=False)


def same(a, b):
    """value equality of a transported value and the original (identity for opaque JSON values)"""
    if a is b:
        return True
    if isinstance(a, (Obj, JsonList, FlowJson)) or isinstance(b, (Obj, JsonList, FlowJson)):
        return False
    if isinstance(a, (list, ListObj)) and isinstance(b, (list, tuple, ListObj)):
        return len(a) == len(b) and And(*[same(x, y) for x, y in zip(a, b)]) if len(a) == len(b) else False
    if isinstance(a, (dict, DictObj)) and isinstance(b, (dict, DictObj)):
        if list(a) != list(b):
            return False
        return And(*[same(a[k], b[k]) for k in a]) if a else True
    if a is None or b is None:
        return False
    return py_eq(a, b)


def survives(out, key, got, want):
    if isinstance(want, TsVal):
        # known finding C12-datetime-subsecond (one obligation per contract); residual: exact on whole seconds
        out["datetime_statistic_survives"] = And(out.get("datetime_statistic_survives", True), same(got, want))
        out[key + "_when_whole_seconds"] = Implies(SBool(want.ns.z % serial.NS == 0), same(got, want))
    else:
        out[key] = same(got, want)


def check_call_matches(call, stats, out, prefix):
    """the recorded constructor call carries exactly the original statistics"""
    pargs, kw = call
    keys = [k for k in stats if k != "options"]
    if len(keys) == 1 and not kw:
        out[f"{prefix}unary_statistic_passed_positionally"] = len(pargs) == 1
        if len(pargs) == 1:
            survives(out, f"{prefix}stat_{keys[0]}_survives", pargs[0], stats[keys[0]])
        return
    out[f"{prefix}statistics_passed_by_their_names"] = len(pargs) == 0 and sorted(kw) == sorted(keys)
    for k in keys:
        if k in kw:
            survives(out, f"{prefix}stat_{k}_survives", kw[k], stats[k])


def check_options_match(inst, options, out, prefix):
    for o in OPTION_NAMES:
        if o in options:
            out[f"{prefix}option_{o}_survives"] = (o in inst.attrs) and same(inst.attrs[o], options[o])
        else:
            out[f"{prefix}option_{o}_left_at_default"] = o not in inst.attrs
    out[f"{prefix}no_other_attribute_written"] = set(inst.writes) <= set(OPTION_NAMES)


class CheckStatsRoundTrip(Contract):
    """_deserialize_check_stats(Check.<name>, transport(_serialize_check_stats(stats, dtype)), dtype) calls the
    constructor with the original statistics and re-applies every option; the wire form is JSON; the caller's
    statistics are not rewritten (only the `options` entry attached by parse_checks is detached again)."""

    target = f"{IO}:_serialize_check_stats"
    split = {"name": NAMES}
    raises = ()

    def setup(self, I):
        serial.install(I)

    def make_args(self):
        name = self.arg("name", T.OneOf(*NAMES))
        kinds = dtype_kinds_for(name)
        k = cur().choose([(d, None) for d in kinds], "dtype")
        core.register_model_var("dtype", lambda m, k=k: kinds[k])
        kind = kinds[k]
        stats = check_stats_value(name, kind, "stats")
        stats.pre, stats.name = True, "check_stats"
        g = cur().ghost
        g["c12"] = dict(name=name, kind=kind, stats0=dict(stats), options0=dict(stats["options"]), stats=stats,
                        cb=SymCallable(f"Check.{name}", T.Lazy(fresh_instance), raises=False))
        return {"check_stats": stats, "dtype": live_dtype(kind)}

    def call_target(self, I, fn, a):
        g = cur().ghost["c12"]
        ser = I.call(fn, [a["check_stats"], a["dtype"]], {})
        g["stats_after_serialize"] = dict(a["check_stats"])
        bad = []
        wire = serial.transport(ser, "$", bad)
        g["bad"] = bad
        deser = LOADER.closure_of(resolve_target(f"{IO}:_deserialize_check_stats"))
        return I.call(deser, [g["cb"], wire, a["dtype"]], {})

    def modifies(self, check_stats, dtype):
        return [("container", id(check_stats))]

    def ensures(self, result, old, check_stats, dtype):
        g = cur().ghost["c12"]
        cb, stats0 = g["cb"], g["stats0"]
        out = {"wire_form_is_json": not g["bad"]}
        after = g["stats_after_serialize"]
        out["callers_statistics_not_rewritten"] = all(k in after and after[k] is v for k, v in stats0.items() if k != "options") and \
            set(after) <= set(stats0)
        out["constructor_called_exactly_once"] = len(cb.calls) == 1
        if len(cb.calls) != 1:
            return out
        check_call_matches(cb.calls[0], stats0, out, "")
        out["returns_the_constructed_check"] = isinstance(result, Obj) and result.name.startswith(f"Check.{g['name']}")
        if isinstance(result, Obj):
            check_options_match(result, g["options0"], out, "")
        return out


CONTRACTS = [CheckStatsRoundTrip]


# ---------------------------------------------------------------------------------------
# parse_checks: list of Check objects -> {name: statistics + options}
# ---------------------------------------------------------------------------------------

UNREGISTERED = "not_a_registered_check"


def install_class_contains(I):
    """`x in Check` is MetaCheck.__contains__(Check, x): run its live source (the interpreter has no rule for `in` on a class)"""
    from pandera.api.base.checks import MetaCheck

    orig = I.contains

    def contains(c, x):
        if isinstance(c, type) and isinstance(c, MetaCheck):
            return I.call(MetaCheck.__dict__["__contains__"].__wrapped__ if hasattr(MetaCheck.__dict__["__contains__"], "__wrapped__") else MetaCheck.__dict__["__contains__"], [c, x], {})
        return orig(c, x)

    I.contains = contains


def check_object(label, name, simple=True, dtype_kind="int64"):
    """a pre-existing Check object of the given (concrete) registered name with symbolic statistics and options"""
    stats = DictObj()
    if name != UNREGISTERED:
        for key in SHAPES[name]:
            if simple:
                stats[key] = T.fresh_value(T.Real, f"{label}.{key}") if key in ("min_value", "max_value") and name != "str_length" else SAny(name=f"{label}.{key}")
            else:
                stats[key] = stat_value(name, key, dtype_kind, f"{label}.{key}")
    stats.pre, stats.name = True, f"{label}.statistics"
    o = T.Ref(Check, strict=True, raise_warning=T.Bool, n_failure_cases=T.Opt(T.Nat), ignore_na=T.Bool).fresh(label)
    for k, v in (("name", name), ("statistics", stats)):
        o.attrs[k] = v
        o.attrs0[k] = v
    return o


def documented_options(chk):
    from contracts.util import fld0

    out = {}
    for o in OPTION_NAMES:
        v = fld0(chk, o)
        if v is not None:
            out[o] = v
    return out


class ParseChecks(Contract):
    """parse_checks(checks): one entry per check, in order, holding the check's statistics and its options; None for no
    checks; unregistered checks are skipped with a warning; ValueError only for contradictory ge / le bounds."""

    target = f"{STATS}:parse_checks"
    split = {"first": [None] + NAMES + [UNREGISTERED]}
    raises = (ValueError,)
    max_paths = 20000

    def setup(self, I):
        serial.install(I)
        install_class_contains(I)

    def make_args(self):
        first = self.fixed.get("first")
        names = []
        if first is not None:
            core.register_model_var("checks[0].name", lambda m: first)
            names.append(first)
            k = cur().choose([("<end>", None)] + [(n, None) for n in NAMES], "checks[1].name")
            if k > 0:
                names.append(NAMES[k - 1])
                core.register_model_var("checks[1].name", lambda m, k=k: NAMES[k - 1])
        if len(names) == 2:
            cur().labels.append("same_name" if names[0] == names[1] else "distinct_names")
        objs = [check_object(f"checks[{i}]", n) for i, n in enumerate(names)]
        g = cur().ghost
        g["c12"] = dict(names=names, objs=objs, stats0=[dict(o.attrs["statistics"]) for o in objs])
        return {"checks": ListObj(objs)}

    def modifies(self, checks):
        # the function hands out the checks' own statistics dicts and attaches `options` to them (aliasing; the serialisers
        # detach it again - CheckStatsRoundTrip.callers_statistics_not_rewritten / SchemaRoundTrip.schema_unchanged)
        return [("container", id(o.attrs["statistics"])) for o in checks]

    def ensures(self, result, old, checks):
        g = cur().ghost["c12"]
        names, objs = g["names"], g["objs"]
        reg = [(n, o, s0) for n, o, s0 in zip(names, objs, g["stats0"]) if n != UNREGISTERED]
        warns = [e for e in cur().events if e[0] == "warn"]
        out = {"unregistered_checks_skipped_with_a_warning": len(warns) == len(names) - len(reg)}
        out["none_iff_nothing_to_serialise"] = (result is None) == (not reg)
        if result is None:
            return out
        out["is_a_dict"] = isinstance(result, (dict, DictObj))
        out["one_entry_per_check"] = len(result) == len(reg)
        distinct = []
        for n, _, _ in reg:
            if n not in distinct:
                distinct.append(n)
        out["one_entry_per_distinct_check_name_in_check_order"] = list(result) == distinct
        for i, (n, o, s0) in enumerate(reg):
            if any(n2 == n for n2, _, _ in reg[i + 1:]):
                continue  # shadowed by a later check of the same name (known finding); the survivor is checked
            e = result.get(n)
            if not isinstance(e, (dict, DictObj)):
                out["entry_is_a_record"] = False
                continue
            out[f"entry_holds_the_statistics"] = out.get("entry_holds_the_statistics", True) and \
                [k for k in e if k != "options"] == list(s0) and all(e[k] is v for k, v in s0.items())
            want = documented_options(o)
            got = e.get("options")
            ok = isinstance(got, (dict, DictObj)) and sorted(got) == sorted(want)
            out["entry_holds_every_documented_option"] = out.get("entry_holds_every_documented_option", True) and ok
            if ok:
                for k in want:
                    out[f"option_{k}_value"] = And(out.get(f"option_{k}_value", True), same(got[k], want[k]))
            cur_stats = o.attrs["statistics"]
            out["statistics_only_gain_the_options_entry"] = out.get("statistics_only_gain_the_options_entry", True) and \
                all(cur_stats.get(k) is v for k, v in s0.items()) and set(cur_stats) <= set(s0) | {"options"}
        return out

    def on_raise(self, exc, old, checks):
        g = cur().ghost["c12"]
        by = {n: o for n, o in zip(g["names"], g["objs"])}
        ge, le = by.get("greater_than_or_equal_to"), by.get("less_than_or_equal_to")
        if ge is None or le is None:
            return {"value_error_only_for_contradictory_bounds": False}
        return {"value_error_only_for_contradictory_bounds": ge.attrs["statistics"]["min_value"] > le.attrs["statistics"]["max_value"]}


CONTRACTS.append(ParseChecks)


# ---------------------------------------------------------------------------------------
# component records: _serialize_component_stats  ->  wire  ->  _deserialize_component_stats
# ---------------------------------------------------------------------------------------

COLUMN_FLAGS = ("nullable", "unique", "coerce", "required", "regex")
INDEX_FLAGS = ("nullable", "unique", "coerce")


def check_namespace(label="Check"):
    """the global `Check` of pandera.io as seen by the de-serialisers: `getattr(Check, name)` is a recording constructor"""
    return T.Ref(None, strict=True, **{n: T.Callback(T.Lazy(fresh_instance), raises=False) for n in NAMES})


def component_stats_value(kind, label, dtype_kind, check_names, opt=True):
    """the statistics record of a Column (kind='column') or of an Index level (kind='index') as documented in
    schema_statistics: every serialisable attribute under its own name"""
    S = (lambda n: T.fresh_value(T.Opt(T.Str), n)) if opt else (lambda n: T.fresh_value(T.Str, n))
    d = DictObj()
    d["dtype"] = live_dtype(dtype_kind)
    d["nullable"] = T.fresh_value(T.Bool, f"{label}.nullable")
    if kind == "column":
        for f in ("coerce", "required", "regex"):
            d[f] = T.fresh_value(T.Bool, f"{label}.{f}")
    checks = None
    if check_names is not None:
        checks = DictObj()
        for n in check_names:
            checks[n] = check_stats_value(n, dtype_kind, f"{label}.checks.{n}")
    d["checks"] = checks
    if kind == "index":
        d["coerce"] = T.fresh_value(T.Bool, f"{label}.coerce")
        d["name"] = S(f"{label}.name")
    d["unique"] = T.fresh_value(T.Bool, f"{label}.unique")
    if kind == "column":
        d["description"] = S(f"{label}.description")
        d["title"] = S(f"{label}.title")
    else:
        d["title"] = S(f"{label}.title")
        d["description"] = S(f"{label}.description")
    return d


def snapshot_component(d):
    snap = dict(d)
    if d["checks"] is not None:
        snap["checks"] = {n: {k: (dict(v) if k == "options" else v) for k, v in st.items()} for n, st in d["checks"].items()}
    return snap


def component_kwargs_match(kw, snap, ns, out, prefix="", seen_calls=None):
    """`kw` (the keyword arguments the de-serialiser builds for Column / Index) equals the record `snap`"""
    for f in snap:
        if f in ("dtype", "checks"):
            continue
        out[f"{prefix}attribute_{f}_survives"] = (f in kw) and same(kw[f], snap[f])
    out[f"{prefix}no_attribute_invented"] = set(kw) <= set(snap)
    dt = snap["dtype"]
    out[f"{prefix}dtype_survives"] = ("dtype" in kw) and ((kw["dtype"] is None) if dt is None else (kw["dtype"] == dt))
    if snap["checks"] is None:
        out[f"{prefix}no_checks_stay_none"] = kw.get("checks", 0) is None
        return
    insts = kw.get("checks")
    names = list(snap["checks"])
    out[f"{prefix}one_check_instance_per_entry"] = isinstance(insts, (list, ListObj)) and len(insts) == len(names)
    if not out[f"{prefix}one_check_instance_per_entry"]:
        return
    for i, (n, inst) in enumerate(zip(names, insts)):
        cb = ns.attrs.get(n)
        calls = cb.calls if isinstance(cb, SymCallable) else []
        k = (seen_calls or {}).get(n, 0)
        ok = isinstance(inst, Obj) and inst.name.endswith(f".{n}#{k}") and len(calls) > k
        out[f"{prefix}check_{i}_built_by_its_named_constructor"] = ok
        if not ok:
            continue
        st = snap["checks"][n]
        check_call_matches(calls[k], st, out, f"{prefix}check_{i}_")
        check_options_match(inst, st["options"], out, f"{prefix}check_{i}_")
        if seen_calls is not None:
            seen_calls[n] = k + 1


class ComponentRoundTrip(Contract):
    """a Column / Index record survives  _serialize_component_stats -> JSON -> _deserialize_component_stats  attribute by
    attribute (title, description, dtype, nullable, checks with statistics and options, name, unique, coerce, required, regex)."""

    target = f"{IO}:_serialize_component_stats"
    split = {"kind": ["column", "index"], "checks": ["none", "one", "two"]}
    sym_globals = {f"{IO}:Check": check_namespace()}
    max_paths = 20000

    def setup(self, I):
        serial.install(I)

    def make_args(self):
        kind, nchecks = self.fixed["kind"], self.fixed["checks"]
        if nchecks == "none":
            names = None
        elif nchecks == "one":
            k = cur().choose([(n, None) for n in NAMES], "check")
            names = [NAMES[k]]
        else:
            names = ["in_range", "equal_to"]  # a multi-argument and a unary check together (wiring; each kind alone is case 'one')
        kinds = DTYPE_KINDS if not names else [d for d in DTYPE_KINDS if all(d in dtype_kinds_for(n) for n in names)]
        k = cur().choose([(d, None) for d in kinds], "dtype")
        d = component_stats_value(kind, kind, kinds[k], names)
        d.pre, d.name = True, "component_stats"
        cur().ghost["c12"] = dict(snap=snapshot_component(d))
        return {"component_stats": d}

    def call_target(self, I, fn, a):
        g = cur().ghost["c12"]
        ser = I.call(fn, [a["component_stats"]], {})
        bad = []
        wire = serial.transport(ser, "$", bad)
        g["bad"] = bad
        deser = LOADER.closure_of(resolve_target(f"{IO}:_deserialize_component_stats"))
        return I.call(deser, [wire], {})

    def modifies(self, component_stats):
        out = [("container", id(component_stats))]
        if component_stats["checks"] is not None:
            out += [("container", id(st)) for st in component_stats["checks"].values()]
        return out

    def ensures(self, result, old, component_stats):
        g = cur().ghost["c12"]
        out = {"wire_form_is_json": not g["bad"], "returns_keyword_arguments": isinstance(result, (dict, DictObj))}
        if not out["returns_keyword_arguments"]:
            return out
        ns = cur().globals_state.get((IO, "Check"))
        component_kwargs_match(result, g["snap"], ns, out)
        out["record_itself_keeps_its_attributes"] = all(component_stats.get(k) is v for k, v in g["snap"].items() if k != "checks")
        return out


CONTRACTS.append(ComponentRoundTrip)


# ---------------------------------------------------------------------------------------
# whole schema: serialize_schema -> wire -> deserialize_schema
# ---------------------------------------------------------------------------------------

SCHEMA_ATTRS = ("dtype", "coerce", "strict", "name", "ordered", "unique", "report_duplicates", "unique_column_names",
                "add_missing_columns", "title", "description")
MULTIINDEX_OPTIONS = ("coerce", "strict", "name", "ordered", "unique")


FLOW = T.Lazy(lambda n: FlowJson(name=n))  # schema-level attributes are only passed along: any JSON scalar or None, no case split


def component_object(kind, label, dtype_kind, check_names):
    """a pre-existing Column / Index object: its serialisable attributes as fields"""
    checks = ListObj(check_object(f"{label}.checks[{i}]", n, simple=False, dtype_kind=dtype_kind) for i, n in enumerate(check_names))
    fields = dict(dtype=T.Const(live_dtype(dtype_kind)), nullable=T.Bool, unique=T.Bool, coerce=T.Bool, checks=T.Const(checks),
                  title=T.Str, description=T.Str)
    if kind == "column":
        fields.update(required=T.Bool, regex=T.Bool)
    else:
        fields.update(name=T.Str)
    return T.Ref(None, strict=True, **fields).fresh(label)


def snapshot_object(kind, o):
    from contracts.util import fld0

    names = ("dtype", "nullable", "unique", "coerce", "title", "description") + (("required", "regex") if kind == "column" else ("name",))
    snap = {f: fld0(o, f) for f in names}
    checks = fld0(o, "checks")
    snap["checks"] = {c.attrs["name"]: {**dict(c.attrs["statistics"]), "options": documented_options(c)} for c in checks} if checks else None
    return snap


def stats_dicts_of(schema_objs):
    out = []
    for o in schema_objs:
        for c in o.attrs.get("checks", ()) or ():
            out.append(c.attrs["statistics"])
    return out


class SchemaRoundTrip(Contract):
    """deserialize_schema(transport(serialize_schema(S))) builds a schema from exactly S's serialisable attributes: the
    DataFrameSchema constructor receives every schema-level attribute, one Column per column under the same key in the
    same order with the column's attributes, the index (None / Index / MultiIndex of the same levels), the dataframe-level
    checks; and S itself is left as it was."""

    target = f"{IO}:serialize_schema"
    split = {"columns": [0, 1, 2], "index": ["none", "single", "multi"]}
    sym_globals = {f"{IO}:Check": check_namespace(), f"{IO}:Column": T.Callback(T.Lazy(fresh_instance), raises=False),
                   f"{IO}:DataFrameSchema": T.Callback(T.Lazy(fresh_instance), raises=False)}
    raises = ()
    max_paths = 20000

    def setup(self, I):
        import pandera

        serial.install(I)
        install_class_contains(I)

        def forward(which):
            def model(I, *args, **kw):
                cbs = cur().ghost.setdefault("ctor", {})
                if which not in cbs:
                    cbs[which] = SymCallable(which, T.Lazy(fresh_instance), raises=False)
                return I.call(cbs[which], list(args), kw)

            return model

        I.models[id(pandera.Index)] = forward("Index")
        I.models[id(pandera.MultiIndex)] = forward("MultiIndex")

    def make_args(self):
        ncols, ishape = self.fixed["columns"], self.fixed["index"]
        kinds = ["int64", "datetime64[ns]"]
        cols = DictObj()
        col_objs = []
        for i in range(ncols):
            name = T.fresh_value(T.Str, f"colname{i}")
            for other in cols:
                cur().assume(name != other)  # keys of one dict
            o = component_object("column", f"col{i}", kinds[i % 2], [] if i == 0 else ["in_range"])
            cols[name] = o
            col_objs.append(o)
        levels = []
        if ishape != "none":
            levels.append(component_object("index", "level0", "int64", ["isin"]))
        if ishape == "multi":
            levels.append(component_object("index", "level1", "timedelta64[ns]", []))
        if ishape == "none":
            index = None
        elif ishape == "single":
            index = levels[0]
        else:
            mref = T.Ref(None, strict=True, indexes=T.Const(ListObj(levels)), coerce=T.Bool, name=FLOW,
                         ordered=T.Bool, unique=FLOW)
            mref.fields["strict"] = T.Bool
            index = mref.fresh("multiindex")
        k = cur().choose([("none", None), ("one", None)], "dataframe_checks")
        wide = ListObj([check_object("checks[0]", "equal_to", simple=False, dtype_kind="none")] if k else [])
        kd = cur().choose([("None", None), ("int64", None)], "schema.dtype") if ncols == 0 else 0
        sref = T.Ref(None, strict=True, columns=T.Const(cols), checks=T.Const(wide), index=T.Const(index),
                       dtype=T.Const(None if kd == 0 else live_dtype("int64")), coerce=T.Bool,
                       name=FLOW, ordered=T.Bool, unique=FLOW, report_duplicates=FLOW,
                       unique_column_names=T.Bool, add_missing_columns=T.Bool, title=FLOW, description=FLOW)
        sref.fields["strict"] = T.OneOf(True, False, "filter")  # (its three legal values, not a flow-only value: a writer that DECIDES on it - e.g. turns flags into bools - is then decided, not undecided)
        schema = sref.fresh("schema")
        from contracts.util import fld0

        g = cur().ghost
        everything = col_objs + levels + [schema]
        schema.attrs["checks"] = wide
        schema.attrs0["checks"] = wide
        g["c12"] = dict(cols=[(n, o, snapshot_object("column", o)) for n, o in cols.items()],
                        levels=[(o, snapshot_object("index", o)) for o in levels], ishape=ishape, index=index,
                        wide=[(c.attrs["name"], {**dict(c.attrs["statistics"]), "options": documented_options(c)}) for c in wide],
                        attrs={a: fld0(schema, a) for a in SCHEMA_ATTRS},
                        stats0=[(d, dict(d)) for d in stats_dicts_of(everything)])
        return {"dataframe_schema": schema}

    def call_target(self, I, fn, a):
        g = cur().ghost["c12"]
        ser = I.call(fn, [a["dataframe_schema"]], {})
        bad = []
        wire = serial.transport(ser, "$", bad, text_keys=False)
        g["bad"] = bad
        deser = LOADER.closure_of(resolve_target(f"{IO}:deserialize_schema"))
        return I.call(deser, [wire], {})

    def modifies(self, dataframe_schema):
        return [("container", id(d)) for d, _ in cur().ghost["c12"]["stats0"]]

    def ensures(self, result, old, dataframe_schema):
        g = cur().ghost["c12"]
        p = cur()
        ns = p.globals_state.get((IO, "Check"))
        col_cb = p.globals_state.get((IO, "Column"))
        sch_cb = p.globals_state.get((IO, "DataFrameSchema"))
        ctor = p.ghost.get("ctor", {})
        bad = g["bad"]
        out = {"wire_form_is_json": not bad}
        if bad:
            cur().labels.append("not representable: " + ", ".join(w for w, _ in bad))
        out["schema_constructed_exactly_once"] = sch_cb is not None and len(sch_cb.calls) == 1 and result is not None and \
            isinstance(result, Obj) and result.name.endswith("DataFrameSchema#0")
        if not out["schema_constructed_exactly_once"]:
            return out
        pargs, kw = sch_cb.calls[0]
        out["schema_attributes_passed_by_name"] = len(pargs) == 0
        for a_ in SCHEMA_ATTRS:
            want = g["attrs"][a_]
            got = kw.get(a_, "<missing>")
            if a_ == "dtype":
                out["schema_dtype_survives"] = (got is None) if want is None else (got == want)
            else:
                out[f"schema_{a_}_survives"] = (a_ in kw) and same(got, want)
        seen = {}
        # columns
        cols = kw.get("columns")
        want_cols = g["cols"]
        ncalls = len(col_cb.calls) if col_cb is not None else 0
        out["one_column_per_column_same_keys_same_order"] = isinstance(cols, (dict, DictObj)) and len(cols) == len(want_cols) and \
            all(k is n for k, (n, _, _) in zip(cols, want_cols)) and ncalls == len(want_cols)
        if out["one_column_per_column_same_keys_same_order"]:
            for i, ((n, o, snap), inst) in enumerate(zip(want_cols, cols.values())):
                out[f"column_{i}_is_the_constructed_column"] = isinstance(inst, Obj) and inst.name.endswith(f"Column#{i}")
                cp, ckw = col_cb.calls[i]
                component_kwargs_match(ckw, snap, ns, out, f"column_{i}_", seen) if not cp else out.update({f"column_{i}_keywords": False})
        # index
        idx = kw.get("index", "<missing>")
        icb = ctor.get("Index")
        icalls = icb.calls if icb is not None else []
        if g["ishape"] == "none":
            out["no_index_stays_none"] = idx is None and not icalls and "MultiIndex" not in ctor
        else:
            out["one_index_per_level"] = len(icalls) == len(g["levels"])
            if out["one_index_per_level"]:
                for i, ((o, snap), (cp, ckw)) in enumerate(zip(g["levels"], icalls)):
                    component_kwargs_match(ckw, snap, ns, out, f"level_{i}_", seen) if not cp else out.update({f"level_{i}_keywords": False})
            if g["ishape"] == "single":
                out["single_index_is_an_index"] = isinstance(idx, Obj) and idx.name.endswith("Index#0") and "MultiIndex" not in ctor
            else:
                mcb = ctor.get("MultiIndex")
                ok = mcb is not None and len(mcb.calls) == 1 and isinstance(idx, Obj) and idx.name.endswith("MultiIndex#0")
                out["multiindex_constructed_once"] = ok
                if ok:
                    mp, mkw = mcb.calls[0]
                    lv = mkw.get("indexes", mp[0] if mp else None)
                    out["multiindex_levels_in_order"] = isinstance(lv, (list, ListObj)) and len(lv) == len(g["levels"]) and \
                        all(isinstance(x, Obj) and x.name.endswith(f"Index#{i}") for i, x in enumerate(lv))
                    from contracts.util import fld0

                    allopt = True
                    missing = []
                    for o_ in MULTIINDEX_OPTIONS:
                        if o_ not in mkw:
                            allopt = False
                            missing.append(o_)
                        else:
                            allopt = And(allopt, same(mkw[o_], fld0(g["index"], o_)))
                    if missing:
                        cur().labels.append("MultiIndex options not passed: " + ",".join(missing))
                    out["multiindex_options_survive"] = allopt
        # dataframe-level checks
        wide = kw.get("checks", "<missing>")
        if not g["wide"]:
            out["no_dataframe_checks_stay_none"] = wide is None
        else:
            ok = isinstance(wide, (list, ListObj)) and len(wide) == len(g["wide"])
            out["one_instance_per_dataframe_check"] = ok
            if ok:
                for i, ((n, st), inst) in enumerate(zip(g["wide"], wide)):
                    cb = ns.attrs.get(n)
                    k = seen.get(n, 0)
                    ok2 = isinstance(inst, Obj) and isinstance(cb, SymCallable) and inst.name.endswith(f".{n}#{k}") and len(cb.calls) > k
                    out[f"dataframe_check_{i}_built_by_its_named_constructor"] = ok2
                    if ok2:
                        check_call_matches(cb.calls[k], st, out, f"dataframe_check_{i}_")
                        check_options_match(inst, st["options"], out, f"dataframe_check_{i}_")
                        seen[n] = k + 1
        # S itself
        out["schema_unchanged"] = all(list(d) == list(d0) and all(d[k] is v for k, v in d0.items()) for d, d0 in g["stats0"])
        return out


def _schema_roundtrip_replay(self, rec):
    def thunk():
        """every legal value of the dataframe-level options through yaml and json"""
        import warnings

        import pandera as pa
        import pandera.io as pio

        warnings.simplefilter("ignore")
        obs, bad = {}, False
        for strict in (False, True, "filter"):
            for ordered in (False, True):
                s = pa.DataFrameSchema({"a": pa.Column(int)}, strict=strict, ordered=ordered, coerce=True, unique_column_names=True)
                for leg, back in (("yaml", lambda x: pio.from_yaml(pio.to_yaml(x))), ("json", lambda x: pio.from_json(pio.to_json(x)))):
                    try:
                        r = back(s)
                        got = {"strict": r.strict, "ordered": r.ordered, "equal": r == s}
                    except Exception as e:  # noqa: BLE001
                        got = f"raised {type(e).__name__}"
                    if got != {"strict": strict, "ordered": ordered, "equal": True}:
                        bad = True
                        obs[f"{leg} round trip of DataFrameSchema(strict={strict!r}, ordered={ordered})"] = got
        return bad, obs or "dataframe-level options survive both text legs"

    return thunk


SchemaRoundTrip.concretize = _schema_roundtrip_replay

CONTRACTS.append(SchemaRoundTrip)
