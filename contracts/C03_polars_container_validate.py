"""C03 / C02 / C06 / C18 / C20 (polars container): pandera.backends.polars DataFrameSchemaBackend.validate as a composition.

Callees are replaced by interface contracts (modular); the REAL body of validate runs:
  parser p in (add_missing_columns, strict_filter_columns, coerce_dtype, set_default): returns a NEW LazyFrame derived from its argument
      (polars frames are immutable) or raises SchemaError with one of the reason codes its own source can raise / SchemaErrors;
  subsample: returns a frame derived from its argument (its own contract: C20 PolarsSubsample);
  each core check (check_column_presence, check_column_values_are_unique, run_schema_component_checks, run_checks): returns no
      failing result, one failing result of its own, or (component checks) a result that wraps a component's SchemaError;
  drop_invalid_rows: its own contract (C11); requires every collected error to carry a row-aligned check_output.
Obligations:
  C03 lineage   every parser runs once, in the documented order, on the previous parser's result; the object that is sub-sampled,
                checked and returned is the end of that chain (or what drop_invalid_rows makes of it)
  C20 wiring    column presence sees the WHOLE parsed frame; joint uniqueness, component checks and wide checks see the sub-sample
  C02 report    every failing core result is offered to the handler exactly once, in order, as the error it wraps or as a SchemaError
                carrying its fields; eager mode raises the first; SchemaErrors carries exactly the handler's errors and the parsed frame
  C06 channel   only SchemaDefinitionError / SchemaError (eager) / SchemaErrors (lazy) leave the function
  C18 depth     pre@collect_error.error_scope_is_enabled_at_this_depth for errors of the parser stage (see C18_parser_stage)
"""
from pandera.api.base.error_handler import ErrorHandler
from pandera.backends.base import CoreCheckResult
from pandera.config import ValidationDepth, ValidationScope
from pandera.errors import SchemaDefinitionError, SchemaError, SchemaErrorReason, SchemaErrors
from pandera.validation_depth import VALIDATION_DEPTH_ERROR_CODE_MAP
from pyvc import core, types as T
from pyvc.core import And, Iff, Implies, Not, Or, PyExc, SAny, SBool, cur, py_eq
from pyvc.heap import ListObj, Obj
from pyvc.interp import OtherException
from pyvc.spec import Contract
from pyvc.theories import polars_lite as PP
from contracts.util import fld, fld0

DFP = "pandera.backends.polars.container:DataFrameSchemaBackend"
PARSERS = ["add_missing_columns", "strict_filter_columns", "coerce_dtype", "set_default"]
CHECKS = ["check_column_presence", "check_column_values_are_unique", "run_schema_component_checks", "run_checks"]
OWN_REASON = {"check_column_presence": SchemaErrorReason.COLUMN_NOT_IN_DATAFRAME, "check_column_values_are_unique": SchemaErrorReason.DUPLICATES,
              "run_schema_component_checks": SchemaErrorReason.SCHEMA_COMPONENT_CHECK, "run_checks": SchemaErrorReason.CHECK_ERROR}


def parser_reason_codes(name):
    from pandera.backends.polars.container import DataFrameSchemaBackend as B
    from contracts.C18_scopes import _literal_reason_codes

    codes = set(_literal_reason_codes(getattr(B, name)))
    if name == "coerce_dtype":
        codes |= set(_literal_reason_codes(B._coerce_dtype_helper))
    return sorted(codes)


def scope_enabled(scope, depth):
    if depth is None or depth is ValidationDepth.SCHEMA_AND_DATA:
        return True
    return (scope is ValidationScope.SCHEMA) == (depth is ValidationDepth.SCHEMA_ONLY)


class Lf:
    """an opaque LazyFrame: identity + lineage"""

    __pyvc_symbolic__ = True

    def __init__(self, how, parent=None):
        self.how, self.parent = how, parent

    def lineage(self):
        out, f = [], self
        while f is not None:
            out.append(f.how)
            f = f.parent
        return list(reversed(out))

    def pyvc_class(self):
        import polars as pl

        return pl.LazyFrame


class PolarsContainerValidate(Contract):
    target = f"{DFP}.validate"
    raises = (SchemaDefinitionError, SchemaError, SchemaErrors)
    split = {"lazy": [True, False], "drop": [True, False]}
    max_paths = 30000
    check_frame = False
    depth_obligation = False

    def parser_codes(self, name):
        # one representative SchemaError per parser here; PolarsParserStageRespectsDepth enumerates the codes each parser can raise
        codes = parser_reason_codes(name)
        return codes[:1] if codes else ["PARSER_ERROR"]

    def setup(self, I):
        from pandera.backends.polars.container import DataFrameSchemaBackend as B
        import warnings as _w

        I.models[id(_w.warn)] = lambda I, *a, **k: None

        class FrameFacts:
            """names / dtypes resolved from ONE frame (get_lazyframe_schema, get_lazyframe_column_names): true of that frame only -
            every parser returns a new frame whose columns or dtypes may differ (add_missing_columns, strict filter, coerce_dtype)"""

            __pyvc_symbolic__ = True

            def __init__(self, of):
                self.of = of

            def pyvc_iter(self, I_=None):
                return []

            def pyvc_len(self):
                # the number of columns of THAT frame (one unknown number per frame)
                if getattr(self.of, "n_columns", None) is None:
                    try:
                        self.of.n_columns = core.sym_int("n_columns")
                        cur().assume(self.of.n_columns >= 0)
                    except AttributeError:
                        raise core.Unsupported("number of columns of an unmodelled frame")
                return self.of.n_columns

            def pyvc_contains(self, I_, x):
                return SAny(name="in_frame").truth() if hasattr(SAny, "truth") else False

        import pandera.api.polars.utils as PU
        import pandera.backends.polars.container as PC

        for fname in ("get_lazyframe_schema", "get_lazyframe_column_names", "get_lazyframe_column_dtypes"):
            for mod in (PU, PC):
                if hasattr(mod, fname):
                    I.models[id(getattr(mod, fname))] = lambda I_, lf: FrameFacts(lf)

        def parser_model(name, codes):
            def m(I, self_obj, check_obj, *args, **kw):
                p = cur()
                for a in list(args) + list(kw.values()):
                    if isinstance(a, FrameFacts):
                        p.check(a.of is check_obj, f"{DFP}.validate/pre@{name}.facts_about_a_frame_are_used_for_that_frame_only",
                                note=f"{name} is handed names / dtypes resolved from an earlier frame of the parser chain")
                p.ghost.setdefault("calls", []).append((name, check_obj, args))
                k = p.choose([("returns", None)] + [(c, None) for c in codes] + [("SchemaErrors", None)], name)
                if 0 < k <= len(codes):
                    e = I.make_exc(SchemaError)
                    e.attrs["reason_code"] = SchemaErrorReason[codes[k - 1]]
                    p.ghost.setdefault("parser_errors", []).append(e)
                    raise PyExc(e)
                if k > len(codes):
                    e = I.make_exc(SchemaErrors)
                    inner = ListObj([SAny(name=f"{name}_error")])
                    e.attrs["schema_errors"] = inner
                    p.ghost.setdefault("parser_errors", []).append(e)
                    raise PyExc(e)
                r = Lf(name, check_obj)
                p.ghost["current"] = r
                return r

            return m

        for name in PARSERS:
            I.models[id(getattr(B, name))] = parser_model(name, self.parser_codes(name))
        def column_info(I, s, obj, schema, *facts, **kfacts):
            # ColumnInfo describes the columns of the frame it was computed from (absent / present / regex-expanded names)
            for a in list(facts) + list(kfacts.values()):
                if isinstance(a, FrameFacts):
                    cur().check(a.of is obj, f"{DFP}.validate/pre@collect_column_info.facts_about_a_frame_are_used_for_that_frame_only",
                                note="collect_column_info is handed names / dtypes resolved from another frame")
            ci = SAny(name=f"column_info#{len(cur().ghost.setdefault('column_infos', []))}")
            cur().ghost["column_infos"].append((ci, obj))
            return ci

        I.models[id(B.collect_column_info)] = column_info
        I.models[id(B.collect_schema_components)] = lambda I, s, obj, schema, ci: cur().ghost.setdefault("components", (SAny(name="components"), obj, ci))[0]

        def subsample(I, self_obj, check_obj, head=None, tail=None, sample=None, random_state=None):
            p = cur()
            # (C20 PolarsSubsample/post.no_option_returns_the_object_itself)
            r = check_obj if (head is None and tail is None and sample is None) else Lf("subsample", check_obj)
            p.ghost["subsampled"] = (check_obj, (head, tail, sample, random_state), r)
            return r

        I.models[id(B.subsample)] = subsample

        def check_model(name):
            def m(I, self_obj, *args):
                p = cur()
                p.ghost.setdefault("check_calls", []).append((name, args))
                opts = [("passes", None), ("fails", None)] + ([("component_error", None)] if name == "run_schema_component_checks" else []) + (
                    [("two_failures", None)] if name in ("check_column_presence", "check_column_values_are_unique") else [])
                k = p.choose(opts, name)
                if k == 0:
                    return ListObj() if name != "check_column_values_are_unique" else ListObj([T.Ref(CoreCheckResult, strict=True, passed=T.Const(True), schema_error=T.Const(None)).fresh(f"{name}_ok")])

                def failure(tag, wraps):
                    r = T.Ref(CoreCheckResult, strict=True, passed=T.Const(False), check=T.Any, check_index=T.Any, check_output=T.Any,
                              reason_code=T.Const(OWN_REASON[name]), message=T.Any, failure_cases=T.Any,
                              schema_error=T.Ref(SchemaError) if wraps else T.Const(None), original_exc=T.Any).fresh(f"{name}_failure{tag}")
                    p.ghost.setdefault("failing", []).append(r)
                    return r

                if opts[k][0] == "two_failures":  # a core check may report several failures (one per absent column / violated constraint): none may be lost
                    return ListObj([failure("#0", False), failure("#1", False)])
                r = failure("", opts[k][0] == "component_error")
                return ListObj([r])

            return m

        for name in CHECKS:
            fn = getattr(B, name)
            I.models[id(fn)] = check_model(name)

        def drop(I, self_obj, check_obj, error_handler):
            p = cur()
            p.ghost["drop_called_with"] = (check_obj, error_handler)
            # precondition of polars drop_invalid_rows (its own contract, C11): every collected error carries a boolean, row-aligned
            # check_output.  Errors of the parser stage, of column presence and the wrapped component errors (wrong dtype, ...) do not:
            # provable only when nothing but nothing of that kind was collected
            p.check(not p.ghost.get("parser_errors") and not p.ghost.get("failing"),
                    f"{DFP}.validate/pre@drop_invalid_rows.every_collected_error_is_row_attributable",
                    note="errors collected from core checks / parsers are not known to carry a row-aligned check_output")
            # ... and the masks were computed by checks that ran on the SUB-SAMPLE: they are row-aligned with the frame that is
            # filtered only if that is the very frame the checks saw (no head / tail / sample requested)
            sub = p.ghost.get("subsampled")
            p.check(sub is not None and sub[2] is check_obj,
                    f"{DFP}.validate/pre@drop_invalid_rows.row_masks_are_over_the_frame_that_is_filtered",
                    note="the checks ran on a head / tail / sample sub-frame, drop_invalid_rows filters the whole parsed frame with their masks")
            r = Lf("drop_invalid_rows", check_obj)
            p.ghost["dropped"] = r
            return r

        I.models[id(B.drop_invalid_rows)] = drop
        from pandera.api.base.error_handler import ErrorHandler as EH

        def collect_error(I, h, error_type, reason_code, schema_error, original_exc=None):
            p = cur()
            p.ghost.setdefault("offered", []).append((error_type, reason_code, schema_error, original_exc))
            if self.depth_obligation and p.ghost.get("check_calls") is None and isinstance(reason_code, SchemaErrorReason):
                # still in the parser stage: depth obligation (C18)
                ctx = p.globals_state.get(("pandera.config", "_CONTEXT_CONFIG"))
                if ctx is None:
                    from pandera import config as pc
                    from pyvc.interp import LOADER

                    ctx = I.lookup_global("_CONTEXT_CONFIG", LOADER.closure_of(pc.get_config_context))
                depth = fld(ctx, "validation_depth")
                p.check(scope_enabled(VALIDATION_DEPTH_ERROR_CODE_MAP[reason_code], depth),
                        f"{DFP}.validate/pre@collect_error.error_scope_is_enabled_at_this_depth",
                        note=f"{reason_code.name} ({VALIDATION_DEPTH_ERROR_CODE_MAP[reason_code].name}-level) offered under depth {getattr(depth, 'name', None)}")
            if not I.truth(fld(h, "_lazy")):
                raise PyExc(schema_error)
            fld(h, "_collected_errors").append(schema_error)
            fld(h, "_schema_errors").append(schema_error)
            return None

        def collect_errors(I, h, schema_errors, original_exc=None):
            p = cur()
            p.ghost.setdefault("offered", []).append(("many", None, schema_errors, original_exc))
            if not I.truth(fld(h, "_lazy")):
                raise PyExc(I.make_exc(SchemaError))
            fld(h, "_collected_errors").append(schema_errors)
            fld(h, "_schema_errors").append(schema_errors)
            return None

        I.models[id(EH.collect_error)] = collect_error
        I.models[id(EH.collect_errors)] = collect_errors

    def make_args(self):
        from pandera.backends.polars.container import DataFrameSchemaBackend as B

        # sub-sampling: requested (arbitrary head / tail / sample values) or not requested at all (all None) - the two cases differ only
        # in what drop_invalid_rows may assume about the row masks, so the case split is made where rows can be dropped
        none = self.fixed.get("drop", False) and self.fixed.get("lazy", True) and cur().choose([("subsample_requested", None), ("whole_frame", None)], "head/tail/sample") == 1
        opt = (lambda n: None) if none else (lambda n: T.fresh_value(T.Any, n))
        return {"self": T.Ref(B).fresh("self"), "check_obj": Lf("argument"),
                "schema": T.Ref(None, drop_invalid_rows=T.Const(self.fixed.get("drop", False)), name=T.Any).fresh("schema"),
                "lazy": self.arg("lazy", T.Bool), "inplace": T.fresh_value(T.Bool, "inplace"),
                "head": opt("head"), "tail": opt("tail"), "sample": opt("sample"),
                "random_state": T.fresh_value(T.Any, "random_state")}

    def call_target(self, I, fn, a):
        return I.call(fn, [a["self"], a["check_obj"], a["schema"]],
                      dict(head=a["head"], tail=a["tail"], sample=a["sample"], random_state=a["random_state"], lazy=a["lazy"], inplace=a["inplace"]))

    # ---- shared pieces of the posts
    def _lineage_posts(self, check_obj):
        p = cur()
        calls = p.ghost.get("calls", [])
        out = {"all_parsers_ran_once_in_order": [c[0] for c in calls] == PARSERS}
        # each parser received the result of the last parser that returned (or the argument)
        prev, ok = check_obj, True
        for name, got, args in calls:
            ok = ok and got is prev
            nxt = [x for x in [p.ghost.get("current")] if x is not None and x.how == name and x.parent is got]
            # the parser returned iff a frame with this lineage step exists on the chain
            f = p.ghost.get("current")
            while f is not None and not (f.how == name and f.parent is got):
                f = f.parent
            if f is not None:
                prev = f
        out["each_parser_gets_the_previous_result"] = ok
        parsed = prev
        sub = p.ghost.get("subsampled")
        out["subsample_taken_from_the_parsed_frame"] = sub is not None and sub[0] is parsed
        return out, parsed, sub

    def _wiring_posts(self, parsed, sub, schema, lazy, kw):
        p = cur()
        cc = p.ghost.get("check_calls", [])
        out = {"core_checks_run_in_documented_order": [c[0] for c in cc] == CHECKS[: len(cc)]}
        comp = p.ghost.get("components")

        def describes_parsed(ci):
            """the ColumnInfo was computed from a frame with the columns of the parsed frame: from that frame itself or from an ancestor
            that only column-preserving parsers (coerce_dtype, set_default) separate from it - add_missing_columns and
            strict_filter_columns change the column set, so information gathered before them is stale"""
            of = [o for c, o in p.ghost.get("column_infos", []) if c is ci]
            if not of:
                return False
            f = parsed
            while f is not of[0]:
                if not isinstance(f, Lf) or f.how not in ("coerce_dtype", "set_default"):
                    return False
                f = f.parent
            return True

        if sub is not None:
            out["subsample_options_forwarded"] = sub[1] == (kw["head"], kw["tail"], kw["sample"], kw["random_state"])
        for name, args in cc:
            if name == "check_column_presence":
                out["presence_sees_the_whole_parsed_frame"] = args[0] is parsed and args[1] is schema
                out["presence_is_judged_on_the_columns_of_the_parsed_frame"] = describes_parsed(args[2])
            elif name == "check_column_values_are_unique":
                out["joint_uniqueness_sees_the_subsample"] = sub is not None and args[0] is sub[2] and args[1] is schema
            elif name == "run_schema_component_checks":
                out["components_see_the_subsample"] = sub is not None and args[0] is sub[2] and args[1] is schema and comp is not None and args[2] is comp[0] and args[3] is lazy
                out["components_collected_from_the_parsed_frame"] = comp is not None and comp[1] is parsed
                out["components_are_chosen_by_the_columns_of_the_parsed_frame"] = comp is not None and describes_parsed(comp[2])
            elif name == "run_checks":
                out["wide_checks_see_the_subsample"] = sub is not None and args[0] is sub[2] and args[1] is schema
        return out

    def _report_posts(self, schema, parsed):
        """every failing core result was offered once, in order, as the right error"""
        p = cur()
        offered = [o for o in p.ghost.get("offered", []) if o[0] != "many" and o[2] not in [e for e in p.ghost.get("parser_errors", [])]]
        failing = p.ghost.get("failing", [])
        out = {"one_offer_per_failing_result_in_order": len(offered) >= len(failing) - 0 and len(offered) in (len(failing), len(failing))}
        for n, (o, r) in enumerate(zip(offered, failing)):
            et, rc, err, oexc = o
            if fld0(r, "schema_error") is not None:
                ok = err is fld0(r, "schema_error")
            else:
                ok = (isinstance(err, Obj) and err.cls is SchemaError and err.attrs.get("schema") is schema and err.attrs.get("data") is parsed
                      and err.attrs.get("failure_cases") is fld0(r, "failure_cases") and err.attrs.get("check") is fld0(r, "check")
                      and err.attrs.get("check_index") is fld0(r, "check_index") and err.attrs.get("check_output") is fld0(r, "check_output")
                      and err.attrs.get("reason_code") is fld0(r, "reason_code") and err.attrs.get("args") == (fld0(r, "message"),))
            out[f"offer_{n}_is_the_error_of_result_{n}"] = ok
            out[f"offer_{n}_classified_by_the_results_reason_code"] = rc is fld0(r, "reason_code") and et is VALIDATION_DEPTH_ERROR_CODE_MAP[fld0(r, "reason_code")] and oexc is fld0(r, "original_exc")
        return out, offered, failing

    def ensures(self, result, old, self_, check_obj, schema, lazy, inplace, **kw):
        p = cur()
        drop = fld0(schema, "drop_invalid_rows")
        out, parsed, sub = self._lineage_posts(check_obj)
        out.update(self._wiring_posts(parsed, sub, schema, lazy, kw))
        rep, offered, failing = self._report_posts(schema, parsed)
        out.update(rep)
        out["all_core_checks_ran"] = [c[0] for c in p.ghost.get("check_calls", [])] == CHECKS
        any_error = bool(p.ghost.get("parser_errors")) or bool(failing)
        if "drop_called_with" in p.ghost:
            out["drop_only_when_requested_and_errors_exist"] = drop is True and any_error
            out["dropped_from_the_parsed_frame"] = p.ghost["drop_called_with"][0] is parsed
            out["returns_the_dropped_frame"] = result is p.ghost.get("dropped")
        else:
            out["returns_the_parsed_frame"] = result is parsed
            out["returns_only_without_errors"] = not any_error
        return out

    def on_raise(self, exc, old, self_, check_obj, schema, lazy, inplace, **kw):
        p = cur()
        drop = fld0(schema, "drop_invalid_rows")
        out = {}
        if exc.cls is SchemaDefinitionError:
            out["definition_error_iff_drop_without_lazy"] = drop is True and lazy is False and not p.ghost.get("calls")
        elif exc.cls is SchemaError:
            out["single_error_only_when_eager"] = lazy is False
            failing = p.ghost.get("failing", [])
            perr = p.ghost.get("parser_errors", [])
            # eager: the FIRST error that arises is the one raised
            first = None
            if perr:
                first = perr[0]
            elif failing:
                first = failing[0]
            if first is not None and first in perr:
                out["eager_raises_the_first_error"] = exc is first or first.cls is SchemaErrors
            elif first is not None:
                se = fld0(first, "schema_error")
                out["eager_raises_the_first_error"] = (exc is se) if se is not None else (exc.attrs.get("reason_code") is fld0(first, "reason_code") and exc.attrs.get("check") is fld0(first, "check"))
        elif exc.cls is SchemaErrors:
            out["collected_errors_only_when_lazy_and_not_dropping"] = lazy is True and drop is not True
            if "schema_errors" in exc.attrs:
                h = [o for o in p.objects if o.cls is ErrorHandler]
                _, parsed, _ = self._lineage_posts(check_obj)
                out["carries_exactly_the_collected_errors"] = len(h) == 1 and exc.attrs["schema_errors"] is fld(h[0], "_schema_errors")
                out["carries_the_parsed_frame"] = exc.attrs.get("data") is parsed
                rep, offered, failing = self._report_posts(schema, parsed)
                out.update(rep)
        return out


def _parsed_frame_replay(self, rec):
    def thunk():
        """the components are chosen by the columns of the PARSED frame: a column that add_missing_columns has just added is validated,
        also when strict='filter' removes as many columns as were added (the number of columns is then unchanged) - as on pandas"""
        import warnings

        import pandas as pd
        import polars as pl
        import pandera as pa
        import pandera.polars as pp

        warnings.simplefilter("ignore")
        obs, bad = {}, False
        data = {"a": [1, 2], "z": [7, 8]}
        verdicts = {}
        for lib, mod, mk in (("pandas", pa, pd.DataFrame), ("polars", pp, pl.DataFrame)):
            schema = mod.DataFrameSchema({"a": mod.Column(int), "b": mod.Column(int, pa.Check.gt(5), unique=True, default=0)}, add_missing_columns=True, strict="filter")
            for lazy in (False, True):
                try:
                    schema.validate(mk(data), lazy=lazy)
                    verdicts[f"{lib}, lazy={lazy}"] = "accepted"
                except (pa.errors.SchemaError, pa.errors.SchemaErrors):
                    verdicts[f"{lib}, lazy={lazy}"] = "rejected"
                except Exception as e:  # noqa: BLE001
                    verdicts[f"{lib}, lazy={lazy}"] = "leaked " + type(e).__name__
        if set(verdicts.values()) != {"rejected"}:
            bad = True
            obs["added column b (default 0, Check.gt(5), unique) while strict='filter' drops the extra column z: every run must reject"] = verdicts
        return bad, obs or "a column added by add_missing_columns is validated whatever strict='filter' removes"

    return thunk


PolarsContainerValidate.concretize = _parsed_frame_replay


class PolarsParserStageRespectsDepth(PolarsContainerValidate):
    """C18: only the call-site obligation pre@collect_error.error_scope_is_enabled_at_this_depth, for every reason code the
    parsers' own sources can raise; the core checks pass (their scoping is ScopeWrapper_* / C18_scopes)."""

    split = {"lazy": [True, False]}
    depth_obligation = True

    def parser_codes(self, name):
        return parser_reason_codes(name)

    def setup(self, I):
        super().setup(I)
        from pandera.backends.polars.container import DataFrameSchemaBackend as B

        for name in CHECKS:
            I.models[id(getattr(B, name))] = (lambda I, self_obj, *a: cur().ghost.setdefault("check_calls", []) and None or ListObj())

    def make_args(self):
        self.fixed = dict(self.fixed, drop=False)
        return super().make_args()

    def ensures(self, result, old, **a):
        return {}

    def on_raise(self, exc, old, **a):
        return {}

    def concretize(self, rec):
        note = rec.get("note") or ""

        def thunk():
            import warnings

            import polars as pl
            import pandera as pa
            import pandera.polars as pp
            from pandera.config import config_context

            warnings.simplefilter("ignore")

            def verdict(schema, df, depth):
                with config_context(validation_depth=depth):
                    try:
                        schema.validate(df)
                        return "accept"
                    except (pa.errors.SchemaError, pa.errors.SchemaErrors):
                        return "reject"
                    except Exception as e:  # noqa: BLE001
                        return "raises " + type(e).__name__

            if "SCHEMA-level" in note:
                df = pl.DataFrame({"a": [1.0], "b": [1]})
                obs = {"strict=True, undeclared column, DATA_ONLY": verdict(pp.DataFrameSchema({"a": pp.Column(float)}, strict=True), df, ValidationDepth.DATA_ONLY),
                       "data-level part of the schema alone": verdict(pp.DataFrameSchema({"a": pp.Column(float)}), df, ValidationDepth.SCHEMA_AND_DATA)}
            else:
                df = pl.DataFrame({"a": ["x"]})
                obs = {"Column(int, coerce=True) on ['x'], SCHEMA_ONLY": verdict(pp.DataFrameSchema({"a": pp.Column(int, coerce=True)}), df, ValidationDepth.SCHEMA_ONLY),
                       "names-only part of the schema": verdict(pp.DataFrameSchema({"a": pp.Column()}), df, ValidationDepth.SCHEMA_AND_DATA)}
            v = list(obs.values())
            return v[0] != v[1], obs

        return thunk


CONTRACTS = [PolarsContainerValidate]
DEPTH_CONTRACTS = [PolarsParserStageRespectsDepth]
