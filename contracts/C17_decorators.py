"""C17 - decorators gate the call on validation and are otherwise transparent (check_input / check_output / check_io).

Oracle: the property statement and the docstrings of pandera.decorators.check_input / check_output / check_io
(``obj_getter``: int = index in the args part of the signature, str = argument name - "This works even if the
series/dataframe is passed in as a positional argument" -, None = first argument; ``head/tail/sample/random_state/
lazy/inplace``: the validation options of ``schema.validate``).

How the real code is verified: the contract target is the decorator factory itself (``check_input`` ...).  The
verifier symbolically executes the live source of the factory, of the nested ``decorator`` and of the nested
``_wrapper`` (closures are interpreted from the same source text) and then CALLS the wrapper on a symbolic argument
frame.  The decorated user function is a real python function object (so ``inspect`` runs natively on it) whose
behaviour is an S-callback (pyvc/theories/pyfunc.py); ``schema.validate`` is an S-callback too (SchemaVal below:
arbitrary result, or SchemaError / SchemaErrors / any other exception).  Signature shapes x call shapes x designations
are enumerated (case split + path decisions): each combination is a proof for ALL argument values, ALL option values
and ALL behaviours of validate and of the body; the enumeration of shapes itself is finite (listed in notes/C17.md).
"""
import inspect

import z3

from pandera.api.dataframe.components import ComponentSchema
from pandera.api.pandas.container import DataFrameSchema
from pandera.errors import SchemaError, SchemaErrors
from pyvc import core, types as T
from pyvc.core import And, Iff, Implies, Not, Or, PyExc, SAny, SBool, cur, py_eq
from pyvc.heap import DictObj, ListObj, Obj
from pyvc.interp import OtherException
from pyvc.spec import Contract, Lemma
from pyvc.theories import pyfunc as PF

DEC = "pandera.decorators"
OPTION_NAMES = ("head", "tail", "sample", "random_state", "lazy", "inplace")
VALIDATE_SIG = inspect.signature(DataFrameSchema.validate)  # (self, check_obj, head, tail, sample, random_state, lazy, inplace)


# ---------------------------------------------------------------------------------------
# assumed contract of the callee `schema.validate` (its own behaviour is the business of C03/C04/C06/C20)
# ---------------------------------------------------------------------------------------


def tick():
    p = cur()
    p.ghost["clock"] = p.ghost.get("clock", 0) + 1
    return p.ghost["clock"]


class VCall:
    def __init__(self, schema, bound, t):
        self.schema, self.bound, self.t = schema, bound, t
        self.ret = None
        self.raised = None

    @property
    def obj(self):
        return self.bound["check_obj"]


class SchemaVal:
    """a schema object: `validate(check_obj, head, tail, sample, random_state, lazy, inplace)` returns an arbitrary
    (parsed) object or raises SchemaError / SchemaErrors / another exception; no effect on pandera state.
    Equality between two distinct schema objects is an arbitrary (but fixed) truth value."""

    __pyvc_symbolic__ = True
    extra_attrs = ("validate", "name", "coerce", "index", "columns")
    EXC = (SchemaError, SchemaErrors, OtherException)

    def __init__(self, name, cls=DataFrameSchema, coerce=False):
        self.vname = name
        self.cls = cls
        self.calls = []
        self._eq = {}
        self.name = SAny(name=f"{name}.name")
        self.coerce = coerce
        self.index = None
        self.columns = {}

    def pyvc_class(self):
        return self.cls

    def __hash__(self):
        return id(self)

    def __eq__(self, o):
        if o is self:
            return True
        if isinstance(o, SchemaVal):
            key = frozenset((id(self), id(o)))
            reg = cur().ghost.setdefault("schema_eq", {})
            if key not in reg:
                reg[key] = core.sym_bool(f"({self.vname}=={o.vname})")
            return reg[key]
        return False

    def __ne__(self, o):
        r = self.__eq__(o)
        return (~r) if isinstance(r, SBool) else (not r)

    def validate(self, *args, **kwargs):
        p = cur()
        I = p.ghost["interp"]
        try:
            ba = VALIDATE_SIG.bind(self, *args, **kwargs)
        except TypeError as e:
            raise PyExc(I.make_exc(TypeError, *e.args))
        ba.apply_defaults()
        bound = dict(ba.arguments)
        bound.pop("self")
        rec = VCall(self, bound, tick())
        allc = p.ghost.setdefault("validate_calls", [])
        idx = len(allc)
        allc.append(rec)
        self.calls.append(rec)
        k = p.choose([("ret", None)] + [(c.__name__, None) for c in self.EXC], f"{self.vname}.validate#{idx}")
        if k > 0:
            exc = I.make_exc(self.EXC[k - 1])
            exc.attrs["__from_validate__"] = idx
            rec.raised = exc
            raise PyExc(exc)
        rec.ret = SAny(name=f"{self.vname}.validated#{idx}")
        return rec.ret


def validate_calls():
    return cur().ghost.get("validate_calls", [])


def fresh_options():
    """the decorator's validation options, all symbolic: head/tail/sample/random_state are arbitrary opaque values
    (the decorators only forward them; an opaque value is never the default None), lazy/inplace arbitrary bools"""
    return dict(head=T.fresh_value(T.Any, "head"), tail=T.fresh_value(T.Any, "tail"),
                sample=T.fresh_value(T.Any, "sample"), random_state=T.fresh_value(T.Any, "random_state"),
                lazy=T.fresh_value(T.Bool, "lazy"), inplace=T.fresh_value(T.Bool, "inplace"))


def same(a, b):
    """a and b are the same value (identity for opaque/None, equality for scalars)"""
    if a is b:
        return True
    if a is None or b is None:
        return False
    if isinstance(a, (tuple, list)) or isinstance(b, (tuple, list)):
        return type(a) is type(b) and len(a) == len(b) and And(*[same(x, y) for x, y in zip(a, b)])
    if isinstance(a, dict) or isinstance(b, dict):
        return isinstance(a, dict) and isinstance(b, dict) and set(a) == set(b) and And(*[same(a[k], b[k]) for k in a])
    r = py_eq(a, b)
    return r if isinstance(r, (bool, SBool)) else False


def options_forwarded(vcall, opts):
    return And(*[same(vcall.bound[n], opts[n]) for n in OPTION_NAMES])


def label(name, value):
    """put a case-split value into the path labels (so that known findings can name it)"""
    cur().choose([(str(value), None)], name)


# ---------------------------------------------------------------------------------------
# signature shapes and call shapes
# ---------------------------------------------------------------------------------------


def parse_shape(shape):
    """'m(self,a,b=_D)' -> (name, [param source strings], [param names])"""
    name, rest = shape.split("(", 1)
    is_async = name.startswith("async ")
    name = name.replace("async ", "")
    params = [s.strip() for s in rest.rstrip(")").split(",") if s.strip()]
    names = [s.split("=")[0].lstrip("*") for s in params]
    return name, params, names, is_async


def choose_call_shape(params, names, must_pass):
    """A call of the function that python binds: a positional prefix (self/cls always positional), the other
    parameters by keyword; parameters with a default may be omitted unless in `must_pass`.  Returns
    (passed: {name: 'pos'|'kw'}, order of positional names)."""
    p = cur()
    first_is_self = names[0] in ("self", "cls")
    lo = 1 if first_is_self else 0
    kwonly_from = params.index("*") if "*" in params else len(params)  # parameters after a bare `*` are keyword-only
    normal = [i for i, src in enumerate(params) if not src.startswith("*") and i < kwonly_from]
    npos = lo + p.choose([(str(i), None) for i in range(0, len(normal) - lo + 1)], "n_positional")
    passed = {}
    for i, (src, n) in enumerate(zip(params, names)):
        if src == "*":
            continue
        if src.startswith("**"):
            if p.choose([("0", None), ("1", None)], "extra_keywords") == 1:
                passed[n] = "starkw"
        elif src.startswith("*"):
            # extra positional arguments are possible only after a full positional prefix
            if npos == len(normal) and p.choose([("0", None), ("2", None)], "extra_positionals") == 1:
                passed[n] = "star"
        elif i < npos:
            passed[n] = "pos"
        elif "=" in src and n not in must_pass and p.choose([("passed", None), ("omitted", None)], f"{n}") == 1:
            continue
        else:
            passed[n] = "kw"
    return passed


class Frame:
    """the argument frame of one call: values by parameter name, and its (args, kwargs) presentation"""

    def __init__(self, names, passed):
        self.values = {n: SAny(name=f"arg_{n}") for n in passed}
        self.args = [self.values[n] for n in names if passed.get(n) == "pos"]
        self.kwargs = {n: self.values[n] for n in names if passed.get(n) == "kw"}
        for n, how in passed.items():
            if how == "star":  # python binds the extra positionals as a tuple
                self.values[n] = (SAny(name="extra_pos0"), SAny(name="extra_pos1"))
                self.args += list(self.values[n])
            elif how == "starkw":  # ... and the extra keywords as a dict
                self.values[n] = {"extra_kw": SAny(name="extra_kw")}
                self.kwargs.update(self.values[n])
        self.passed = passed


def bound_equals(bound, expected):
    """the call received exactly `expected` (same parameters, same objects)"""
    if set(bound) != set(expected):
        return False
    return And(*[same(bound[k], expected[k]) for k in expected])


# ---------------------------------------------------------------------------------------
# check_input
# ---------------------------------------------------------------------------------------

INPUT_SHAPES = ["f(a)", "f(a,b)", "f(a,b=_D)", "f(a,b,c=_D)", "m(self,a)", "m(self,a,b)", "m(self,a,b=_D)", "m(cls,a,b=_D)", "f(a,*rest)", "f(a,b=_D,**kw)",
                "f(*,a)", "f(*,a,b=_D)", "f(a,*,b=_D)"]  # keyword-only parameters (designated by default, by position number or by name)


class CheckInput(Contract):
    """check_input(schema, obj_getter, head, tail, sample, random_state, lazy, inplace)(fn)(*args, **kwargs):

    gate        : schema.validate is called exactly once, on the DESIGNATED argument, with the decorator's options;
                  the body runs iff that call returned;
    parsed      : the body receives the validated object for the designated parameter, every other parameter unchanged;
    transparent : the wrapper returns the body's result / raises the body's exception; the only other exceptions are
                  those of validate (SchemaError possibly re-raised with decorator context, cause = the original).
    Domain      : calls that python binds to the signature; the designated argument is passed positionally, by keyword, or left
                  at its default (the default is then the designated input)."""

    target = f"{DEC}:check_input"
    split = {"shape": INPUT_SHAPES}
    raises = (SchemaError, SchemaErrors, OtherException)

    def setup(self, I):
        PF.install(I)

    def make_args(self):
        p = cur()
        I = p.ghost["interp"]
        shape = self.arg("shape", None)
        label("shape", shape)
        name, params, names, _ = parse_shape(shape)
        fn = PF.make_fn(name, params)
        PF.install_fn(I, fn)
        data_names = [n for src, n in zip(params, names) if n not in ("self", "cls") and not src.startswith("*")]
        d = p.choose([(n, None) for n in data_names[:2]], "designated")
        dname = data_names[d]
        kinds = (["none"] if d == 0 else []) + ["int", "str"]
        kind = kinds[p.choose([(k, None) for k in kinds], "getter")]
        getter = {"none": None, "int": d, "str": dname}[kind]
        # the designated argument may be passed positionally, by keyword, or - when it has a default - not at all: the function then
        # receives the default, which is the designated input ("independent of how the argument is designated ... or passed"; the
        # property's quantifier lists `defaults` among the signatures)
        passed = choose_call_shape(params, names, must_pass=set())
        frame = Frame(names, passed)
        if dname not in frame.values:
            label("designated_argument", "left_at_its_default")
        return dict(fn=fn, names=names, dname=dname, getter=getter, frame=frame, schema=SchemaVal("schema"), opts=fresh_options())

    def call_target(self, I, fn, a):
        o = a["opts"]
        deco = I.call(fn, [a["schema"], a["getter"], o["head"], o["tail"], o["sample"], o["random_state"], o["lazy"], o["inplace"]], {})
        wrapper = I.call(deco, [a["fn"]], {})
        from pyvc.spec import freeze_heap

        freeze_heap(cur())  # decoration-time state is pre-existing state of every call: unchanged on every exit (no state between calls)
        return I.call(wrapper, list(a["frame"].args), dict(a["frame"].kwargs))

    # -- the specification (independent of getter kind and of call shape: the designation-equivalence lemma below)
    def _gate(self, a):
        v = validate_calls()
        frame, dname = a["frame"], a["dname"]
        out = {"validates_exactly_once": len(v) == 1}
        if len(v) >= 1:
            out["validates_the_designated_argument"] = v[0].obj is frame.values.get(dname, PF.DEFAULT)
            out["validate_receives_decorator_options"] = options_forwarded(v[0], a["opts"])
        return out

    def _body(self, a):
        v = validate_calls()
        calls = PF.fn_calls(a["fn"])
        out = {"body_runs_exactly_once": len(calls) == 1}
        if len(calls) == 1 and len(v) == 1 and v[0].ret is not None:
            expected = dict(a["frame"].values)
            expected[a["dname"]] = v[0].ret
            out["body_receives_validated_object_and_other_arguments_unchanged"] = bound_equals(calls[0].bound, expected)
        if calls:
            out["body_runs_only_after_validation_returned"] = len(v) >= 1 and all(x.ret is not None for x in v)
        return out

    def ensures(self, result, old, **a):
        out = self._gate(a)
        out.update(self._body(a))
        calls = PF.fn_calls(a["fn"])
        out["returns_the_body_result"] = len(calls) == 1 and result is calls[0].ret
        return out

    def on_raise(self, exc, old, **a):
        calls = PF.fn_calls(a["fn"])
        v = validate_calls()
        out = {}
        if exc.attrs.get("__from_fn__") is not None:
            out.update(self._gate(a))
            out.update(self._body(a))
            out["propagates_the_body_exception_itself"] = len(calls) == 1 and exc is calls[0].raised
            return out
        failed = [x for x in v if x.raised is not None]
        out["other_exceptions_come_from_validation"] = len(failed) == 1
        out["body_not_run_when_validation_fails"] = len(calls) == 0
        if failed:
            out.update(self._gate(a))
            out["validation_error_is_propagated"] = validation_error_propagated(exc, failed[0])
        return out


def validation_error_propagated(exc, vcall):
    """the escaping exception is validate's own exception, or a SchemaError with decorator context raised FROM it
    (same schema, the validated object as data, the original's failure cases / check / check_index)"""
    orig = vcall.raised
    if exc is orig:
        return True
    if not (isinstance(exc, Obj) and exc.cls is SchemaError and orig.cls is SchemaError):
        return False
    return (exc.attrs.get("__cause__") is orig and exc.attrs.get("schema") is vcall.schema and exc.attrs.get("data") is vcall.obj
            and exc.attrs.get("failure_cases") is orig.attrs.get("failure_cases") and exc.attrs.get("check") is orig.attrs.get("check")
            and exc.attrs.get("check_index") is orig.attrs.get("check_index"))


# ---------------------------------------------------------------------------------------
# check_output
# ---------------------------------------------------------------------------------------

OUTPUT_SHAPES = ["f(a)", "f(a,b=_D)", "m(self,a)", "async f(a)", "async m(self,a)"]
OUT_KINDS = {"none": ["any"], "callable": ["any"], "int": ["tuple", "list", "namedtuple"], "str": ["dict"]}
_NT = __import__("collections").namedtuple("Output", "first second")


class OutFactory:
    """the value returned by the body: an opaque object, or a 2-tuple / 2-list / dict holding the designated element"""

    def __init__(self, kind):
        self.kind = kind
        self.made = []

    def __call__(self, name):
        items = [SAny(name=f"{name}[0]"), SAny(name=f"{name}[1]")]
        if self.kind == "any":
            v = SAny(name=name)
        elif self.kind == "tuple":
            v = tuple(items)
        elif self.kind == "namedtuple":
            v = _NT(*items)  # "returns exactly what the undecorated function would": a named tuple stays one (its fields are how callers read it)
        elif self.kind == "list":
            v = ListObj(items)
        else:
            v = DictObj({"key": items[0], "other": items[1]})
        self.made.append((v, items))
        return v


def output_reassembled(result, out, items, kind, getter, validated):
    """the caller receives the output with the designated element replaced by the validated object:
    same container kind, same length / keys, every other element unchanged"""
    if kind == "any":
        return result is validated
    if kind == "namedtuple" and type(result) is not _NT:
        return False
    if kind in ("tuple", "namedtuple"):
        return isinstance(result, tuple) and len(result) == 2 and all(
            (result[i] is validated) if i == getter else (result[i] is items[i]) for i in range(2))
    if kind == "list":
        return isinstance(result, list) and not isinstance(result, tuple) and len(result) == 2 and all(
            (result[i] is validated) if i == getter else (result[i] is items[i]) for i in range(2))
    return isinstance(result, dict) and set(result) == {"key", "other"} and result["key"] is validated and result["other"] is items[1]


class CheckOutput(Contract):
    """check_output(schema, obj_getter, head, ..., inplace)(fn)(*args, **kwargs)  (sync and coroutine functions):

    transparent : the body runs exactly once, first, on exactly the caller's arguments; its exception propagates itself
                  and then nothing is validated;
    gate        : the DESIGNATED output (the output / output[int] / output[str] / obj_getter(output)) is validated
                  exactly once with the decorator's options; if validation fails its error propagates (SchemaError with
                  decorator context, cause = the original) and no result reaches the caller;
    parsed      : the caller receives the VALIDATED object: the validate result itself (obj_getter None), or the output
                  re-assembled with the validated element (int / str; a tuple stays a tuple); with a callable obj_getter
                  the output itself (documented: coercing schemas are rejected at decoration time with ValueError)."""

    target = f"{DEC}:check_output"
    split = {"shape": OUTPUT_SHAPES}
    raises = (SchemaError, SchemaErrors, OtherException)

    def setup(self, I):
        PF.install(I)

    def make_args(self):
        p = cur()
        I = p.ghost["interp"]
        shape = self.arg("shape", None)
        label("shape", shape)
        name, params, names, is_async = parse_shape(shape)
        gk = ["none", "int", "str", "callable"][p.choose([(k, None) for k in ("none", "int", "str", "callable")], "getter")]
        kinds = OUT_KINDS[gk]
        kind = kinds[p.choose([(k, None) for k in kinds], "out")]
        idx = p.choose([("0", None), ("1", None)], "index") if gk == "int" else None
        cb = None
        coerce = False
        if gk == "callable":
            cb = T.fresh_value(T.Callback(T.Any, raises=False), "obj_getter")
            coerce = T.fresh_value(T.Bool, "schema.coerce")
        getter = {"none": None, "int": idx, "str": "key", "callable": cb}[gk]
        fn = PF.make_fn(name, params, is_async=is_async)
        factory = OutFactory(kind)
        PF.install_fn(I, fn, result=factory)
        passed = choose_call_shape(params, names, must_pass=set())
        frame = Frame(names, passed)
        return dict(fn=fn, gk=gk, kind=kind, getter=getter, factory=factory, frame=frame, schema=SchemaVal("schema", coerce=coerce),
                    opts=fresh_options())

    def call_target(self, I, fn, a):
        o = a["opts"]
        deco = I.call(fn, [a["schema"], a["getter"], o["head"], o["tail"], o["sample"], o["random_state"], o["lazy"], o["inplace"]], {})
        wrapper = I.call(deco, [a["fn"]], {})
        from pyvc.spec import freeze_heap

        freeze_heap(cur())  # decoration-time state is pre-existing state of every call: unchanged on every exit (no state between calls)
        return I.call(wrapper, list(a["frame"].args), dict(a["frame"].kwargs))

    def allowed_exception(self, exc, **a):
        if exc.cls is ValueError:  # documented decoration-time rejection
            return a["gk"] == "callable"
        return super().allowed_exception(exc, **a)

    def _designated(self, a):
        (out, items), = a["factory"].made
        gk = a["gk"]
        if gk == "none":
            return out
        if gk == "int":
            return items[a["getter"]]
        if gk == "str":
            return items[0]
        calls = a["getter"].calls
        return ("getter", calls)

    def _body(self, a):
        calls = PF.fn_calls(a["fn"])
        out = {"body_runs_exactly_once": len(calls) == 1}
        if calls:
            out["body_receives_the_callers_arguments"] = bound_equals(calls[0].bound, a["frame"].values)
        return out

    def _gate(self, a):
        v = validate_calls()
        out = {"validates_exactly_once": len(v) == 1}
        if v and len(a["factory"].made) == 1:
            d = self._designated(a)
            if isinstance(d, tuple):
                cb = a["getter"]
                out["getter_applied_to_the_output"] = len(cb.calls) == 1 and cb.calls[0][0] == (a["factory"].made[0][0],) and not cb.calls[0][1]
                out["validates_the_designated_output"] = isinstance(v[0].obj, SAny) and "obj_getter#0" in str(v[0].obj.z)
            else:
                out["validates_the_designated_output"] = v[0].obj is d
            out["validate_receives_decorator_options"] = options_forwarded(v[0], a["opts"])
        return out

    def ensures(self, result, old, **a):
        out = self._body(a)
        out.update(self._gate(a))
        v = validate_calls()
        if len(a["factory"].made) == 1 and len(v) == 1 and v[0].ret is not None:
            (o, items), = a["factory"].made
            if a["gk"] == "callable":
                out["returns_the_output_itself"] = result is o
            else:
                out["caller_receives_the_validated_output"] = output_reassembled(result, o, items, a["kind"], a["getter"], v[0].ret)
        else:
            out["caller_receives_the_validated_output"] = False
        return out

    def on_raise(self, exc, old, **a):
        calls = PF.fn_calls(a["fn"])
        v = validate_calls()
        if exc.cls is ValueError and not calls and not v:
            return {"rejected_only_when_schema_coerces": py_eq(a["schema"].coerce, True)}
        out = self._body(a)
        if exc.attrs.get("__from_fn__") is not None:
            out["propagates_the_body_exception_itself"] = len(calls) == 1 and exc is calls[0].raised
            out["nothing_validated_when_body_raises"] = len(v) == 0
            return out
        failed = [x for x in v if x.raised is not None]
        out["other_exceptions_come_from_validation"] = len(failed) == 1
        if failed:
            out.update(self._gate(a))
            out["validation_error_is_propagated"] = validation_error_propagated(exc, failed[0])
        return out


# ---------------------------------------------------------------------------------------
# check_io
# ---------------------------------------------------------------------------------------

IO_SHAPES = ["f(a,b)", "m(self,a,b=_D)", "f(a,*rest)"]
IO_INPUTS = ["-", "a", "b", "a+b"]
IO_OUTS = ["none", "schema", "pair", "list2"]


class IOSchema(SchemaVal):
    EXC = (SchemaError, OtherException)  # SchemaErrors behaves like OtherException here (never caught): see CheckInput/CheckOutput


class CheckIO(Contract):
    """check_io(head, ..., inplace, out=..., **inputs)(fn)(*args, **kwargs): stacking of input and output checks.

    Every input named in `inputs` is validated exactly once BY ITS OWN schema with the decorator's options; the body
    runs iff all of them returned and receives ALL validated objects (the other arguments unchanged); every designated
    output is validated exactly once by its own schema with the options; the caller receives the output re-assembled
    with all validated elements.  `out` forms: None, a schema, one (getter, schema) pair, a list of pairs."""

    target = f"{DEC}:check_io"
    split = {"case": [f"{sh}|{ins}" for sh in IO_SHAPES for ins in IO_INPUTS if all(n in parse_shape(sh)[2] for n in ins.split("+") if n != "-")]}
    raises = (SchemaError, OtherException)

    def setup(self, I):
        PF.install(I)

    def make_args(self):
        p = cur()
        I = p.ghost["interp"]
        shape, ins = self.arg("case", None).split("|")
        label("shape", shape)
        label("inputs", ins)
        name, params, names, is_async = parse_shape(shape)
        in_names = [] if ins == "-" else ins.split("+")
        ok = IO_OUTS[p.choose([(k, None) for k in IO_OUTS], "out")]
        kind = {"none": "any", "schema": "any", "pair": "tuple", "list2": "tuple"}[ok]
        fn = PF.make_fn(name, params)
        factory = OutFactory(kind)
        PF.install_fn(I, fn, result=factory)
        in_schemas = {n: IOSchema(f"schema_{n}") for n in in_names}
        outs = {"none": [], "schema": [(None, IOSchema("out_schema"))], "pair": [(1, IOSchema("out_schema1"))],
                "list2": [(0, IOSchema("out_schema0")), (1, IOSchema("out_schema1"))]}[ok]
        out_arg = {"none": None, "schema": outs[0][1] if outs else None, "pair": outs[0] if outs else None, "list2": ListObj(outs)}[ok]
        passed = choose_call_shape(params, names, must_pass=set())  # (a designated input may be left at its default, as for check_input)
        frame = Frame(names, passed)
        return dict(fn=fn, frame=frame, in_schemas=in_schemas, outs=outs, out_arg=out_arg, factory=factory, kind=kind, opts=fresh_options())

    def call_target(self, I, fn, a):
        o = a["opts"]
        deco = I.call(fn, [o["head"], o["tail"], o["sample"], o["random_state"], o["lazy"], o["inplace"]], dict(out=a["out_arg"], **a["in_schemas"]))
        wrapper = I.call(deco, [a["fn"]], {})
        from pyvc.spec import freeze_heap

        freeze_heap(cur())  # decoration-time state is pre-existing state of every call: unchanged on every exit (no state between calls)
        return I.call(wrapper, list(a["frame"].args), dict(a["frame"].kwargs))

    def _inputs(self, a):
        out = {}
        frame = a["frame"]
        allret = True
        for n, sch in a["in_schemas"].items():
            c = sch.calls
            out["each_input_validated_at_most_once_by_its_schema"] = And(out.get("each_input_validated_at_most_once_by_its_schema", True), len(c) <= 1)
            if c:
                out["validates_the_designated_argument"] = And(out.get("validates_the_designated_argument", True), c[0].obj is frame.values.get(n, PF.DEFAULT))
                out["validate_receives_decorator_options"] = And(out.get("validate_receives_decorator_options", True), options_forwarded(c[0], a["opts"]))
            if not (len(c) == 1 and c[0].ret is not None):
                allret = False
        calls = PF.fn_calls(a["fn"])
        out["body_runs_iff_every_input_validation_returned"] = (len(calls) == 1) == allret and len(calls) <= 1
        if len(calls) == 1 and allret:
            expected = dict(frame.values)
            for n, sch in a["in_schemas"].items():
                expected[n] = sch.calls[0].ret
            out["body_receives_validated_objects_and_other_arguments_unchanged"] = bound_equals(calls[0].bound, expected)
        return out

    def _outputs(self, a, upto_failure=False):
        out = {}
        if len(a["factory"].made) != 1:
            return out
        (o, items), = a["factory"].made
        for getter, sch in a["outs"]:
            c = sch.calls
            if upto_failure and not c:
                continue
            out["each_output_validated_exactly_once_by_its_schema"] = And(out.get("each_output_validated_exactly_once_by_its_schema", True), len(c) == 1)
            if c:
                d = o if getter is None else items[getter]
                out["validates_the_designated_output"] = And(out.get("validates_the_designated_output", True), c[0].obj is d)
                out["output_validate_receives_decorator_options"] = And(out.get("output_validate_receives_decorator_options", True), options_forwarded(c[0], a["opts"]))
        return out

    def ensures(self, result, old, **a):
        out = self._inputs(a)
        out.update(self._outputs(a))
        made = a["factory"].made
        if len(made) == 1 and all(len(s.calls) == 1 and s.calls[0].ret is not None for _, s in a["outs"]):
            (o, items), = made
            if a["kind"] == "any":
                want = a["outs"][0][1].calls[0].ret if a["outs"] else o
                out["caller_receives_the_validated_output"] = result is want
            else:
                want = list(items)
                for getter, sch in a["outs"]:
                    want[getter] = sch.calls[0].ret
                out["caller_receives_the_validated_output"] = isinstance(result, tuple) and len(result) == 2 and result[0] is want[0] and result[1] is want[1]
        else:
            out["caller_receives_the_validated_output"] = False
        return out

    def on_raise(self, exc, old, **a):
        calls = PF.fn_calls(a["fn"])
        out = self._inputs(a)
        if exc.attrs.get("__from_fn__") is not None:
            out["propagates_the_body_exception_itself"] = len(calls) == 1 and exc is calls[0].raised
            out["nothing_validated_after_the_body_raised"] = all(not s.calls for _, s in a["outs"])
            return out
        failed = [x for x in validate_calls() if x.raised is not None]
        out["other_exceptions_come_from_validation"] = len(failed) == 1
        out.update(self._outputs(a, upto_failure=True))
        if failed:
            out["validation_error_is_propagated"] = validation_error_propagated(exc, failed[0])
            out["nothing_runs_after_a_failed_validation"] = failed[0].t == max(x.t for x in validate_calls()) and (
                not any(failed[0].schema is s for s in a["in_schemas"].values()) or len(calls) == 0)
        return out


def _check_io_probe(self, rec):
    def thunk():
        """the same decorated function called three times: every call is gated like the first (no state carried between calls)"""
        import warnings

        import pandas as pd
        import pandera as pa

        warnings.simplefilter("ignore")
        obs, bad = {}, False
        out_schema = pa.DataFrameSchema({"a": pa.Column(int, pa.Check.gt(0), coerce=True)})

        @pa.check_io(df=pa.DataFrameSchema({"a": pa.Column(int)}), out=(lambda r: r["frame"], out_schema))
        def negate(df):
            return {"frame": df.assign(a=-df["a"])}  # never satisfies the out schema

        outcomes = []
        for _ in range(3):
            try:
                negate(pd.DataFrame({"a": [1, 2]}))
                outcomes.append("returned an output the out schema rejects")
            except Exception as e:  # noqa: BLE001
                outcomes.append(type(e).__name__)
        obs["callable getter + coercing out schema, three calls"] = outcomes
        bad = bad or len(set(outcomes)) != 1 or outcomes[0].startswith("returned")

        @pa.check_io(df=pa.DataFrameSchema({"a": pa.Column(int, pa.Check.gt(0))}))
        def ident(df):
            return df

        seq = []
        for data in ([1, 2], [-1], [3], [-2]):
            try:
                ident(pd.DataFrame({"a": data}))
                seq.append("ran")
            except pa.errors.SchemaError:
                seq.append("rejected")
        obs["valid / invalid / valid / invalid inputs"] = seq
        bad = bad or seq != ["ran", "rejected", "ran", "rejected"]
        return bad, obs

    return thunk


CheckIO.concretize = _check_io_probe

CONTRACTS = [CheckInput, CheckOutput, CheckIO]
