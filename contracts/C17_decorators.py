"""C17 - decorators gate the call on validation and are otherwise transparent (check_input / check_output / check_io).

Oracle: the property statement and the docstrings of pandera.decorators.check_input / check_output / check_io
(``obj_getter``: int = index in the args part of the signature, str = argument name - "This works even if the
series/dataframe is passed in as a positional argument" -, None = first argument; ``head/tail/sample/random_state/
lazy/inplace``: the validation options of ``schema.validate``).

How the real code is verified: the contract target is the decorator factory itself (``check_input`` ...).  The
verifier symbolically executes the live source of the factory, of the nested ``decorator`` and of the nested
``_wrapper`` (closures are interpreted from the same source text) and then CALLS the wrapper on a symbolic argument
frame.  The decorated user function is a real python function object (so ``inspect`` runs natively on it) whose
behaviour is an S-callback (pyvc/theories/pyfunc.py); ``schema.validate`` is an S-callback too (SchemaVal below:
arbitrary result, or SchemaError / SchemaErrors / any other exception).  Signature shapes x call shapes x designations
are enumerated (case split + path decisions): each combination is a proof for ALL argument values, ALL option values
and ALL behaviours of validate and of the body; the enumeration of shapes itself is finite (listed in notes/C17.md).
"""
import inspect

import z3

from pandera.api.dataframe.components import ComponentSchema
from pandera.api.pandas.container import DataFrameSchema
from pandera.errors import SchemaError, SchemaErrors
from pyvc import core, types as T
from pyvc.core import And, Iff, Implies, Not, Or, PyExc, SAny, SBool, cur, py_eq
from pyvc.heap import DictObj, ListObj, Obj
from pyvc.interp import OtherException
from pyvc.spec import Contract, Lemma
from pyvc.theories import pyfunc as PF

DEC = "pandera.decorators"
OPTION_NAMES = ("head", "tail", "sample", "random_state", "lazy", "inplace")
VALIDATE_SIG = inspect.signature(DataFrameSchema.validate)  # (self, check_obj, head, tail, sample, random_state, lazy, inplace)


# ---------------------------------------------------------------------------------------
# assumed contract of the callee `schema.validate` (its own behaviour is the business of C03/C04/C06/C20)
# ---------------------------------------------------------------------------------------


def tick():
    p = cur()
    p.ghost["clock"] = p.ghost.get("clock", 0) + 1
    return p.ghost["clock"]


class VCall:
    def __init__(self, schema, bound, t):
        self.schema, self.bound, self.t = schema, bound, t
        self.ret = None
        self.raised = None

    @property
    def obj(self):
        return self.bound["check_obj"]


class SchemaVal:
    """a schema object: `validate(check_obj, head, tail, sample, random_state, lazy, inplace)` returns an arbitrary
    (parsed) object or raises SchemaError / SchemaErrors / another exception; no effect on pandera state.
    Equality between two distinct schema objects is an arbitrary (but fixed) truth value."""

    __pyvc_symbolic__ = True
    extra_attrs = ("validate", "name", "coerce", "index", "columns")
    EXC = (SchemaError, SchemaErrors, OtherException)

    def __init__(self, name, cls=DataFrameSchema, coerce=False):
        self.vname = name
        self.cls = cls
        self.calls = []
        self._eq = {}
        self.name = SAny(name=f"{name}.name")
        self.coerce = coerce
        self.index = None
        self.columns = {}

    def pyvc_class(self):
        return self.cls

    def __hash__(self):
        return id(self)

    def __eq__(self, o):
        if o is self:
            return True
        if isinstance(o, SchemaVal):
            key = frozenset((id(self), id(o)))
            reg = cur().ghost.setdefault("schema_eq", {})
            if key not in reg:
                reg[key] = core.sym_bool(f"({self.vname}=={o.vname})")
            return reg[key]
        return False

    def __ne__(self, o):
        r = self.__eq__(o)
        return (~r) if isinstance(r, SBool) else (not r)

    def validate(self, *args, **kwargs):
        p = cur()
        I = p.ghost["interp"]
        try:
            ba = VALIDATE_SIG.bind(self, *args, **kwargs)
        except TypeError as e:
            raise PyExc(I.make_exc(TypeError, *e.args))
        ba.apply_defaults()
        bound = dict(ba.arguments)
        bound.pop("self")
        rec = VCall(self, bound, tick())
        allc = p.ghost.setdefault("validate_calls", [])
        idx = len(allc)
        allc.append(rec)
        self.calls.append(rec)
        k = p.choose([("ret", None)] + [(c.__name__, None) for c in self.EXC], f"{self.vname}.validate#{idx}")
        if k > 0:
            exc = I.make_exc(self.EXC[k - 1])
            exc.attrs["__from_validate__"] = idx
            rec.raised = exc
            raise PyExc(exc)
        rec.ret = SAny(name=f"{self.vname}.validated#{idx}")
        return rec.ret


def validate_calls():
    return cur().ghost.get("validate_calls", [])


def fresh_options():
    """the decorator's validation options, all symbolic: head/tail/sample/random_state are arbitrary opaque values
    (the decorators only forward them; an opaque value is never the default None), lazy/inplace arbitrary bools"""
    return dict(head=T.fresh_value(T.Any, "head"), tail=T.fresh_value(T.Any, "tail"),
                sample=T.fresh_value(T.Any, "sample"), random_state=T.fresh_value(T.Any, "random_state"),
                lazy=T.fresh_value(T.Bool, "lazy"), inplace=T.fresh_value(T.Bool, "inplace"))


def same(a, b):
    """a and b are the same value (identity for opaque/None, equality for scalars)"""
    if a is b:
        return True
    if a is None or b is None:
        return False
    r = py_eq(a, b)
    return r if isinstance(r, (bool, SBool)) else False


def options_forwarded(vcall, opts):
    return And(*[same(vcall.bound[n], opts[n]) for n in OPTION_NAMES])


def label(name, value):
    """put a case-split value into the path labels (so that known findings can name it)"""
    cur().choose([(str(value), None)], name)


# ---------------------------------------------------------------------------------------
# signature shapes and call shapes
# ---------------------------------------------------------------------------------------


def parse_shape(shape):
    """'m(self,a,b=_D)' -> (name, [param source strings], [param names])"""
    name, rest = shape.split("(", 1)
    is_async = name.startswith("async ")
    name = name.replace("async ", "")
    params = [s.strip() for s in rest.rstrip(")").split(",") if s.strip()]
    names = [s.split("=")[0].lstrip("*") for s in params]
    return name, params, names, is_async


def choose_call_shape(params, names, must_pass):
    """A call of the function that python binds: a positional prefix (self/cls always positional), the other
    parameters by keyword; parameters with a default may be omitted unless in `must_pass`.  Returns
    (passed: {name: 'pos'|'kw'}, order of positional names)."""
    p = cur()
    first_is_self = names[0] in ("self", "cls")
    lo = 1 if first_is_self else 0
    npos = lo + p.choose([(str(i), None) for i in range(0, len(names) - lo + 1)], "n_positional")
    passed = {}
    for i, (src, n) in enumerate(zip(params, names)):
        if i < npos:
            passed[n] = "pos"
        elif "=" in src and n not in must_pass and p.choose([("passed", None), ("omitted", None)], f"{n}") == 1:
            continue
        else:
            passed[n] = "kw"
    # a positional prefix cannot skip an omitted parameter
    return passed


class Frame:
    """the argument frame of one call: values by parameter name, and its (args, kwargs) presentation"""

    def __init__(self, names, passed):
        self.values = {n: SAny(name=f"arg_{n}") for n in passed}
        self.args = [self.values[n] for n in names if passed.get(n) == "pos"]
        self.kwargs = {n: self.values[n] for n in names if passed.get(n) == "kw"}
        self.passed = passed


def bound_equals(bound, expected):
    """the call received exactly `expected` (same parameters, same objects)"""
    if set(bound) != set(expected):
        return False
    return And(*[same(bound[k], expected[k]) for k in expected])


# ---------------------------------------------------------------------------------------
# check_input
# ---------------------------------------------------------------------------------------

INPUT_SHAPES = ["f(a)", "f(a,b)", "f(a,b=_D)", "f(a,b,c=_D)", "m(self,a)", "m(self,a,b)", "m(self,a,b=_D)", "m(cls,a,b=_D)"]


class CheckInput(Contract):
    """check_input(schema, obj_getter, head, tail, sample, random_state, lazy, inplace)(fn)(*args, **kwargs):

    gate        : schema.validate is called exactly once, on the DESIGNATED argument, with the decorator's options;
                  the body runs iff that call returned;
    parsed      : the body receives the validated object for the designated parameter, every other parameter unchanged;
    transparent : the wrapper returns the body's result / raises the body's exception; the only other exceptions are
                  those of validate (SchemaError possibly re-raised with decorator context, cause = the original).
    Domain      : calls that python binds to the signature and that pass the designated argument explicitly."""

    target = f"{DEC}:check_input"
    split = {"shape": INPUT_SHAPES}
    raises = (SchemaError, SchemaErrors, OtherException)

    def setup(self, I):
        PF.install(I)

    def make_args(self):
        p = cur()
        I = p.ghost["interp"]
        shape = self.arg("shape", None)
        label("shape", shape)
        name, params, names, _ = parse_shape(shape)
        fn = PF.make_fn(name, params)
        PF.install_fn(I, fn)
        data_names = [n for n in names if n not in ("self", "cls")]
        d = p.choose([(n, None) for n in data_names[:2]], "designated")
        dname = data_names[d]
        kinds = (["none"] if d == 0 else []) + ["int", "str"]
        kind = kinds[p.choose([(k, None) for k in kinds], "getter")]
        getter = {"none": None, "int": d, "str": dname}[kind]
        passed = choose_call_shape(params, names, must_pass={dname})
        frame = Frame(names, passed)
        return dict(fn=fn, names=names, dname=dname, getter=getter, frame=frame, schema=SchemaVal("schema"), opts=fresh_options())

    def call_target(self, I, fn, a):
        o = a["opts"]
        deco = I.call(fn, [a["schema"], a["getter"], o["head"], o["tail"], o["sample"], o["random_state"], o["lazy"], o["inplace"]], {})
        wrapper = I.call(deco, [a["fn"]], {})
        return I.call(wrapper, list(a["frame"].args), dict(a["frame"].kwargs))

    # -- the specification (independent of getter kind and of call shape: the designation-equivalence lemma below)
    def _gate(self, a):
        v = validate_calls()
        frame, dname = a["frame"], a["dname"]
        out = {"validates_exactly_once": len(v) == 1}
        if len(v) >= 1:
            out["validates_the_designated_argument"] = v[0].obj is frame.values[dname]
            out["validate_receives_decorator_options"] = options_forwarded(v[0], a["opts"])
        return out

    def _body(self, a):
        v = validate_calls()
        calls = PF.fn_calls(a["fn"])
        out = {"body_runs_exactly_once": len(calls) == 1}
        if len(calls) == 1 and len(v) == 1 and v[0].ret is not None:
            expected = dict(a["frame"].values)
            expected[a["dname"]] = v[0].ret
            out["body_receives_validated_object_and_other_arguments_unchanged"] = bound_equals(calls[0].bound, expected)
        if calls:
            out["body_runs_only_after_validation_returned"] = len(v) >= 1 and all(x.ret is not None for x in v)
        return out

    def ensures(self, result, old, **a):
        out = self._gate(a)
        out.update(self._body(a))
        calls = PF.fn_calls(a["fn"])
        out["returns_the_body_result"] = len(calls) == 1 and result is calls[0].ret
        return out

    def on_raise(self, exc, old, **a):
        calls = PF.fn_calls(a["fn"])
        v = validate_calls()
        out = {}
        if exc.attrs.get("__from_fn__") is not None:
            out.update(self._gate(a))
            out.update(self._body(a))
            out["propagates_the_body_exception_itself"] = len(calls) == 1 and exc is calls[0].raised
            return out
        failed = [x for x in v if x.raised is not None]
        out["other_exceptions_come_from_validation"] = len(failed) == 1
        out["body_not_run_when_validation_fails"] = len(calls) == 0
        if failed:
            out.update(self._gate(a))
            out["validation_error_is_propagated"] = validation_error_propagated(exc, failed[0])
        return out


def validation_error_propagated(exc, vcall):
    """the escaping exception is validate's own exception, or a SchemaError with decorator context raised FROM it
    (same schema, the validated object as data, the original's failure cases / check / check_index)"""
    orig = vcall.raised
    if exc is orig:
        return True
    if not (isinstance(exc, Obj) and exc.cls is SchemaError and orig.cls is SchemaError):
        return False
    return (exc.attrs.get("__cause__") is orig and exc.attrs.get("schema") is vcall.schema and exc.attrs.get("data") is vcall.obj
            and exc.attrs.get("failure_cases") is orig.attrs.get("failure_cases") and exc.attrs.get("check") is orig.attrs.get("check")
            and exc.attrs.get("check_index") is orig.attrs.get("check_index"))


CONTRACTS = [CheckInput]
