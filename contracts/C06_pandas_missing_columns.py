"""C06 / C03 (pandas add_missing_columns): building the columns to add.

`_construct_missing_df` creates each missing column from its default (NaN for a nullable column without default) and coerces it to
the declared data type with `dtype.try_coerce`.  That coercion can fail (e.g. NaN into a non-nullable integer type): the failure
is a validation outcome and has to leave validate through the documented channel - a SchemaError with reason DATATYPE_COERCION that
carries the data type's failure cases - never as pandera's internal ParserError.

    exit.only_documented_exceptions
    exit.coercion_failure_of_an_added_column_is_a_coercion_schema_error
    post.every_added_column_is_coerced_to_its_declared_dtype      (one try_coerce per missing column, on that column of the new frame)
"""
from pandera.errors import ParserError, SchemaError, SchemaErrorReason
from pyvc import core, types as T
from pyvc.core import PyExc, SAny, cur
from pyvc.heap import DictObj, Obj
from pyvc.interp import OtherException
from pyvc.spec import Contract

DF = "pandera.backends.pandas.container:DataFrameSchemaBackend"


class MissingFrame:
    """pd.DataFrame(data={col: default}, index=obj.index): columns by name, assignable"""

    __pyvc_symbolic__ = True

    def __init__(self, names):
        self.columns = list(names)
        self.cols = {n: SAny(name=f"missing[{n}]") for n in names}

    def pyvc_getitem(self, I, k):
        return self.cols[k]

    def pyvc_setitem(self, I, k, v):
        self.cols[k] = v


class Dt:
    __pyvc_symbolic__ = True

    def __init__(self, I, tag):
        self.I, self.tag = I, tag

    def try_coerce(self, data):
        p = cur()
        p.ghost.setdefault("casts", []).append((self.tag, data))
        k = p.choose([("returns", None), ("ParserError", None)], f"{self.tag}.try_coerce")
        if k == 1:
            e = self.I.make_exc(ParserError)
            e.attrs["failure_cases"] = SAny(name="uncoercible_values")
            e.attrs["args"] = (SAny(name="message"),)
            p.ghost["parser_error"] = (self.tag, e)
            raise PyExc(e)
        return SAny(name=f"coerced[{self.tag}]")


class PandasConstructMissingDf(Contract):
    target = f"{DF}._construct_missing_df"
    raises = (SchemaError,)
    check_frame = False
    split = {"n": [1, 2]}

    def setup(self, I):
        import pandas as pd

        def dataframe(I, data=None, index=None, **kw):
            f = MissingFrame(list(data))
            cur().ghost["frame"] = f
            return f

        I.models[id(pd.DataFrame)] = dataframe

    def make_args(self):
        from pandera.backends.pandas.container import DataFrameSchemaBackend as B

        I = cur().ghost["interp"]
        cols = DictObj()
        for k in ["k0", "k1"][: self.fixed.get("n", 1)]:
            c = T.Ref(None, default=T.Any, name=T.Const(k)).fresh(f"column_{k}")
            # a column may be declared WITHOUT a data type (`Column(default=1)`): nothing to coerce the default to
            dt = Dt(I, k) if cur().choose([("declared", None), ("no_dtype", None)], f"dtype[{k}]") == 0 else None
            c.attrs["dtype"] = dt
            c.attrs0["dtype"] = dt
            dict.__setitem__(cols, k, c)
        obj = T.Ref(None, index=T.Any).fresh("obj")
        return {"self": T.Ref(B).fresh("self"), "obj": obj, "missing_cols_schema": cols}

    def call_target(self, I, fn, a):
        return I.call(fn, [a["self"], a["obj"], a["missing_cols_schema"]], {})

    def ensures(self, result, old, self_, obj, missing_cols_schema):
        casts = cur().ghost.get("casts", [])
        f = cur().ghost.get("frame")
        typed = [k for k, c in missing_cols_schema.items() if c.attrs0["dtype"] is not None]
        return {"every_added_column_is_coerced_to_its_declared_dtype": [c[0] for c in casts] == typed and result is f}

    def on_raise(self, exc, old, self_, obj, missing_cols_schema):
        if exc.cls is not SchemaError:
            return {}
        pe = cur().ghost.get("parser_error")
        return {"coercion_failure_of_an_added_column_is_a_coercion_schema_error": pe is not None and exc.attrs.get("reason_code") is SchemaErrorReason.DATATYPE_COERCION
                and exc.attrs.get("failure_cases") is pe[1].attrs["failure_cases"]}

    def concretize(self, rec):
        def thunk():
            import warnings

            import pandas as pd
            import pandera as pa

            warnings.simplefilter("ignore")
            obs, bad = {}, False
            schema = pa.DataFrameSchema({"x": pa.Column(int, nullable=True), "z": pa.Column(int)}, add_missing_columns=True)
            for lazy in (False, True):
                try:
                    schema.validate(pd.DataFrame({"z": [2]}), lazy=lazy)
                    got = "accepted"
                except (pa.errors.SchemaError, pa.errors.SchemaErrors) as e:
                    got = type(e).__name__
                except Exception as e:  # noqa: BLE001
                    got = "leaked " + type(e).__name__
                if got.startswith("leaked"):
                    bad = True
                    obs[f"add_missing_columns: nullable int column without default, lazy={lazy}"] = got
            return bad, obs or "a failing coercion of an added column is reported through SchemaError(s)"

        return thunk


CONTRACTS = [PandasConstructMissingDf]
