"""C16: BaseFieldInfo.name - the name a model field has in the data container.

Documentation (Field): "alias: The public name of the column/index".  A field's name in the schema IS its alias whenever an alias is given -
whatever its value: 0, '' and False are column labels like any other (`pd.DataFrame(ndarray)` labels its columns 0..n-1); only a field
without alias (None) goes by its attribute name.  The name keys the schema's columns, the targets of @check / @parser and the Column /
Index names on every back end: a model and the schema written by hand for it differ as soon as one field is named differently.
    post.a_given_alias_is_the_name_whatever_its_value / post.without_alias_the_attribute_name
"""
from pyvc import core, types as T
from pyvc.core import cur
from pyvc.spec import Contract


class Label:
    """a column label: any hashable - it may be falsy"""

    __pyvc_symbolic__ = True

    def __init__(self, name):
        self.name, self._truth = name, None

    def pyvc_class(self):
        return object

    def pyvc_truth(self):
        if self._truth is None:
            self._truth = core.sym_bool(f"bool({self.name})")
        return self._truth


class FieldName(Contract):
    target = "pandera.api.base.model_components:BaseFieldInfo.name"
    split = {"alias": ["given", "None"]}
    raises = ()
    check_frame = False

    def make_args(self):
        from pandera.api.base.model_components import BaseFieldInfo

        me = T.Ref(BaseFieldInfo).fresh("self")
        alias = Label("alias") if self.fixed.get("alias", "given") == "given" else None
        attr = "attribute_name"
        for a, v in (("alias", alias), ("original_name", attr)):
            me.attrs[a] = me.attrs0[a] = v
        return {"self": me}

    def call_target(self, I, fn, a):
        return I.call(fn, [a["self"]], {})

    def ensures(self, result, old, self_):
        alias = self_.attrs0["alias"]
        if alias is not None:
            return {"a_given_alias_is_the_name_whatever_its_value": result is alias}
        return {"without_alias_the_attribute_name": result == "attribute_name"}

    def concretize(self, rec):
        def thunk():
            import warnings

            import numpy as np
            import pandas as pd
            import pandera as pa
            from pandera.typing import Series

            warnings.simplefilter("ignore")

            class M(pa.DataFrameModel):
                first: Series[int] = pa.Field(alias=0, gt=0)

            obs, bad = {}, False
            cols = list(M.to_schema().columns)
            if cols != [0]:
                bad = True
                obs["columns of a model whose field has alias=0"] = f"{cols}, expected [0]"
            try:
                M.validate(pd.DataFrame(np.array([[1], [2]])))
            except Exception as e:  # noqa: BLE001
                bad = True
                obs["M.validate(pd.DataFrame(ndarray)) (column labelled 0)"] = f"raised {type(e).__name__}"
            return bad, obs or "a falsy alias names the column"

        return thunk


CONTRACTS = [FieldName]
