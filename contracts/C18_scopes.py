"""C18 structural obligations: the premise of the depth partition lemma (finite, exhaustive, decided over the live classes).

The partition `accept_SAD <=> accept_SO and accept_DO`, `accept_SO == accept(schema part)` follows from the proved wrapper rule
(ScopeWrapper_*: a SCHEMA-scoped core check is skipped iff the depth is DATA_ONLY, a DATA-scoped one iff SCHEMA_ONLY) provided that

  (1) every core check that a back end runs carries EXACTLY ONE scope - or only relays errors raised by the components' own,
      scoped, validation (every CoreCheckResult it builds wraps the caught error: run_schema_component_checks) - and
  (2) that scope is the scope pandera itself declares for the reason codes the check reports
      (VALIDATION_DEPTH_ERROR_CODE_MAP - the same map decides under which heading an error is reported and whether
      ErrorHandler keeps it in the report), so that a constraint is switched off exactly with its own class.

Both are read from the LIVE back-end classes: the `core_checks` list displays are taken from the source of the method that
runs them (AST), every entry `self.<name>` is resolved through the MRO of each concrete back-end class (this is what catches
an override that forgets to re-apply the decorator), the scope is read from the closure of the validate_scope wrapper, and
the reason codes from the `reason_code=SchemaErrorReason.<X>` keywords inside the wrapped function's own source.
"""
import ast
import inspect
import textwrap


def _backends():
    from pandera.backends.pandas import array as pa_array, components as pa_comp, container as pa_cont
    from pandera.backends.polars import components as pl_comp, container as pl_cont

    return [pa_array.ArraySchemaBackend, pa_comp.ColumnBackend, pa_comp.IndexBackend, pa_cont.DataFrameSchemaBackend,
            pl_comp.ColumnBackend, pl_cont.DataFrameSchemaBackend]


def _core_check_names(cls):
    """names X of the `self.X` entries of the `core_checks = [...]` display in the method of `cls` that runs them"""
    for meth in ("run_checks_and_handle_errors", "validate"):
        fn = getattr(cls, meth, None)
        if fn is None:
            continue
        fn = inspect.unwrap(fn)
        tree = ast.parse(textwrap.dedent(inspect.getsource(fn)))
        for node in ast.walk(tree):
            tgt = None
            if isinstance(node, ast.Assign) and len(node.targets) == 1:
                tgt, val = node.targets[0], node.value
            elif isinstance(node, ast.AnnAssign):
                tgt, val = node.target, node.value
            if isinstance(tgt, ast.Name) and tgt.id == "core_checks" and isinstance(val, ast.List):
                names = []
                for el in val.elts:
                    f = el.elts[0] if isinstance(el, ast.Tuple) else el
                    if isinstance(f, ast.Attribute) and isinstance(f.value, ast.Name) and f.value.id == "self":
                        names.append(f.attr)
                    else:
                        names.append(None)
                return meth, names
    return None, []


def _scope_of(fn):
    """(scope or None, innermost function, number of validate_scope layers)"""
    layers = 0
    scope = None
    while hasattr(fn, "__wrapped__") and fn.__closure__:
        cells = dict(zip(fn.__code__.co_freevars, fn.__closure__))
        if "scope" not in cells:
            break
        layers += 1
        scope = cells["scope"].cell_contents if scope is None else scope
        fn = fn.__wrapped__
    return scope, fn, layers


def _literal_reason_codes(fn):
    tree = ast.parse(textwrap.dedent(inspect.getsource(fn)))
    out = []
    for node in ast.walk(tree):
        if isinstance(node, ast.keyword) and node.arg == "reason_code":
            v = node.value
            if isinstance(v, ast.Attribute) and isinstance(v.value, ast.Name) and v.value.id == "SchemaErrorReason":
                out.append(v.attr)
    return out


def _relays_component_errors_only(fn):
    """every CoreCheckResult built in the body wraps an error raised by a component's own (scoped) validation: `schema_error=<caught>`"""
    tree = ast.parse(textwrap.dedent(inspect.getsource(fn)))
    built = [n for n in ast.walk(tree) if isinstance(n, ast.Call) and isinstance(n.func, ast.Name) and n.func.id == "CoreCheckResult"]
    return bool(built) and all(any(k.arg == "schema_error" for k in n.keywords) for n in built)


def core_checks_carry_exactly_one_scope():
    from pandera.errors import SchemaErrorReason
    from pandera.validation_depth import VALIDATION_DEPTH_ERROR_CODE_MAP

    out = []
    for cls in _backends():
        meth, names = _core_check_names(cls)
        cid = f"{cls.__module__}:{cls.__name__}"
        out.append({"oid": f"structural.core_checks_found/{cid}", "ok": bool(names) and None not in names,
                    "note": f"{meth}: core_checks = {names}"})
        for name in names:
            if name is None:
                continue
            fn = inspect.getattr_static(cls, name)
            owner = next(c for c in cls.__mro__ if name in c.__dict__)
            scope, inner, layers = _scope_of(fn)
            codes = _literal_reason_codes(inner)
            where = f"{cid}.{name} (defined in {owner.__module__.rsplit('.', 2)[-2]}.{owner.__module__.rsplit('.', 1)[-1]}:{owner.__name__})"
            relays_only = layers == 0 and (not codes or _relays_component_errors_only(inner))
            out.append({"oid": f"structural.core_check_has_exactly_one_scope/{cid}.{name}", "ok": layers == 1 or relays_only,
                        "note": f"{where}: validate_scope layers={layers}, scope={getattr(scope, 'name', None)}, reports {sorted(set(codes)) or 'only relayed results'}",
                        "witness": {"backend": cid, "core_check": name, "defined_in": f"{owner.__module__}:{owner.__name__}", "validate_scope_layers": layers}})
            if layers >= 1:
                wrong = sorted({c for c in codes if VALIDATION_DEPTH_ERROR_CODE_MAP[SchemaErrorReason[c]] is not scope})
                out.append({"oid": f"structural.core_check_scope_matches_its_reason_codes/{cid}.{name}", "ok": not wrong,
                            "note": f"{where}: scope={scope.name}; reason codes with another declared scope: {wrong}",
                            "witness": {"backend": cid, "core_check": name, "scope": scope.name, "mismatching_reason_codes": wrong}})
    return out


def _probe(rec):
    """native replay of a refuted scope obligation: the verdict under a restricted depth differs from the verdict of the restricted schema"""
    w = rec.get("model") or rec.get("witness") or {}
    backend, name = w.get("backend", ""), w.get("core_check", "")

    def thunk():
        import json

        import pandas as pd
        import pandera as pa
        from pandera.config import ValidationDepth, config_context

        def verdict(schema, data, depth, lazy=False):
            with config_context(validation_depth=depth):
                try:
                    schema.validate(data, lazy=lazy)
                    return "accept"
                except pa.errors.SchemaErrors as e:
                    return "reject report=" + json.dumps(e.message, default=str)[:120]
                except pa.errors.SchemaError:
                    return "reject"

        if "polars" in backend:
            import polars as pl
            import pandera.polars as pp

            if name == "check_nullable":
                # DATA-scoped check reporting a SCHEMA reason code: under DATA_ONLY the frame is rejected but the report hides why
                v = verdict(pp.DataFrameSchema({"a": pp.Column(int, nullable=False)}), pl.DataFrame({"a": [1, None]}), ValidationDepth.DATA_ONLY, lazy=True)
                return v == "reject report={}", {"polars Column(int, nullable=False) on [1, None], DATA_ONLY, lazy": v}
            return False, "no probe for " + backend + "." + name
        df = pd.DataFrame({"a": [1.0]})
        if name == "run_checks" and backend.endswith("ColumnBackend"):
            full, part = pa.DataFrameSchema({"a": pa.Column(float, pa.Check.gt(100))}), pa.DataFrameSchema({"a": pa.Column(float)})
        elif name == "run_checks":
            full, part = pa.DataFrameSchema({"a": pa.Column(float)}, checks=pa.Check(lambda d: False)), pa.DataFrameSchema({"a": pa.Column(float)})
        else:
            return False, "no probe for " + backend + "." + name
        so, ref = verdict(full, df, ValidationDepth.SCHEMA_ONLY), verdict(part, df, ValidationDepth.SCHEMA_AND_DATA)
        return so != ref, {"verdict under SCHEMA_ONLY": so, "verdict of the schema part alone": ref, "data": "a=[1.0]"}

    return thunk


core_checks_carry_exactly_one_scope.concretize = _probe

STRUCTURAL = [core_checks_carry_exactly_one_scope]
