"""C10 / C03 / C08 (polars stand-alone column): ColumnBackend.coerce_dtype coerces ITS column and names the uncoercible values.

`pandera.polars.Column(dtype, name=..., coerce=True).validate(frame)` must coerce the column it describes - as the pandas Column does
and as the polars container does for each of its columns (`PolarsData(obj, col_schema.selector)`) - and a failed coercion must be
reported as SchemaError(DATATYPE_COERCION) that carries the failure cases the data type computed (C10: "names exactly the
uncoercible values").

    post.no_coercion_requested_returns_the_argument
    post.only_the_schemas_column_is_coerced          the data type is handed the frame TOGETHER WITH the column selector
    post.strict_cast_only_without_data_validation    SCHEMA_ONLY -> dtype.coerce (lazy strict cast), otherwise dtype.try_coerce
    post.returns_what_the_data_type_returns
    exit.parser_error_becomes_a_coercion_schema_error / exit.failure_cases_are_those_of_the_data_type
"""
from pandera.api.polars.types import PolarsData
from pandera.config import ValidationDepth
from pandera.errors import ParserError, SchemaError, SchemaErrorReason
from pyvc import core, types as T
from pyvc.core import PyExc, SAny, cur
from pyvc.heap import Obj
from pyvc.interp import OtherException
from pyvc.spec import Contract
from contracts.util import fld, fld0


class DeclaredPolarsDtype:
    __pyvc_symbolic__ = True

    def __init__(self, I):
        self.I = I
        self.calls = []

    def _do(self, which, data):
        p = cur()
        self.calls.append((which, data))
        k = p.choose([("returns", None), ("ParserError", None)], which)
        if k == 1:
            e = self.I.make_exc(ParserError)
            e.attrs["failure_cases"] = SAny(name="uncoercible_values")
            e.attrs["parser_output"] = SAny(name="parser_output")
            e.attrs["args"] = (SAny(name="message"),)
            p.ghost["parser_error"] = e
            raise PyExc(e)
        r = SAny(name="coerced_frame")
        p.ghost["coerced"] = r
        return r

    def coerce(self, data):
        return self._do("coerce", data)

    def try_coerce(self, data):
        return self._do("try_coerce", data)


class PolarsColumnCoerceDtype(Contract):
    target = "pandera.backends.polars.components:ColumnBackend.coerce_dtype"
    raises = (SchemaError, AssertionError)
    check_frame = False

    def make_args(self):
        from pandera.backends.polars.components import ColumnBackend as B

        I = cur().ghost["interp"]
        k = cur().choose([("no_dtype", None), ("dtype", None)], "schema.dtype")
        dt = None if k == 0 else DeclaredPolarsDtype(I)
        schema = T.Ref(None, coerce=T.Bool, selector=T.Const("a"), name=T.Const("a")).fresh("schema")
        schema.attrs["dtype"] = dt
        schema.attrs0["dtype"] = dt
        return {"self": T.Ref(B).fresh("self"), "check_obj": SAny(name="lazyframe"), "schema": schema}

    def call_target(self, I, fn, a):
        return I.call(fn, [a["self"], a["check_obj"], a["schema"]], {})

    def _depth(self):
        ctx = cur().globals_state.get(("pandera.config", "_CONTEXT_CONFIG"))
        return fld0(ctx, "validation_depth") if ctx is not None else None

    def _call_posts(self, check_obj, schema):
        dt = schema.attrs["dtype"]
        out = {"data_type_asked_once": len(dt.calls) == 1}
        if len(dt.calls) != 1:
            return out
        which, data = dt.calls[0]
        out["only_the_schemas_column_is_coerced"] = (isinstance(data, Obj) and data.cls is PolarsData and data.attrs.get("lazyframe") is check_obj
                                                     and data.attrs.get("key") == "a")
        out["strict_cast_only_without_data_validation"] = (which == "coerce") == (self._depth() is ValidationDepth.SCHEMA_ONLY)
        return out

    def ensures(self, result, old, self_, check_obj, schema):
        dt = schema.attrs["dtype"]
        coerce = fld0(schema, "coerce")
        if dt is None or not cur().decide(coerce, "schema.coerce"):
            return {"no_coercion_requested_returns_the_argument": result is check_obj and (dt is None or dt.calls == [])}
        out = self._call_posts(check_obj, schema)
        out["returns_what_the_data_type_returns"] = result is cur().ghost.get("coerced")
        return out

    def on_raise(self, exc, old, self_, check_obj, schema):
        if exc.cls is not SchemaError:
            return {"assertion_only_without_a_schema": False}
        pe = cur().ghost.get("parser_error")
        out = self._call_posts(check_obj, schema)
        out["parser_error_becomes_a_coercion_schema_error"] = pe is not None and exc.attrs.get("reason_code") is SchemaErrorReason.DATATYPE_COERCION and exc.attrs.get("schema") is schema
        out["failure_cases_are_those_of_the_data_type"] = pe is not None and exc.attrs.get("failure_cases") is pe.attrs["failure_cases"]
        return out

    def concretize(self, rec):
        def thunk():
            import warnings

            import polars as pl
            import pandera as pa
            import pandera.polars as pp

            warnings.simplefilter("ignore")
            obs, bad = {}, False
            col = pp.Column(int, name="a", coerce=True)
            out = col.validate(pl.DataFrame({"a": ["1", "2"], "b": ["3", "4"]}))
            if out.schema["b"] != pl.String:
                bad = True
                obs["other column b (strings) after Column('a', int, coerce=True).validate"] = f"dtype {out.schema['b']}"
            try:
                col.validate(pl.DataFrame({"a": ["1", "2"], "b": ["x", "y"]}))
            except (pa.errors.SchemaError, pa.errors.SchemaErrors) as e:
                bad = True
                obs["frame whose column a is coercible and column b is not"] = "rejected: " + str(e)[:70]
            try:
                col.validate(pl.DataFrame({"a": ["1", "x"]}))
            except pa.errors.SchemaError as e:
                fc = e.failure_cases
                got = None if fc is None else (fc.to_series().to_list() if hasattr(fc, "to_series") else fc)
                if got != ["x"]:
                    bad = True
                    obs["failure cases for a=['1','x']"] = repr(got)
            return bad, obs or "only column a is coerced; failure cases name 'x'"

        return thunk


CONTRACTS = [PolarsColumnCoerceDtype]
