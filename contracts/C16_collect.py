"""C16 - collection of @check / @dataframe_check / @parser / @dataframe_parser methods along the MRO.

Functions under contract (real source): DataFrameModel._collect_check_infos, DataFrameModel._collect_parser_infos
over an ABSTRACT MRO of unknown length whose classes have namespaces of unknown length (pyvc/theories/classmodel.py).

Specification (python's attribute resolution + the property statement "any inheritance chain with overrides - validates
exactly like the object-API schema with the same ... checks"; docs of DataFrameModel inheritance: "the child class
overrides the check/parser of the same name"):

    the result lists, in MRO order, the info attached to (i, t) - entry t of the namespace of model class i - iff
        it is an info of the requested kind, and
        no model class EARLIER in the MRO (more derived) defines an info-carrying method of the same name
    i.e. for every method name the most-derived definition, and only that one.

Proof shape: both loops are cut by the invariant "state == closed form at (j, t)":
    method_names == { name(p) | p before (j, t), p carries an info }
    infos        == [ info(p) | p before (j, t), p is COLLECTED(p) ]      (COLLECTED is the specification predicate above)
so each generic iteration has to show  `the code appends info(j, t)`  <=>  COLLECTED(j, t).
"""
import z3

from pandera.api.dataframe import model as MODEL
from pandera.api.dataframe.model_components import (CHECK_KEY, DATAFRAME_CHECK_KEY, DATAFRAME_PARSER_KEY, PARSER_KEY,
                                                    CheckInfo, ParserInfo)
from pyvc import core, types as T
from pyvc.core import SAny, SBool, SNum, SStr, cur
from pyvc.spec import Contract, LoopSpec
from pyvc.theories import classmodel as CM
from pyvc.values import SymSeq

DM = "pandera.api.dataframe.model:DataFrameModel"


class Spec:
    """the vocabulary of the specification over one hierarchy + the view `bases` of its MRO (the model classes of mro[:-2],
    most derived first: bases[j] == mro[pos(j)], pos strictly increasing and onto the model classes - python's semantics of the
    filtered generator expression, stated in classmodel.MroSeq.pyvc_filter_is_model).  Entries are pairs (j, t): entry t of
    the namespace of bases[j]."""

    def __init__(self, hier, view, key, info_cls):
        self.h, self.view, self.key, self.info_cls = hier, view, key, info_cls
        self.pos, self.m, self.inv = view.filtered
        self.lo, self.hi = z3.IntVal(view.lo), (hier.n - view.hi_off).z
        self.f_has = hier.f_tagged(key)
        self.f_is = hier.f_tag_is(key, info_cls)

    def valid(self, j, t):
        return z3.And(0 <= j, j < self.m.z, 0 <= t, t < self.h.L(self.pos(j)))

    def isinfo(self, j, t):
        return z3.And(self.f_has(self.pos(j), t), self.f_is(self.pos(j), t))

    def name(self, j, t):
        return self.h.key(self.pos(j), t)

    def before(self, j1, t1, j, t):
        """(j1, t1) is an entry that the loops visit before entry (j, t): more derived class, or same class and earlier"""
        return z3.And(self.valid(j1, t1), z3.Or(j1 < j, z3.And(j1 == j, t1 < t)))

    def names_before(self, j, t, s):
        j1, t1 = z3.Ints("j_ t_")
        return z3.Exists([j1, t1], z3.And(self.before(j1, t1, j, t), self.isinfo(j1, t1), self.name(j1, t1) == s))

    def collected(self, j, t):
        """THE SPECIFICATION: info-carrying, and no more-derived (or earlier) info-carrying definition of the same name"""
        return z3.And(self.valid(j, t), self.isinfo(j, t), z3.Not(self.names_before(j, t, self.name(j, t))))


class CollectedSeq(SymSeq):
    """[ info(p) for p in visit order if COLLECTED(p) and p before `bound` ] ++ appended   (closed form, not indexable)"""

    def __init__(self, spec: Spec, bound):
        super().__init__("collected", core.sym_int("n_collected"), lambda r: SAny(name="collected_info"), pre=False)
        self.spec, self.bound = spec, bound

    def same_prefix_as(self, bound2):
        """the closed forms with bounds self.bound and bound2 denote the same list"""
        i, t = z3.Ints("i_ t_")
        sp = self.spec
        return SBool(z3.ForAll([i, t], sp.before(i, t, zi(self.bound[0]), zi(self.bound[1])) == sp.before(i, t, zi(bound2[0]), zi(bound2[1]))))


def zi(x):
    return CM.zint(x)


def names_set(spec, j, t):
    return CM.SetVal(lambda s: spec.names_before(zi(j), zi(t), s), name=f"names_before({j},{t})")


def set_equals(setval, spec, j, t):
    s = z3.Const("s_", spec.h.key.range())
    return SBool(z3.ForAll([s], setval.member(s) == spec.names_before(zi(j), zi(t), s)))


class _Collect(Contract):
    target = ""
    info_cls = CheckInfo
    names_var, infos_var, info_var = "method_names", "check_infos", "check_info"
    raises = ()
    timeout_ms = 30_000

    def setup(self, I):
        CM.install(I, model_base=MODEL.DataFrameModel)

    def make_args(self):
        key = self.fixed["key"]
        core.register_model_var("key", lambda m: key)
        hier = CM.Hier("mro", min_len=3, key_sort="atom")
        cls = CM.ClassObj(hier, MODEL.DataFrameModel, "cls")
        cur().ghost["hier"] = hier
        return {"cls": cls, "key": key}

    def call_target(self, I, fn, a):
        return I.call(fn, [a["cls"], a["key"]], {})

    def _spec(self, fr):
        g = cur().ghost
        if "spec" not in g:
            view = fr.locals["bases"]
            g["spec"] = Spec(g["hier"], view, fr.locals["key"], self.info_cls)
        return g["spec"]

    @property
    def loops(self):
        NV, IV = self.names_var, self.infos_var

        def outer_havoc_names(I, fr, k, old):
            cur().ghost["j"] = k
            return names_set(self._spec(fr), k, 0)

        def outer_havoc_infos(I, fr, k, old):
            return CollectedSeq(self._spec(fr), (k, 0))

        def inner_havoc_names(I, fr, k, old):
            cur().ghost["t"] = k
            return names_set(self._spec(fr), cur().ghost["j"], k)

        def inner_havoc_infos(I, fr, k, old):
            return CollectedSeq(self._spec(fr), (cur().ghost["j"], k))

        def state_is_closed_form(fr, j, t, phase):
            sp = self._spec(fr)
            names, infos = fr.locals[NV], fr.locals[IV]
            out = {}
            if not isinstance(names, CM.SetVal):
                names = CM.SetVal()  # the literal empty set() before the first loop
            out["names_seen_are_exactly_the_info_carrying_names_visited"] = set_equals(names, sp, j, t)
            if isinstance(infos, CollectedSeq):
                out["infos_are_exactly_the_collected_ones_visited"] = infos.same_prefix_as((j, t)) if not infos.appended else False
            else:
                # the literal [] before the first loop: nothing visited yet
                i_, t_ = z3.Ints("i_ t_")
                out["infos_are_exactly_the_collected_ones_visited"] = SBool(z3.Not(z3.Exists([i_, t_], sp.before(i_, t_, zi(j), zi(t))))) if len(infos) == 0 else False
            return out

        def outer_inv(I, fr, k, phase):
            if phase == "assume":
                return {}
            return state_is_closed_form(fr, k, 0, phase)

        def inner_inv(I, fr, k, phase):
            if phase == "assume":
                return {}
            j = cur().ghost["j"]
            if phase == "init":
                return state_is_closed_form(fr, j, 0, phase)
            # keep: k == t + 1; the generic entry is (pos(j), t)
            sp = self._spec(fr)
            t = cur().ghost["t"]
            base = fr.locals["base"]
            names, infos = fr.locals[NV], fr.locals[IV]
            i_z = base.i.z
            out = {"names_seen_are_exactly_the_info_carrying_names_visited": set_equals(names, sp, j, k),
                   "generic_entry_is_entry_t_of_bases_j": i_z.eq(sp.pos(zi(j)))}
            coll = SBool(sp.collected(zi(j), zi(t)))
            if not isinstance(infos, CollectedSeq) or not infos.same_bound((j, t)):
                out["appends_iff_most_derived_definition"] = False
                return out
            if len(infos.appended) == 0:
                out["appends_iff_most_derived_definition"] = ~coll  # skipped: must not be a collected entry
            elif len(infos.appended) == 1:
                x = infos.appended[0]
                is_this_info = isinstance(x, CM.TagVal) and x.key == sp.key and x.owner.i.z.eq(i_z) and x.owner.t.z.eq(zi(t))
                out["appends_iff_most_derived_definition"] = coll if is_this_info else False
                out["appends_the_info_of_this_entry"] = is_this_info
            else:
                out["appends_iff_most_derived_definition"] = False
            return out

        return {0: LoopSpec(invariant=outer_inv, havoc={NV: outer_havoc_names, IV: outer_havoc_infos}),
                1: LoopSpec(invariant=inner_inv, havoc={NV: inner_havoc_names, IV: inner_havoc_infos})}

    def ensures(self, result, old, cls, key):
        sp = cur().ghost.get("spec")
        out = {"result_is_the_collected_list": isinstance(result, CollectedSeq) and result.appended == []}
        if not out["result_is_the_collected_list"]:
            return out
        i, j, t = z3.Ints("i_ j_ t_")
        # every entry of every class of `bases` was visited: the list is complete
        out["every_entry_is_visited"] = SBool(z3.ForAll([j, t], z3.Implies(sp.valid(j, t), sp.before(j, t, zi(result.bound[0]), zi(result.bound[1])))))
        # and `bases` is: every model class of mro[:-2] (cls itself first), nothing else, in MRO order
        h = sp.h
        out["bases_cover_the_model_classes_of_the_mro"] = SBool(z3.ForAll([i], z3.Implies(z3.And(0 <= i, i < h.n.z - 2, h.is_model(i)),
                                                                                            z3.Exists([j], z3.And(0 <= j, j < sp.m.z, sp.pos(j) == i)))))
        out["bases_are_in_mro_order"] = SBool(z3.ForAll([j, t], z3.Implies(z3.And(0 <= j, j < t, t < sp.m.z), sp.pos(j) < sp.pos(t))))
        out["api_base_classes_excluded"] = sp.view.lo == 0 and sp.view.hi_off == 2
        return out


def _same_bound(self, b):
    return all((x is y) or (isinstance(x, SNum) and isinstance(y, SNum) and x.z.eq(y.z)) or (isinstance(x, int) and isinstance(y, int) and x == y)
               or (isinstance(x, SNum) and isinstance(y, int) and z3.is_int_value(x.z) and x.z.as_long() == y) for x, y in zip(self.bound, b))


CollectedSeq.same_bound = _same_bound


class CollectCheckInfos(_Collect):
    target = f"{DM}._collect_check_infos"
    split = {"key": [CHECK_KEY, DATAFRAME_CHECK_KEY]}


class CollectParserInfos(_Collect):
    target = f"{DM}._collect_parser_infos"
    info_cls = ParserInfo
    names_var, infos_var, info_var = "method_names", "parser_infos", "parser_info"
    split = {"key": [PARSER_KEY, DATAFRAME_PARSER_KEY]}

    def concretize(self, rec):
        def thunk():
            import warnings

            import pandas as pd

            import pandera as pa

            warnings.simplefilter("ignore")

            class Parent(pa.DataFrameModel):
                a: int

                @pa.parser("a")
                def fix(cls, s):
                    return s + 1

            class Child(Parent):
                @pa.parser("a")
                def fix(cls, s):
                    return s + 100

            got = Child.validate(pd.DataFrame({"a": [1]}))["a"].tolist()
            n = len(Child._collect_parser_infos(PARSER_KEY))
            return (n != 1 or got != [101]), {"Child(fix overrides Parent.fix).validate(a=[1])": got, "expected": [101], "parser infos collected": n}

        return thunk


CONTRACTS = [CollectCheckInfos, CollectParserInfos]
