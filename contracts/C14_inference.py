"""C14 - an inferred schema accepts the data it was inferred from (statistics -> checks -> schema).

Functions under contract (pandera/schema_statistics/pandas.py, pandera/schema_inference/pandas.py):
  _get_array_type, _get_array_check_statistics, infer_series_statistics, infer_index_statistics,
  infer_dataframe_statistics, parse_check_statistics, _create_index, infer_dataframe_schema,
  infer_series_schema, infer_schema.

Oracle (from the property statement and the Check docstrings, never from the code's output):
  for an array x of pandera dtype d with null bits,
    * all-null / empty                 -> no value checks (nothing may be required of absent values)
    * d ordered (int, uint, float, datetime)
          -> the checks are exactly {greater_than_or_equal_to: lo, less_than_or_equal_to: hi} and
             ACCEPT: every non-null element satisfies both (as pandas evaluates them: A-compare below)
             TIGHT : some element meets lo with equality, some element meets hi with equality
    * d categorical                    -> exactly {isin: the categories of x}  (A-cat: every element is a category)
    * anything else (bool, string, timedelta, object, complex: no order that float() preserves) -> no value checks
    * nullable flag  ==  some element is null      (check_nullable passes iff nullable or no null - C01)
A-compare: `series >= b` / `series <= b` with a python float b is evaluated in float64 on both sides for the int /
  uint / float16-64 dtypes (numpy casts the array), in extended precision for float128 (numpy keeps longdouble),
  exactly for datetimes (no float() on that branch).  Stated; cross-checked by the bounded leg.
"""
import z3

from pandera import dtypes
from pandera.engines import numpy_engine, pandas_engine
from pyvc import core, types as T
from pyvc.core import And, Iff, Implies, Not, Or, PyExc, SAny, SBool, SNum, cur, ite, py_eq
from pyvc.heap import DictObj, ListObj, Obj
from pyvc.interp import OtherException
from pyvc.spec import Contract, Lemma, LoopSpec, resolve_target
from pyvc.theories import pandas_infer as PI
from pyvc.theories import pandas_lite as PL
from pyvc.theories.pandas_infer import ArrayVal, CompDict, InferFrame, MultiIndexVal, NaNVal, fl
from pyvc.values import SymCallable, SymDict, SymSeq
from contracts import specs

STATS = "pandera.schema_statistics.pandas"
INFER = "pandera.schema_inference.pandas"
GE, LE, ISIN = "greater_than_or_equal_to", "less_than_or_equal_to", "isin"

# --------------------------------------------------------------------------------------
# the dtype universe (live registry) and the oracle's classification of it
# --------------------------------------------------------------------------------------


def spec_kind(dt):
    """oracle: which value checks make sense for arrays of this pandera dtype (class lattice of pandera.dtypes)"""
    if isinstance(dt, dtypes.Category):
        return "category"
    if isinstance(dt, dtypes.Timestamp):
        return "datetime"
    if isinstance(dt, dtypes.Bool):
        return "other"
    if isinstance(dt, (dtypes.Int, dtypes.Float)):  # UInt is an Int
        return "numeric"
    return "other"


def compares_in_float64(dt):
    """A-compare: numpy evaluates `array OP python_float` in float64 unless the array is longdouble"""
    return not (isinstance(dt, dtypes.Float) and (getattr(dt, "bit_width", 64) or 64) > 64)


def _universe():
    """every registered numpy/pandas (non-arrow, non-python-container) dtype that has a no-argument constructor and is
    in the property's quantifier: numeric, bool, string, categorical, datetime, timedelta, object"""
    out = []
    for cls in sorted(pandas_engine.Engine.get_registered_dtypes(), key=lambda c: (c.__module__, c.__name__)):
        if cls.__name__.startswith(("Arrow", "Python", "Pydantic")) or cls.__name__ in ("Interval", "Period", "Sparse", "Decimal", "Date"):
            continue
        try:
            out.append(cls())
        except TypeError:
            continue
    return out


UNIVERSE = _universe()
# one representative per oracle class for the functions that are parametric in the dtype (they only pass it on)
REPRESENTATIVES = [pandas_engine.Engine.dtype(a) for a in ("int64", "float128", "datetime64[ns]", "category", "str", "bool", "complex128")]


def make_array(name, dt, space=None, is_index=False):
    k = spec_kind(dt)
    return ArrayVal.make(name, dt, "real" if k in ("numeric", "datetime") else "any", categorical=(k == "category"),
                         is_index=is_index, space=space, compare_f64=compares_in_float64(dt))


def fresh_array(name, universe, space=None, is_index=False):
    dt = T.OneOf(*universe).fresh(f"dtype({name})")
    return make_array(name, dt, space=space, is_index=is_index)


def seen(x, i):
    """the value pandas compares with a float bound at row i (A-compare)"""
    v = x.at(i).z
    if spec_kind(x.pdtype) == "numeric" and x.compare_f64:
        return fl(v)
    return z3.ToReal(v) if v.sort() == z3.IntSort() else v


def checks_spec(checks, x, assumed=False):
    """oracle for the `checks` statistics of array x (dict name -> SBool/bool); `assumed`: the form in which a caller
    may assume it (the arbitrary row becomes a universally quantified one)"""
    k = spec_kind(x.pdtype)
    all_null = x.isna().all()
    out = {}
    if checks is None:
        # no checks: required when there is no value or no order/categories, never allowed otherwise (tightness)
        out["no_checks_only_without_values_or_order"] = Or(all_null, k == "other")
        return out
    out["checks_only_for_existing_values"] = Not(all_null)
    if not isinstance(checks, dict):
        out["checks_is_a_mapping"] = False
        return out
    if k in ("numeric", "datetime"):
        out["ordered_dtype_gets_exactly_min_and_max_bounds"] = list(checks.keys()) == [GE, LE] or set(checks.keys()) == {GE, LE}
        if set(checks.keys()) != {GE, LE}:
            return out
        lo, hi = checks[GE], checks[LE]
        if not isinstance(lo, SNum) or not isinstance(hi, SNum):
            out["bounds_are_numbers"] = False
            return out
        i = z3.Int(cur().fresh_name("row"))
        core.register_model_var("row", i)
        live = z3.And(x.sel(i), z3.Not(x.null(i)))
        close = (lambda b: z3.ForAll([i], b)) if assumed else (lambda b: b)
        out["every_element_satisfies_lower_bound"] = SBool(close(z3.Implies(live, seen(x, i) >= lo.z)))
        out["every_element_satisfies_upper_bound"] = SBool(close(z3.Implies(live, seen(x, i) <= hi.z)))
        j = z3.Int(cur().fresh_name("j"))
        out["lower_bound_is_attained"] = SBool(z3.Exists([j], z3.And(x.sel(j), z3.Not(x.null(j)), seen(x, j) == lo.z)))
        out["upper_bound_is_attained"] = SBool(z3.Exists([j], z3.And(x.sel(j), z3.Not(x.null(j)), seen(x, j) == hi.z)))
    elif k == "category":
        out["categorical_gets_exactly_isin_categories"] = list(checks.keys()) == [ISIN] and checks[ISIN] is x.cat_values
    else:
        out["unordered_dtype_gets_no_value_checks"] = False
    return out


def checks_spec_value(x):
    """a value that satisfies checks_spec (used where a callee's contract is applied): None or a fresh dict"""
    p = cur()
    k = spec_kind(x.pdtype)
    if k == "other" or p.decide(x.isna().all(), "array is all-null"):
        return None
    if k == "category":
        return DictObj({ISIN: x.cat_values})
    d = DictObj({GE: core.sym_real("lo"), LE: core.sym_real("hi")})
    for name, g in checks_spec(d, x, assumed=True).items():
        p.assume(g)
    return d


def component_stats_spec(got, x, with_name=True):
    """oracle for one statistics record {dtype, nullable, checks, name}"""
    if not isinstance(got, dict):
        return {"record_is_a_mapping": False}
    want_keys = {"dtype", "nullable", "checks"} | ({"name"} if with_name else set())
    out = {"record_has_the_documented_keys": set(got.keys()) == want_keys}
    if not out["record_has_the_documented_keys"]:
        return out
    out["dtype_is_the_array_type"] = got["dtype"] is x.pdtype
    out["nullable_iff_some_null"] = Iff(got["nullable"], x.exists(lambda i: x.null(i))) if isinstance(got["nullable"], (bool, SBool)) else False
    if with_name:
        out["name_is_kept"] = got["name"] is x.name
    out.update(checks_spec(got["checks"], x))
    return out


def component_stats_value(x, with_name=True):
    d = DictObj({"dtype": x.pdtype, "nullable": x.exists(lambda i: x.null(i)), "checks": checks_spec_value(x)})
    if with_name:
        d["name"] = x.name
    return d


# --------------------------------------------------------------------------------------
# _get_array_type  (dtype inference proper: decided by exhaustive execution over the documented result alphabet of
#                   pd.api.types.infer_dtype and the concrete dtypes of the quantifier; value-level meaning: bounded leg)
# --------------------------------------------------------------------------------------

# pandas documents the result alphabet of infer_dtype; the property's quantifier covers the aliases below
# (numeric, bool, string, datetime, timedelta, categorical, mixed with None/NaN, empty).  Out of the quantifier:
# bytes, decimal, complex(object), time, period, interval, mixed-integer, unknown-array.
INFER_DTYPE_ALPHABET = ["string", "floating", "integer", "mixed-integer-float", "boolean", "datetime64", "datetime", "date",
                        "timedelta64", "timedelta", "categorical", "mixed", "empty"]
CONCRETE_PANDAS_DTYPES = ["object", "int8", "int64", "uint64", "float16", "float32", "float64", "bool", "complex128", "datetime64[ns]",
                          "timedelta64[ns]", "category", "string", "Int64", "UInt8", "Float64", "boolean"]


class _OpaqueArray:
    """an array of which only `.dtype` matters (the values are consumed by pd.api.types.infer_dtype alone)"""

    __pyvc_symbolic__ = True

    def __init__(self, dtype):
        self.dtype = dtype


class GetArrayType(Contract):
    """never raises and returns a pandera DataType, for every array dtype of the quantifier and - for object arrays -
    every result pd.api.types.infer_dtype can give on such data.  Engine.dtype runs natively (concrete arguments; its
    own coherence is C09)."""

    target = f"{STATS}:_get_array_type"
    params = dict(x=None)
    check_frame = False

    def setup(self, I):
        PI.install(I)
        import pandas as pd

        def infer_dtype(I_, value, skipna=True):
            p = cur()
            p.ghost["infer_dtype_skipna"] = skipna
            return T.OneOf(*INFER_DTYPE_ALPHABET).fresh("infer_dtype(x)")

        I.models[id(pd.api.types.infer_dtype)] = infer_dtype
        install_native_engine_dtype(I)

    def make_args(self):
        import pandas as pd

        alias = T.OneOf(*CONCRETE_PANDAS_DTYPES).fresh("x.dtype")
        return {"x": _OpaqueArray(pd.api.types.pandas_dtype(alias))}

    def call_target(self, I, fn, a):
        return I.call(fn, [a["x"]], {})

    def ensures(self, result, old, x):
        return {"returns_a_pandera_datatype": isinstance(result, dtypes.DataType),
                "nulls_are_not_skipped_when_inferring": cur().ghost.get("infer_dtype_skipna", False) is False}

    # ---- modular use: callers get "the pandera dtype that describes x" (its value-level adequacy is the bounded leg)
    def apply(self, I, args, kwargs):
        (x,) = args
        cur().ghost.setdefault("get_array_type_calls", []).append(x)
        return x.pdtype


def install_native_engine_dtype(I):
    """pandas_engine.Engine.dtype with concrete arguments: the real function is executed (not modelled)"""
    f = pandas_engine.Engine.__dict__.get("dtype")
    f = getattr(f, "__func__", f)
    real = pandas_engine.Engine.dtype

    def model(I_, cls, x):
        from pyvc.interp import is_concrete

        if not is_concrete(x):
            raise core.Unsupported("Engine.dtype of a symbolic value")
        try:
            return real(x)
        except TypeError as e:
            raise PyExc(I_.make_exc(TypeError, *e.args))

    I.models[id(f)] = model
    I.models[id(real)] = lambda I_, x: model(I_, pandas_engine.Engine, x)


# --------------------------------------------------------------------------------------
# _get_array_check_statistics
# --------------------------------------------------------------------------------------


class GetArrayCheckStatistics(Contract):
    target = f"{STATS}:_get_array_check_statistics"
    params = dict(x=None, data_type=None)
    universe = UNIVERSE

    def setup(self, I):
        PI.install(I)

    def make_args(self):
        k = cur().choose([("Series", None), ("Index", None)], "kind(x)")
        x = fresh_array("x", self.universe, is_index=(k == 1))
        return {"x": x, "data_type": x.pdtype}

    def call_target(self, I, fn, a):
        return I.call(fn, [a["x"], a["data_type"]], {})

    def ensures(self, result, old, x, data_type):
        return checks_spec(result, x)

    def apply(self, I, args, kwargs):
        x, dt = args
        p = cur()
        p.check(dt is x.pdtype, f"{I.target_qualname}/pre@{self.name()}.data_type_is_the_array_type")
        return checks_spec_value(x)


# --------------------------------------------------------------------------------------
# infer_series_statistics / infer_index_statistics / infer_dataframe_statistics
# --------------------------------------------------------------------------------------

LOWER = ("GetArrayType", "GetArrayCheckStatistics")


class InferSeriesStatistics(Contract):
    target = f"{STATS}:infer_series_statistics"
    params = dict(series=None)
    use_contracts = LOWER

    def setup(self, I):
        PI.install(I)

    def make_args(self):
        return {"series": fresh_array("series", REPRESENTATIVES)}

    def ensures(self, result, old, series):
        return component_stats_spec(result, series)

    def apply(self, I, args, kwargs):
        return component_stats_value(args[0])


def force(thunk, name):
    """evaluate a lazily computed part of a result inside a postcondition; an exception there is a refutation"""
    try:
        return thunk(), {}
    except PyExc as e:
        return None, {name: False}


def index_stats_spec(result, index):
    import pandas as pd

    if isinstance(index, Obj):  # not an Index at all
        warns = [e for e in cur().events if e[0] == "warn"]
        return {"unrecognised_index_gives_none_and_warns": result is None and len(warns) == 1 and warns[0][1] is UserWarning}
    if result is None:
        return {"an_index_always_has_statistics": False}
    if isinstance(index, MultiIndexVal):
        out = {"one_record_per_level": isinstance(result, SymSeq) and not result.appended and bool(z3.is_true(z3.simplify(core.as_z3_bool(py_eq(result.slen(), index.nlevels)))))}
        if not out["one_record_per_level"]:
            return out
        k = core.sym_int("level")
        core.register_model_var("level", k.z)
        cur().assume(And(k >= 0, k < index.nlevels))
        rec, bad = force(lambda: result.at(k), "level_record_is_computed_without_error")
        if bad:
            out.update(bad)
            return out
        out.update(component_stats_spec(rec, index.level(k)))
        return out
    out = {"one_record_for_a_flat_index": isinstance(result, list) and len(result) == 1}
    if out["one_record_for_a_flat_index"]:
        out.update(component_stats_spec(result[0], index))
    return out


def fresh_index(name, universe, space=None, kinds=("Index", "MultiIndex")):
    k = cur().choose([(n, None) for n in kinds], f"kind({name})")
    kind = kinds[k]
    if kind == "Index":
        return fresh_array(name, universe, space=space, is_index=True)
    if kind == "RangeIndex":
        # the default row index of every frame that was not given one (and of its slices: any step)
        step = [1, 2, 3, -1, -2][cur().choose([(str(s_), None) for s_ in (1, 2, 3, -1, -2)], f"step({name})")]
        return PI.RangeIndexVal.make_range(name, pandas_engine.Engine.dtype("int64"), step, space=space)
    if kind == "MultiIndex":
        if space is None:
            n = core.sym_int(f"len({name})")
            cur().assume(n >= 0)
            space = PL.RowSpace(name, n)
        return MultiIndexVal(name, space, lambda nm, sp: fresh_array(nm, universe, space=sp, is_index=True))
    return T.Ref(object).fresh(name)


class InferIndexStatistics(Contract):
    target = f"{STATS}:infer_index_statistics"
    params = dict(index=None)
    use_contracts = LOWER

    def setup(self, I):
        PI.install(I)

    def make_args(self):
        return {"index": fresh_index("index", REPRESENTATIVES, kinds=("Index", "RangeIndex", "MultiIndex", "not-an-index"))}

    def ensures(self, result, old, index):
        return index_stats_spec(result, index)

    def apply(self, I, args, kwargs):
        (index,) = args
        if isinstance(index, MultiIndexVal):
            return SymSeq("index_statistics", index.nlevels, lambda k: component_stats_value(index.level(k)), pre=False)
        return ListObj([component_stats_value(index)])

    def concretize(self, rec):
        m = rec.get("model") or {}

        def thunk():
            """the verifier's counterexample (a RangeIndex given by start / stop / step) and a few strided slices, on the real function:
            the bounds are the smallest and the largest label, and the inferred schema accepts its own frame"""
            import warnings

            import pandas as pd
            import pandera as pa
            from pandera.schema_statistics.pandas import infer_index_statistics

            warnings.simplefilter("ignore")
            cands = []
            try:
                cands.append(pd.RangeIndex(int(m["index.start"]), int(m["index.stop"]), int(m["index.step"])))
            except (KeyError, ValueError, TypeError):
                pass
            cands += [pd.RangeIndex(0, 9, 2), pd.RangeIndex(1, 9, 3), pd.RangeIndex(0, -3, -2), pd.RangeIndex(5)]
            obs, bad = {}, False
            for ix in cands:
                if len(ix) == 0:
                    continue
                st = infer_index_statistics(ix)[0]["checks"]
                got = (st["greater_than_or_equal_to"], st["less_than_or_equal_to"])
                want = (float(min(ix)), float(max(ix)))
                df = pd.DataFrame({"a": range(len(ix))}, index=ix)
                try:
                    pa.infer_schema(df).validate(df)
                    own = "accepted"
                except (pa.errors.SchemaError, pa.errors.SchemaErrors) as e:
                    own = "REJECTED by its own inferred schema"
                if got != want or own != "accepted":
                    bad = True
                    obs[repr(ix)] = {"inferred bounds": got, "labels min / max": want, "infer_schema(D).validate(D)": own}
            return bad, obs or "bounds are the extreme labels for every probed RangeIndex"

        return thunk


def frame_stats_spec(result, df):
    if not isinstance(result, dict) or set(result.keys()) != {"columns", "index"}:
        return {"result_has_columns_and_index": False}
    cols = result["columns"]
    ncols = df.columns.slen()
    out = {}
    if cols is None:
        out["columns_statistics_missing_only_for_a_frame_without_columns"] = py_eq(ncols, 0)
    else:
        out["one_record_per_column_in_order"] = isinstance(cols, SymDict) and bool(z3.is_true(z3.simplify(core.as_z3_bool(py_eq(cols.keys_seq.slen(), ncols)))))
        if out["one_record_per_column_in_order"]:
            j = core.sym_int("col")
            core.register_model_var("col", j.z)
            cur().assume(And(j >= 0, j < ncols))
            key, bad = force(lambda: cols.keys_seq.at(j), "column_key_is_computed_without_error")
            if not bad:
                out["keyed_by_the_column_label"] = key is df.columns.at(j)
                rec, bad = force(lambda: cols.value_for(key), "column_record_is_computed_without_error")
            if bad:
                out.update(bad)
                return out
            if out["keyed_by_the_column_label"]:
                out.update({"column." + k: v for k, v in component_stats_spec(rec, df.col(key), with_name=False).items()})
    out.update({"index." + k: v for k, v in index_stats_spec(result["index"], df.index).items()})
    return out


REP_NAMES = [str(d) for d in REPRESENTATIVES]


def fresh_frame(name="df", universe=REPRESENTATIVES, fixed=None):
    """`fixed` (case split): {"column_dtype": str(dtype), "index_kind": "Index"|"MultiIndex"} restricts the generic column's
    dtype / the index kind to one alternative per verification job; the union of the jobs is the full space"""
    fixed = fixed or {}
    col_universe = [d for d in universe if str(d) == fixed["column_dtype"]] if "column_dtype" in fixed else universe
    kinds = (fixed["index_kind"],) if "index_kind" in fixed else ("Index", "MultiIndex")
    for k, v in fixed.items():
        core.register_model_var(k, lambda m, v=v: repr(v))
    return InferFrame(name, lambda nm, sp: fresh_array(nm, col_universe, space=sp),
                      lambda nm, sp: fresh_index(nm, universe, space=sp, kinds=kinds))


class InferDataFrameStatistics(Contract):
    target = f"{STATS}:infer_dataframe_statistics"
    params = dict(df=None)
    use_contracts = LOWER + ("InferIndexStatistics",)
    max_paths = 20000
    split = {"column_dtype": REP_NAMES, "index_kind": ["Index", "MultiIndex"]}

    def setup(self, I):
        PI.install(I)

    def make_args(self):
        return {"df": fresh_frame(fixed=self.fixed)}

    def ensures(self, result, old, df):
        return frame_stats_spec(result, df)

    def apply(self, I, args, kwargs):
        (df,) = args
        p = cur()
        ncols = df.columns.slen()
        # the contract leaves open whether a frame without columns gets None or an empty mapping (the documented
        # result type is Dict[str, Any]; neither the docstring nor the property fixes it)
        if p.decide(py_eq(ncols, 0), "frame has no columns"):
            cols = None if p.choose([("None", None), ("empty-mapping", None)], "columns statistics of a frame without columns") == 0 else DictObj()
        else:
            cols = CompDict("column_statistics", ncols, lambda i: df.columns.at(i), lambda i: component_stats_value(df.col(df.columns.at(i)), with_name=False))
        idx = InferIndexStatistics().apply(I, [df.index], {})
        r = DictObj({"columns": cols, "index": idx})
        p.ghost["frame_stats"] = r
        return r



# --------------------------------------------------------------------------------------
# parse_check_statistics: statistics -> Check constructor calls
# --------------------------------------------------------------------------------------


class Made(Obj):
    """the value returned by a constructor that is kept abstract (Check.<name>, Column, Index, ...): remembers which
    call made it"""


def ctor(name, raises=False):
    """an abstract constructor: records every call; the k-th call returns a fresh object `made[k]`"""

    def mk(nm):
        cb = SymCallable(name, None, raises)
        made = []

        def result(n2):
            o = Made(None, f"{name}()#{len(made)}", pre=False)
            o.made_by = (cb, len(cb.calls) - 1)
            made.append(o)
            return o

        cb.result = T.Lazy(result)
        cb.made = made
        cur().ghost.setdefault("ctors", {})[name] = cb
        return cb

    return T.Lazy(mk)


def ctor_call(o):
    """(constructor name, args, kwargs) of the call that made `o`"""
    if not isinstance(o, Made):
        return None
    cb, k = o.made_by
    a, kw = cb.calls[k]
    return cb.name, a, kw


class ParsedChecks:
    """result of parse_check_statistics where its contract is applied: the checks denoted by `source`"""

    __pyvc_symbolic__ = True

    def __init__(self, source):
        self.source = source


OPTIONS = {"ignore_na": False, "raise_warning": True}


class ParseCheckStatistics(Contract):
    """one check per statistic, in order, made by the constructor of that name with the statistic as its argument
    (keyword arguments when the statistic is a mapping of argument names, minus its `options`, which are set as
    attributes of the check); no statistics -> None.  Only an exception of a constructor escapes."""

    target = f"{STATS}:parse_check_statistics"
    params = dict(check_stats=None)
    raises = (TypeError, OtherException)
    callback_raises = [TypeError, OtherException]
    sym_globals = {f"{STATS}:Check": T.Ref(None, strict=True, **{n: ctor(n, raises=True) for n in (GE, LE, ISIN)})}
    # isin-list-of-n: the statistic is a python LIST (what infer_*_statistics writes for the categories of a categorical, what the YAML /
    # JSON readers hand over): it is ONE argument - the allowed values - however many elements it has (a single category included)
    CASES = ["none", "empty", "bounds", "isin", "isin-list-of-1", "isin-list-of-2", "keyword-form", "keyword-form+options", "options-only"]
    check_frame = False

    def setup(self, I):
        PI.install(I)

    def make_args(self):
        case = T.OneOf(*self.CASES).fresh("shape(check_stats)")
        cur().ghost["case"] = case
        v = lambda n: T.fresh_value(T.Any, n)
        stats = {"none": None, "empty": DictObj(),
                 "bounds": DictObj({GE: core.sym_real("lo"), LE: core.sym_real("hi")}),
                 "isin": DictObj({ISIN: PI.CatValues(lambda x: core.sym_bool("mem"), "categories")}),
                 "isin-list-of-1": DictObj({ISIN: ListObj([v("category0")])}),
                 "isin-list-of-2": DictObj({ISIN: ListObj([v("category0"), v("category1")])}),
                 "keyword-form": DictObj({GE: DictObj({"min_value": v("lo")}), LE: DictObj({"max_value": v("hi")})}),
                 "keyword-form+options": DictObj({LE: DictObj({"max_value": v("hi"), "options": DictObj(OPTIONS)})}),
                 "options-only": DictObj({GE: DictObj({"options": DictObj(OPTIONS)})})}[case]
        # what the caller passed, before the function may have changed it
        cur().ghost["given"] = None if stats is None else [(k, dict(x) if isinstance(x, dict) else x) for k, x in stats.items()]
        return {"check_stats": stats}

    def _successful_calls(self):
        """constructor calls that returned, in program order: (name, args, kwargs, made object)"""
        ev = cur().events
        out = []
        counters = {}
        raised = {(e[1], e[2]) for e in ev if e[0] == "callback_raised"}
        ctors = cur().ghost.get("ctors", {})
        for e in ev:
            if e[0] != "callback":
                continue
            name, idx = e[1], e[2]
            if (name, idx) in raised:
                continue
            cb = ctors[name]
            k = counters.get(name, 0)
            counters[name] = k + 1
            out.append((name, cb.calls[idx][0], cb.calls[idx][1], cb.made[k]))
        return out

    def ensures(self, result, old, check_stats):
        given = cur().ghost["given"]
        calls = self._successful_calls()
        if not given:
            return {"no_statistics_no_checks": result is None and calls == []}
        out = {"one_check_per_statistic_in_order": isinstance(result, list) and len(result) == len(given) and len(calls) == len(given)
               and all(r is c[3] for r, c in zip(result, calls))}
        if not out["one_check_per_statistic_in_order"]:
            return out
        for k, ((name, stat), (cname, a, kw, made)) in enumerate(zip(given, calls)):
            out[f"check_{k}_made_by_the_constructor_of_that_name"] = cname == name
            if isinstance(stat, dict):
                kwargs = {x: y for x, y in stat.items() if x != "options"}
                keyword_call = a == () and set(kw) == set(kwargs) and all(kw[x] is kwargs[x] for x in kwargs)
                # documented fallback: a constructor that does not take the mapping as keywords gets it as its argument
                unary_fallback = len(a) == 1 and kw == {} and isinstance(a[0], dict) and any(e[0] == "callback_raised" and e[3] == "TypeError" for e in cur().events)
                out[f"check_{k}_gets_the_statistic_as_keywords"] = keyword_call or unary_fallback
                if keyword_call:
                    opts = stat.get("options", {})
                    out[f"check_{k}_options_are_applied"] = all(made.attrs.get(o) is v or made.attrs.get(o) == v for o, v in opts.items()) and \
                        set(made.attrs) - {"args"} == set(opts)
            else:
                out[f"check_{k}_gets_the_statistic_as_its_argument"] = len(a) == 1 and a[0] is stat and kw == {}
        return out

    def on_raise(self, exc, old, check_stats):
        return {"only_a_constructor_error_escapes": exc.attrs.get("__from_callback__") is not None}

    def concretize(self, rec):
        def thunk():
            """a categorical with ONE category (and with two): the inferred schema accepts the data it was inferred from"""
            import warnings

            import pandas as pd
            import pandera as pa

            warnings.simplefilter("ignore")
            obs, bad = {}, False
            for name, data in (("one category 'active'", pd.Categorical(["active", "active"])), ("one integer category 5", pd.Categorical([5, 5])),
                               ("two categories", pd.Categorical(["ab", "cd"]))):
                df = pd.DataFrame({"c": data})
                try:
                    pa.infer_schema(df).validate(df)
                except Exception as e:  # noqa: BLE001
                    bad = True
                    obs[f"infer_schema(D).validate(D), D.c categorical with {name}"] = f"raised {type(e).__name__}: {e}"[:200]
            return bad, obs or "list-valued statistics are one argument of their check"

        return thunk

    def apply(self, I, args, kwargs):
        (stats,) = args
        r = None if stats is None else ParsedChecks(stats)
        cur().ghost.setdefault("parse_calls", []).append((stats, r))
        return r


def parsed_from(value, stats):
    """`value` is what parse_check_statistics gives for `stats` (by its contract)"""
    if stats is None:
        return value is None
    return isinstance(value, ParsedChecks) and value.source is stats


# --------------------------------------------------------------------------------------
# schema construction: _create_index, infer_dataframe_schema, infer_series_schema, infer_schema
# (the schema classes are abstract constructors: A-ctor - they accept these arguments and store them; what a schema
#  built from them accepts is lemma AcceptsItsData below, on top of C01's check semantics)
# --------------------------------------------------------------------------------------

SCHEMA_GLOBALS = {f"{INFER}:{n}": ctor(n) for n in ("Column", "Index", "MultiIndex", "DataFrameSchema", "SeriesSchema")}


def component_ctor_spec(made, cname, rec, with_name, prefix=""):
    """`made` was built by constructor `cname` from statistics record `rec`: dtype positionally (or dtype=), checks =
    parse_check_statistics(rec.checks), nullable = rec.nullable, [name = rec.name], nothing else"""
    call = ctor_call(made)
    if call is None or call[0] != cname:
        return {prefix + "built_by_the_component_constructor": False}
    _, a, kw = call
    dtype = a[0] if len(a) == 1 else kw.get("dtype") if len(a) == 0 else None
    want_kw = {"checks", "nullable"} | ({"name"} if with_name else set()) | ({"dtype"} if len(a) == 0 else set())
    out = {prefix + "built_by_the_component_constructor": True,
           prefix + "gets_exactly_the_documented_arguments": len(a) <= 1 and set(kw) - {"coerce"} == want_kw,
           prefix + "dtype_is_the_inferred_dtype": dtype is rec["dtype"]}
    if not out[prefix + "gets_exactly_the_documented_arguments"]:
        return out
    out[prefix + "checks_are_the_parsed_statistics"] = parsed_from(kw["checks"], rec["checks"])
    out[prefix + "nullable_is_the_inferred_flag"] = kw["nullable"] is rec["nullable"]
    if with_name:
        out[prefix + "name_is_the_inferred_name"] = kw["name"] is rec["name"]
    return out


def opaque_record(name):
    return DictObj({k: T.fresh_value(T.Opt(T.Any) if k == "checks" else T.Any, f"{name}.{k}") for k in ("dtype", "checks", "nullable", "name")})


class CreatedIndex:
    __pyvc_symbolic__ = True

    def __init__(self, source):
        self.source = source


class CreateIndex(Contract):
    target = f"{INFER}:_create_index"
    params = dict(index_statistics=None)
    sym_globals = SCHEMA_GLOBALS
    use_contracts = ("ParseCheckStatistics",)

    def setup(self, I):
        PI.install(I)

    def make_args(self):
        k = cur().choose([("one-level", None), ("n-levels", None)], "shape(index_statistics)")
        if k == 0:
            return {"index_statistics": ListObj([opaque_record("level[0]")])}
        n = core.sym_int("n_levels")
        cur().assume(n >= 1)
        core.register_model_var("n_levels", n.z)
        return {"index_statistics": SymSeq("index_statistics", n, lambda i: opaque_record(f"level[{getattr(i, 'z', i)}]"))}

    def ensures(self, result, old, index_statistics):
        return created_index_spec(result, index_statistics)

    def apply(self, I, args, kwargs):
        (st,) = args
        cur().check(st is not None, f"{I.target_qualname}/pre@{self.name()}.index_statistics_present")
        return CreatedIndex(st)


def created_index_spec(result, stats):
    n = stats.slen() if isinstance(stats, SymSeq) else len(stats)
    single = py_eq(n, 1)
    if cur().decide(single, "exactly one level"):
        rec = stats.at(0) if isinstance(stats, SymSeq) else stats[0]
        return component_ctor_spec(result, "Index", rec, True, "single_level.")
    call = ctor_call(result)
    out = {"several_levels_give_a_multiindex": call is not None and call[0] == "MultiIndex"}
    if not out["several_levels_give_a_multiindex"]:
        return out
    _, a, kw = call
    levels = a[0] if len(a) == 1 and not kw else kw.get("indexes") if not a and set(kw) == {"indexes"} else None
    out["multiindex_gets_the_levels_only"] = levels is not None
    if levels is None:
        return out
    if isinstance(levels, SymSeq):
        out["one_component_per_level"] = not levels.appended and bool(z3.is_true(z3.simplify(core.as_z3_bool(py_eq(levels.slen(), n)))))
        k = core.sym_int("level")
        core.register_model_var("level", k.z)
        cur().assume(And(k >= 0, k < n))
        comp, bad = force(lambda: levels.at(k), "level_component_is_built_without_error")
        if bad:
            out.update(bad)
            return out
        out.update(component_ctor_spec(comp, "Index", stats.at(k), True, "level."))
    else:
        out["one_component_per_level"] = isinstance(levels, list) and len(levels) == n
        if out["one_component_per_level"]:
            for k, comp in enumerate(levels):
                out.update(component_ctor_spec(comp, "Index", stats[k], True, f"level{k}."))
    return out


class InferDataFrameSchema(Contract):
    target = f"{INFER}:infer_dataframe_schema"
    params = dict(df=None)
    sym_globals = SCHEMA_GLOBALS
    use_contracts = ("InferDataFrameStatistics", "ParseCheckStatistics", "CreateIndex")

    def setup(self, I):
        PI.install(I)

    def make_args(self):
        return {"df": fresh_frame()}

    def ensures(self, result, old, df):
        p = cur()
        call = ctor_call(result)
        ctors = p.ghost.get("ctors", {})
        out = {"returns_the_one_dataframe_schema_it_builds": call is not None and call[0] == "DataFrameSchema" and len(ctors["DataFrameSchema"].calls) == 1}
        if not out["returns_the_one_dataframe_schema_it_builds"]:
            return out
        _, a, kw = call
        out["schema_gets_columns_index_and_coerce"] = a == () and set(kw) == {"columns", "index", "coerce"}
        if not out["schema_gets_columns_index_and_coerce"]:
            return out
        stats = p.ghost["frame_stats"]
        out["coerce_is_on"] = kw["coerce"] is True
        out["index_is_created_from_the_index_statistics"] = isinstance(kw["index"], CreatedIndex) and kw["index"].source is stats["index"]
        cols = kw["columns"]
        ncols = df.columns.slen()
        if isinstance(cols, SymDict):
            out["one_column_schema_per_column"] = bool(z3.is_true(z3.simplify(core.as_z3_bool(py_eq(cols.keys_seq.slen(), ncols)))))
            j = core.sym_int("col")
            core.register_model_var("col", j.z)
            p.assume(And(j >= 0, j < ncols))
            key, bad = force(lambda: cols.keys_seq.at(j), "column_key_is_computed_without_error")
            if not bad:
                out["keyed_by_the_column_label"] = key is df.columns.at(j)
                comp, bad = force(lambda: cols.value_for(key), "column_schema_is_built_without_error")
            if bad:
                out.update(bad)
                return out
            if out["keyed_by_the_column_label"]:
                out.update(component_ctor_spec(comp, "Column", stats["columns"].value_for(key), False, "column."))
        else:
            out["one_column_schema_per_column"] = And(isinstance(cols, dict) and len(cols) == 0, py_eq(ncols, 0))
        return out

    def apply(self, I, args, kwargs):
        return SAny(name="dataframe_schema")


class InferSeriesSchema(Contract):
    target = f"{INFER}:infer_series_schema"
    params = dict(series=None)
    sym_globals = SCHEMA_GLOBALS
    use_contracts = ("InferSeriesStatistics", "ParseCheckStatistics")

    def setup(self, I):
        PI.install(I)
        # remember the statistics record the applied contract hands out
        reg = {c.__name__: c for c in CONTRACTS}
        orig = reg["InferSeriesStatistics"].apply

        def apply(self_, I_, args, kwargs):
            r = orig(self_, I_, args, kwargs)
            cur().ghost["series_stats"] = r
            return r

        I.contracts[id(resolve_target(InferSeriesStatistics.target))] = type("InferSeriesStatisticsRec", (InferSeriesStatistics,), {"apply": apply, "name": lambda s: "InferSeriesStatistics"})()

    def make_args(self):
        return {"series": fresh_array("series", REPRESENTATIVES[:1])}

    def ensures(self, result, old, series):
        call = ctor_call(result)
        out = {"returns_the_one_series_schema_it_builds": call is not None and call[0] == "SeriesSchema" and len(cur().ghost["ctors"]["SeriesSchema"].calls) == 1}
        if not out["returns_the_one_series_schema_it_builds"]:
            return out
        rec = cur().ghost["series_stats"]
        out.update(component_ctor_spec(result, "SeriesSchema", rec, True, "series."))
        out["coerce_is_on"] = call[2].get("coerce") is True
        return out

    def apply(self, I, args, kwargs):
        return SAny(name="series_schema")


class InferSchema(Contract):
    """DataFrame -> infer_dataframe_schema(obj), Series -> infer_series_schema(obj), anything else -> TypeError"""

    target = f"{INFER}:infer_schema"
    params = dict(pandas_obj=None)
    raises = (TypeError,)
    use_contracts = ("InferDataFrameSchema", "InferSeriesSchema")

    def setup(self, I):
        PI.install(I)
        for cname in ("InferDataFrameSchema", "InferSeriesSchema"):
            cls = {c.__name__: c for c in CONTRACTS}[cname]

            def apply(self_, I_, args, kwargs, cname=cname):
                r = SAny(name=cname)
                cur().ghost.setdefault("dispatched", []).append((cname, args[0], r))
                return r

            I.contracts[id(resolve_target(cls.target))] = type(cname + "Rec", (cls,), {"apply": apply, "name": lambda s, cname=cname: cname})()

    def make_args(self):
        k = cur().choose([(n, None) for n in ("DataFrame", "Series", "Index", "other")], "type(pandas_obj)")
        core.register_model_var("type(pandas_obj)", lambda m, k=k: ("DataFrame", "Series", "Index", "other")[k])
        cur().ghost["objkind"] = k
        if k == 0:
            return {"pandas_obj": fresh_frame(universe=REPRESENTATIVES[:1])}
        if k in (1, 2):
            return {"pandas_obj": fresh_array("obj", REPRESENTATIVES[:1], is_index=(k == 2))}
        return {"pandas_obj": T.Ref(object).fresh("obj")}

    def ensures(self, result, old, pandas_obj):
        k = cur().ghost["objkind"]
        d = cur().ghost.get("dispatched", [])
        want = {0: "InferDataFrameSchema", 1: "InferSeriesSchema"}.get(k)
        return {"dispatches_on_the_object_kind": want is not None and len(d) == 1 and d[0][0] == want and d[0][1] is pandas_obj and result is d[0][2]}

    def on_raise(self, exc, old, pandas_obj):
        return {"type_error_only_for_other_objects": exc.cls is TypeError and cur().ghost["objkind"] in (2, 3) and not cur().ghost.get("dispatched")}


CONTRACTS = [GetArrayType, GetArrayCheckStatistics, InferSeriesStatistics, InferIndexStatistics, InferDataFrameStatistics,
             ParseCheckStatistics, CreateIndex, InferDataFrameSchema, InferSeriesSchema, InferSchema]

