"""C07 - process-wide mutable state: who writes it.

Data-race freedom is argued function by function with the strict frame (no write to shared objects).  A module-level memo / cache /
"last value seen" slot is shared by construction, and the functions that read it (helpers such as get_lazyframe_schema) are theory
models in most contracts - a new writer would be invisible there.  So the inventory itself is an obligation, exhaustive over every
module under pandera/:

structural.module_level_state_writers/inventory_is_the_documented_one
    the set of (module, function, written module-level name) - `global` statements, item / attribute assignments, augmented
    assignments, deletions and mutating method calls (append, extend, update, setdefault, pop, clear, add, insert, remove, discard,
    popitem) whose receiver is a module-level name of the same module - is exactly the documented list below: the model caches
    (written once per class with a complete value, C07 ToSchemaPublishesFinishedObjects / C16 ToSchema), and the context configuration
    (config_context / reset_config_context: the known findings of C07 and C18).
structural.module_level_state_writers/memoised_functions_are_the_documented_ones
    the functions wrapped in functools.lru_cache / functools.cache (a process-wide memo keyed by argument equality) are exactly the
    documented ones: type tables and run-once registrations, none on a path that depends on schemas, checks or data.
(Class-level registries - BACKEND_REGISTRY, CHECK_FUNCTION_REGISTRY, the engines' dispatch tables - are written through `cls.`
attributes by the registration functions that C07_registration / C09 put under contract.)
"""
import ast
import glob
import os

from contracts.C13_stateless import MUTATORS, _root_name

DOCUMENTED = {
    ("pandera.api.dataframe.model", "__class_getitem__", "GENERIC_SCHEMA_CACHE"): "parametrised model classes, one complete class object per key",
    ("pandera.api.dataframe.model", "to_schema", "MODEL_CACHE"): "compiled schema per model class (C16 ToSchema/post.schema_is_cached_for_this_class_only)",
    ("pandera.api.pyspark.model", "__class_getitem__", "GENERIC_SCHEMA_CACHE"): "pyspark twin",
    ("pandera.api.pyspark.model", "to_schema", "MODEL_CACHE"): "pyspark twin",
    ("pandera.config", "config_context", "_CONTEXT_CONFIG"): "the context configuration (C18 ConfigContext; its thread-safety is a known finding of C07)",
    ("pandera.config", "reset_config_context", "_CONTEXT_CONFIG"): "documented reset",
}


# functions memoised with functools.lru_cache: keyed by hashable, immutable arguments (a check-class name / nothing at all), they build
# tables of TYPES or run a registration once (C07_registration puts the registration functions themselves under contract)
DOCUMENTED_MEMOS = {
    ("pandera._patch_numpy2", "_patch_numpy2"), ("pandera.api.pandas.types", "get_backend_types"), ("pandera.api.pyspark.types", "supported_types"),
    ("pandera.backends.pandas.register", "register_pandas_backends"), ("pandera.backends.polars.register", "register_polars_backends"),
    ("pandera.backends.pyspark.register", "register_pyspark_backends"), ("pandera.typing", "get_dataframe_types"), ("pandera.typing", "get_series_types"),
    ("pandera.typing", "get_index_types"),
}


def module_level_state_writers():
    repo = os.environ.get("PANDERA_REPO", "/repo")
    found, memo = {}, []
    nfun = 0
    for p in sorted(glob.glob(os.path.join(repo, "pandera", "**", "*.py"), recursive=True)):
        try:
            tree = ast.parse(open(p).read())
        except SyntaxError:
            continue
        mod = os.path.relpath(p, repo)[:-3].replace(os.sep, ".")
        if mod.endswith(".__init__"):
            mod = mod[: -len(".__init__")]
        module_names = set()
        for n in tree.body:
            if isinstance(n, ast.Assign):
                module_names |= {t.id for t in n.targets if isinstance(t, ast.Name)}
            elif isinstance(n, ast.AnnAssign) and isinstance(n.target, ast.Name):
                module_names.add(n.target.id)
        for fn in ast.walk(tree):
            if not isinstance(fn, (ast.FunctionDef, ast.AsyncFunctionDef)):
                continue
            nfun += 1
            for d in fn.decorator_list:
                txt = ast.unparse(d)
                head = txt.split("(")[0]
                if head.endswith("lru_cache") or head.endswith(".cache") or head == "cache":
                    memo.append({"module": mod, "function": fn.name, "decorator": txt, "line": d.lineno})
            local = {a.arg for a in fn.args.args + fn.args.kwonlyargs + fn.args.posonlyargs}
            gl = set()
            for n in ast.walk(fn):
                if isinstance(n, ast.Assign):
                    local |= {t.id for t in n.targets if isinstance(t, ast.Name)}
                if isinstance(n, ast.Global):
                    gl |= set(n.names)
            local -= gl
            for n in ast.walk(fn):
                names = []
                if isinstance(n, ast.Global):
                    names = list(n.names)
                elif isinstance(n, (ast.Assign, ast.AugAssign, ast.AnnAssign, ast.Delete)):
                    targets = n.targets if isinstance(n, (ast.Assign, ast.Delete)) else [n.target]
                    for t in targets:
                        if isinstance(t, (ast.Subscript, ast.Attribute)):
                            r = _root_name(t)
                            if r in module_names and r not in local:
                                names.append(r)
                        elif isinstance(t, ast.Name) and t.id in gl:
                            names.append(t.id)
                elif isinstance(n, ast.Call) and isinstance(n.func, ast.Attribute) and n.func.attr in MUTATORS:
                    r = _root_name(n.func.value)
                    if r in module_names and r not in local:
                        names.append(r)
                for nm in names:
                    found.setdefault((mod, fn.name, nm), getattr(n, "lineno", 0))
    undocumented = [{"module": m, "function": f, "state": s, "line": ln} for (m, f, s), ln in sorted(found.items()) if (m, f, s) not in DOCUMENTED]
    gone = [list(k) for k in DOCUMENTED if k not in found]
    return [
        {"oid": "structural.module_level_state_writers/inventory_is_the_documented_one", "ok": not undocumented,
         "note": f"{nfun} functions of pandera scanned; writers of module-level state: {len(found)} (documented: {len(DOCUMENTED)}; documented but no longer present: {len(gone)})",
         "witness": {"undocumented_writers": undocumented[:8]}},
        {"oid": "structural.module_level_state_writers/memoised_functions_are_the_documented_ones", "ok": not [m for m in memo if (m["module"], m["function"]) not in DOCUMENTED_MEMOS],
         "note": f"memoising decorators found: {len(memo)} (documented: {len(DOCUMENTED_MEMOS)})", "witness": {"undocumented": [m for m in memo if (m["module"], m["function"]) not in DOCUMENTED_MEMOS][:8]}},
    ]


# interpreter-wide switches: state that lives OUTSIDE pandera but is shared by every thread of the process.  `warnings.catch_warnings`
# swaps the process-wide `warnings.filters` list (not thread-local before Python 3.14's opt-in context-aware warnings): a filter
# installed around one thread's step silences - or, restored out of order, keeps silencing - another thread's SchemaWarning.
SWITCHES = {
    "warnings": {"catch_warnings", "simplefilter", "filterwarnings", "resetwarnings"},
    "os": {"putenv", "unsetenv", "chdir", "umask"},
    "sys": {"setrecursionlimit", "setswitchinterval", "settrace", "setprofile"},
    "locale": {"setlocale"},
    "np": {"seterr", "errstate", "seterrcall", "set_printoptions"}, "numpy": {"seterr", "errstate", "seterrcall", "set_printoptions"},
    "pd": {"set_option", "option_context", "reset_option"}, "pandas": {"set_option", "option_context", "reset_option"},
    "ps": {"set_option", "option_context", "reset_option"},
    "random": {"seed"}, "decimal": {"setcontext"}, "pl": {"Config"},
}
DOCUMENTED_SWITCHES = {
    # Schema.example(): a convenience of the data-synthesis API (C13), never on a validation path
    ("pandera.api.pandas.array", "example", "warnings.catch_warnings"), ("pandera.api.pandas.array", "example", "warnings.simplefilter"),
    ("pandera.api.pandas.components", "example", "warnings.catch_warnings"), ("pandera.api.pandas.components", "example", "warnings.simplefilter"),
    ("pandera.api.pandas.container", "example", "warnings.catch_warnings"), ("pandera.api.pandas.container", "example", "warnings.simplefilter"),
    # pyspark.pandas only (not among the back ends of C07): its option context is needed to combine frames
    ("pandera.backends.pandas.container", "check_column_values_are_unique", "ps.option_context"),
    ("pandera.backends.pandas.array", "check_unique", "ps.option_context"),
}


def interpreter_wide_switches():
    repo = os.environ.get("PANDERA_REPO", "/repo")
    found = {}
    nfun = 0
    for p in sorted(glob.glob(os.path.join(repo, "pandera", "**", "*.py"), recursive=True)):
        try:
            tree = ast.parse(open(p).read())
        except SyntaxError:
            continue
        mod = os.path.relpath(p, repo)[:-3].replace(os.sep, ".")
        if mod.endswith(".__init__"):
            mod = mod[: -len(".__init__")]
        if mod.startswith("pandera.strategies") or mod == "pandera.external_config":
            continue  # data synthesis (C13) / import-time environment set-up and restore, before any validation can run
        # names bound by `from warnings import catch_warnings` etc.
        direct = {}
        for n in ast.walk(tree):
            if isinstance(n, ast.ImportFrom) and n.module in SWITCHES:
                for a in n.names:
                    if a.name in SWITCHES[n.module]:
                        direct[a.asname or a.name] = f"{n.module}.{a.name}"
        for fn in ast.walk(tree):
            if not isinstance(fn, (ast.FunctionDef, ast.AsyncFunctionDef)):
                continue
            nfun += 1
            for n in ast.walk(fn):
                if not isinstance(n, ast.Call):
                    continue
                f = n.func
                what = None
                if isinstance(f, ast.Attribute) and isinstance(f.value, ast.Name) and f.attr in SWITCHES.get(f.value.id, ()):
                    what = f"{f.value.id}.{f.attr}"
                elif isinstance(f, ast.Name) and f.id in direct:
                    what = direct[f.id]
                elif isinstance(f, ast.Attribute) and f.attr in ("__setitem__", "setdefault", "update", "pop") and ast.unparse(f.value) == "os.environ":
                    what = "os.environ"
                if what:
                    found.setdefault((mod, fn.name, what), n.lineno)
            for n in ast.walk(fn):
                if isinstance(n, (ast.Assign, ast.Delete)):
                    for t in n.targets:
                        if isinstance(t, ast.Subscript) and ast.unparse(t.value) == "os.environ":
                            found.setdefault((mod, fn.name, "os.environ"), n.lineno)
    undocumented = [{"module": m, "function": f, "switch": s, "line": ln} for (m, f, s), ln in sorted(found.items()) if (m, f, s) not in DOCUMENTED_SWITCHES]
    return [{"oid": "structural.interpreter_wide_switches/only_the_documented_functions_flip_them", "ok": not undocumented,
             "note": f"{nfun} functions scanned for warnings filters / os.environ / numpy, pandas, polars option switches / seeds: {len(found)} uses "
                     f"(documented: {len(DOCUMENTED_SWITCHES)}: Schema.example and the pyspark.pandas option context)",
             "witness": {"undocumented": undocumented[:8]}}]


STRUCTURAL = [module_level_state_writers, interpreter_wide_switches]
