"""C09 - native parametrised types: `from_parametrized_dtype` converters forward every parameter.

`Engine.dtype(native)` for a parametrised native type (pd.DatetimeTZDtype("ms", "UTC"), pa.timestamp("us", "UTC"), pl.Datetime("ns"),
DecimalType(20, 5), ...) dispatches to the `from_parametrized_dtype` classmethod of the registered pandera class.  For the
resolved type to be EQUAL to the equivalent spelling `Class(param=value, ...)` (and for its printed name to resolve back), the
converter has to hand every parameter of the native type to the constructor instead of letting it default.

Oracle (independent of the converter body): the parameters of the pandera class's own constructor that the native type exposes as an
attribute of the same name (read from the live signature and a live sample instance of the annotated native type; two
documented renamings are listed in ALIAS).  Obligation, for ALL native objects (attributes are arbitrary symbolic values), on the
REAL body of each converter, with the class replaced by a recording constructor:

    post.constructs_exactly_one_instance, post.returns_that_instance
    post.forwards_<param>        the constructor receives <param>, and the value it receives is the native object's attribute
                                 (or a value derived from it after reading it) - never a constant, never another attribute;
                                 omitted only on a path where the attribute is None.
"""
import inspect
import typing

import z3

from pyvc import core, types as T
from pyvc.core import SAny, cur
from pyvc.heap import Obj
from pyvc.interp import OtherException
from pyvc.spec import Contract
from pyvc.values import SymCallable

# constructor parameter -> attribute of the native type (where the names differ)
ALIAS = {("pandas_engine", "Sparse", "dtype"): "subtype", ("pandas_engine", "ArrowBinary", "length"): "byte_width",
         ("polars_engine", "Array", "width"): None}  # `width`: deprecated spelling of `shape` (polars), not a parameter of its own


# constructor parameter offered by the native type through (count attribute, item accessor) as well as through the attribute itself
ACCESSORS = {("pandas_engine", "ArrowStruct", "fields"): ("num_fields", "field")}


def _samples():
    import pandas as pd
    import polars as pl
    import pyarrow as pa
    import pyspark.sql.types as pst

    return {
        pd.CategoricalDtype: pd.CategoricalDtype(["a"]), pd.StringDtype: pd.StringDtype("python"), pd.DatetimeTZDtype: pd.DatetimeTZDtype("ns", "UTC"),
        pd.PeriodDtype: pd.PeriodDtype("D"), pd.SparseDtype: pd.SparseDtype("float64"), pd.IntervalDtype: pd.IntervalDtype("int64"),
        pa.FixedSizeBinaryType: pa.binary(4), pa.Decimal128Type: pa.decimal128(10, 2), pa.DictionaryType: pa.dictionary(pa.int8(), pa.string()),
        pa.DurationType: pa.duration("s"), pa.ListType: pa.list_(pa.int8()), pa.FixedSizeListType: pa.list_(pa.int8(), 2),
        pa.MapType: pa.map_(pa.string(), pa.int8()), pa.StructType: pa.struct([("a", pa.int8())]), pa.Time32Type: pa.time32("s"),
        pa.Time64Type: pa.time64("us"), pa.TimestampType: pa.timestamp("s", "UTC"),
        pl.Array: pl.Array(pl.Int8, 2), pl.Categorical: pl.Categorical(), pl.Datetime: pl.Datetime("us", "UTC"), pl.Decimal: pl.Decimal(10, 2),
        pl.Enum: pl.Enum(["a"]), pl.List: pl.List(pl.Int8), pl.Struct: pl.Struct({"a": pl.Int8}), pl.Duration: pl.Duration("us"),
        pst.ArrayType: pst.ArrayType(pst.IntegerType()), pst.DecimalType: pst.DecimalType(10, 2), pst.MapType: pst.MapType(pst.StringType(), pst.IntegerType()),
    }


def _variants():
    """native instances that differ in each parameter (native replay of a refuted forwarding obligation)"""
    import pandas as pd
    import polars as pl
    import pyarrow as pa
    import pyspark.sql.types as pst

    return {
        pd.CategoricalDtype: [pd.CategoricalDtype(["a"]), pd.CategoricalDtype(["a", "b"], ordered=True)],
        pd.StringDtype: [pd.StringDtype("python"), pd.StringDtype("pyarrow")],
        pd.DatetimeTZDtype: [pd.DatetimeTZDtype("ns", "UTC"), pd.DatetimeTZDtype("ms", "UTC"), pd.DatetimeTZDtype("ns", "US/Eastern")],
        pd.PeriodDtype: [pd.PeriodDtype("D"), pd.PeriodDtype("M")],
        pd.SparseDtype: [pd.SparseDtype("float64"), pd.SparseDtype("int64", 1)],
        pd.IntervalDtype: [pd.IntervalDtype("int64"), pd.IntervalDtype("float64")],
        pa.FixedSizeBinaryType: [pa.binary(4), pa.binary(8)], pa.Decimal128Type: [pa.decimal128(10, 2), pa.decimal128(20, 5)],
        pa.DictionaryType: [pa.dictionary(pa.int8(), pa.string()), pa.dictionary(pa.int16(), pa.int64(), True)],
        pa.DurationType: [pa.duration("s"), pa.duration("ms")], pa.ListType: [pa.list_(pa.int8()), pa.list_(pa.string())],
        pa.FixedSizeListType: [pa.list_(pa.int8(), 2), pa.list_(pa.int8(), 3)],
        pa.MapType: [pa.map_(pa.string(), pa.int8()), pa.map_(pa.int8(), pa.string(), True)],
        pa.Time32Type: [pa.time32("s"), pa.time32("ms")], pa.Time64Type: [pa.time64("us"), pa.time64("ns")],
        pa.TimestampType: [pa.timestamp("s", "UTC"), pa.timestamp("ms", "UTC"), pa.timestamp("s", "US/Eastern")],
        pl.Array: [pl.Array(pl.Int8, 2), pl.Array(pl.Int16, 3)], pl.Datetime: [pl.Datetime("us", "UTC"), pl.Datetime("ms", "UTC"), pl.Datetime("us", "US/Eastern")],
        pl.Decimal: [pl.Decimal(10, 2), pl.Decimal(20, 5)], pl.Enum: [pl.Enum(["a"]), pl.Enum(["a", "b"])], pl.List: [pl.List(pl.Int8), pl.List(pl.String)],
        pl.Struct: [pl.Struct({"a": pl.Int8}), pl.Struct({"b": pl.String})], pl.Duration: [pl.Duration("us"), pl.Duration("ms")],
        pst.ArrayType: [pst.ArrayType(pst.IntegerType()), pst.ArrayType(pst.StringType(), False)], pst.DecimalType: [pst.DecimalType(10, 2), pst.DecimalType(20, 5)],
        pst.MapType: [pst.MapType(pst.StringType(), pst.IntegerType()), pst.MapType(pst.IntegerType(), pst.StringType(), False)],
    }


def converters():
    """[(engine module name, class, native classes, {constructor parameter: native attribute})] for every registered class with a converter"""
    from pandera.engines import pandas_engine as PE, polars_engine as PL, pyspark_engine as PS

    samples = _samples()
    out = []
    for E in (PE, PL, PS):
        eng = E.__name__.rsplit(".", 1)[-1]
        for c in sorted(E.Engine.get_registered_dtypes(), key=lambda c: c.__qualname__):
            f = c.__dict__.get("from_parametrized_dtype")
            if not isinstance(f, classmethod):
                continue
            fn = f.__func__
            hints = typing.get_type_hints(fn)
            pname = list(inspect.signature(fn).parameters)[1]
            ann = hints.get(pname)
            natives = [a for a in (typing.get_args(ann) if typing.get_origin(ann) is typing.Union else (ann,)) if a in samples]
            init = list(inspect.signature(c.__init__).parameters)[1:]
            oracle = {}
            for p in init:
                attr = ALIAS.get((eng, c.__name__, p), p)
                if attr is not None and natives and all(hasattr(samples[n], attr) for n in natives[:1]):
                    oracle[p] = attr
            out.append((eng, c, natives, oracle))
    return out


def _contract(eng, cls, natives, oracle):
    attrs = sorted(set(oracle.values()))

    class Converter(Contract):
        target = f"pandera.engines.{eng}:{cls.__qualname__}.from_parametrized_dtype"
        check_frame = False
        raises = (OtherException,)

        def setup(self, I):
            if (eng, cls.__name__) == ("pandas_engine", "ArrowBinary"):
                # precondition of the forwarding contract: the native type IS a (fixed-size) binary type; other natives: ArrowBinaryKind
                import pyarrow.types as pt

                I.models[id(pt.is_binary)] = lambda I_, t: cur().choose([("binary", None), ("fixed_size_binary", None)], "kind(native)") == 0
                I.models[id(pt.is_fixed_size_binary)] = lambda I_, t: True

        def make_args(self):
            ctor = SymCallable("cls", T.Any, raises=False)
            native = T.Ref(None, **{a: T.Any for a in attrs}).fresh("native")
            cur().ghost["ctor"] = ctor
            pname = list(inspect.signature(cls.__dict__["from_parametrized_dtype"].__func__).parameters)
            return {pname[0]: ctor, pname[1]: native}

        def call_target(self, I, fn, a):
            return I.call(fn, list(a.values()), {})

        def allowed_exception(self, exc, **a):
            return True  # what a converter raises for a malformed native object is not part of this contract

        def ensures(self, result, old, **a):
            ctor = cur().ghost["ctor"]
            native = list(a.values())[1]
            out = {"constructs_exactly_one_instance": len(ctor.calls) == 1}
            if len(ctor.calls) != 1:
                return out
            args, kwargs = ctor.calls[0]
            init = list(inspect.signature(cls.__init__).parameters)[1:]
            passed = dict(zip(init, args))
            passed.update(kwargs)
            native_vals = {id(native.attrs[x]): x for x in attrs if x in native.attrs}
            for p, attr in oracle.items():
                read = attr in native.attrs
                acc = ACCESSORS.get((eng, cls.__name__, p))
                if acc is not None and not read and p in passed:
                    # the native type offers the parameter through an indexed accessor as well: [native.<item>(i) for i in range(native.<count>)]
                    from pyvc.values import SymSeq

                    v = passed[p]
                    count = native.attrs.get(acc[0])
                    memo = cur().ghost.get("range_len_of_opaque", {})
                    n = memo.get(count.z.get_id()) if isinstance(count, core.SAny) else None
                    out[f"forwards_{p}"] = isinstance(v, SymSeq) and v.name == "comp(range)" and n is not None \
                        and bool(z3.simplify(v.slen().z == z3.If(n.z > 0, n.z, 0)) == True)  # noqa: E712
                    continue
                if p not in passed:
                    # omitted: only acceptable on a path that established the native attribute is None
                    ok = read and native.attrs[attr] is None
                else:
                    v = passed[p]
                    if id(v) in native_vals:
                        ok = native_vals[id(v)] == attr  # an attribute of the native object: it must be THIS one
                    else:
                        ok = read and isinstance(v, (core.Sym, Obj, tuple, list)) and not core_is_constant(v)
                out[f"forwards_{p}"] = ok
            return out

        def concretize(self, rec):
            def thunk():
                """the native type must survive resolution: Engine.dtype(native).type == native for natives that differ in each parameter"""
                import importlib

                import pandas as pd

                E = importlib.import_module(f"pandera.engines.{eng}").Engine
                bad, obs = False, {}
                for n in natives:
                    for v in _variants().get(n, []):
                        spelled = pd.ArrowDtype(v) if type(v).__module__.startswith("pyarrow") else v
                        try:
                            t = E.dtype(spelled)
                            got = getattr(t, "type", None)
                            got = getattr(got, "pyarrow_dtype", got)
                            if got != v:
                                bad = True
                                obs[repr(v)] = f"resolved to {t!r} whose native type is {got!r}"
                        except Exception as e:  # noqa: BLE001
                            obs[repr(v)] = f"{type(e).__name__}: {e}"
                return bad, obs or "every probed native type resolves to a type with an equal native type"

            return thunk

    Converter.__name__ = f"Converter_{eng}_{cls.__name__}"
    return Converter


def core_is_constant(v):
    if isinstance(v, (tuple, list)):
        return all(core_is_constant(x) for x in v)
    return not isinstance(v, (core.Sym, Obj))


def _all():
    out = []
    for eng, cls, natives, oracle in converters():
        if oracle:
            out.append(_contract(eng, cls, natives, oracle))
    return out


class PolarsArrayShape(Contract):
    """polars_engine.Array.from_parametrized_dtype: a polars Array type of rank r exposes `shape` = (d0, ..., d_{r-1}) and `inner` = the
    array type of the REMAINING dimensions (d1, ...) (for r = 1: the element type) - so the equal spelling is Array(inner, d0): the
    constructor must receive `inner` itself and, as shape, the OUTER dimension only (d0, (d0,), or for r = 1 the whole 1-tuple).
    polars fact assumed (checked by the native replay below): pl.Array(pl.Array(T, (d1, ..)), d0) == pl.Array(T, (d0, d1, ..))."""

    target = "pandera.engines.polars_engine:Array.from_parametrized_dtype"
    check_frame = False
    split = {"rank": [1, 2, 3]}

    def make_args(self):
        r = self.fixed.get("rank", 1)
        dims = tuple(core.sym_int(f"d{k}") for k in range(r))
        for k, d in enumerate(dims):
            cur().assume(d >= 1)
            core.register_model_var(f"d{k}", d.z)
        ctor = SymCallable("cls", T.Any, raises=False)
        native = T.Ref(None, inner=T.Any).fresh("native")
        native.attrs["shape"] = dims
        native.attrs0["shape"] = dims
        cur().ghost.update(ctor=ctor, dims=dims)
        return {"cls": ctor, "polars_dtype": native}

    def call_target(self, I, fn, a):
        return I.call(fn, [a["cls"], a["polars_dtype"]], {})

    def ensures(self, result, old, cls, polars_dtype):
        ctor, dims = cur().ghost["ctor"], cur().ghost["dims"]
        out = {"constructs_exactly_one_instance": len(ctor.calls) == 1}
        if len(ctor.calls) != 1:
            return out
        args, kw = ctor.calls[0]
        passed = dict(zip(("inner", "shape"), args))
        passed.update(kw)
        out["forwards_inner_itself"] = passed.get("inner") is polars_dtype.attrs["inner"]
        sh = passed.get("shape")
        out["no_deprecated_width"] = passed.get("width") is None
        out["shape_is_the_outer_dimension"] = sh is dims[0] or (isinstance(sh, tuple) and len(sh) == 1 and sh[0] is dims[0])
        return out

    def concretize(self, rec):
        def thunk():
            import warnings

            import polars as pl
            from pandera.engines import polars_engine as PE

            warnings.simplefilter("ignore")
            bad, obs = False, {}
            for t in (pl.Array(pl.Int8, 3), pl.Array(pl.Int8, (2, 3)), pl.Array(pl.Int8, (2, 3, 4)), pl.Array(pl.Int8, (2, 2))):
                obs[f"polars fact for {t}"] = pl.Array(t.inner, t.shape[0]) == t
                got = PE.Engine.dtype(t).type
                if got != t:
                    bad = True
                    obs[repr(t)] = f"resolved to a type boxing {got!r}"
            return bad, obs

        return thunk


class ArrowBinaryKind(Contract):
    """pandas_engine.ArrowBinary.from_parametrized_dtype is registered for `pyarrow.DataType` - the class of pa.binary(), but ALSO of
    every primitive pyarrow type (pa.int64(), pa.float64(), ...).  A spelling must resolve to a type of its own kind:
        binary / fixed-size binary native  ->  ArrowBinary(length=native.byte_width)   (the generic forwarding contract)
        any other native                    ->  never boxed as binary: resolved through the registry (as its ArrowDtype) or TypeError"""

    target = "pandera.engines.pandas_engine:ArrowBinary.from_parametrized_dtype"
    check_frame = False
    raises = (TypeError,)
    split = {"kind": ["binary", "fixed_size_binary", "other"]}

    def setup(self, I):
        import pandas as pd
        import pyarrow.types as pt
        from pandera.engines import engine as ENG
        from pyvc.theories.opaque import OpaqueVal

        kind = self.fixed.get("kind", "binary")
        I.models[id(pt.is_binary)] = lambda I_, t: kind == "binary"
        I.models[id(pt.is_fixed_size_binary)] = lambda I_, t: kind == "fixed_size_binary"
        I.models[id(pt.is_large_binary)] = lambda I_, t: False

        def wrap(I_, t, *a, **k):
            v = OpaqueVal("pd.ArrowDtype(native)")
            cur().ghost["wrapped"] = (t, v)
            return v

        I.models[id(pd.ArrowDtype)] = wrap

        def resolve(I_, cls, data_type):
            # the registry (engine.Engine.dtype): an equivalent registered for this spelling, or TypeError
            cur().ghost.setdefault("resolved", []).append(data_type)
            if cur().choose([("registered", None), ("unknown", None)], "registry") == 1:
                I_.raise_py(TypeError, "not understood")
            r = OpaqueVal("registered type")
            cur().ghost["registry_result"] = r
            return r

        f = ENG.Engine.__dict__["dtype"]
        I.models[id(getattr(f, "__func__", f))] = resolve

    def make_args(self):
        ctor = SymCallable("cls", T.Any, raises=False)
        native = T.Ref(None, byte_width=T.Any).fresh("native")
        cur().ghost["ctor"] = ctor
        return {"cls": ctor, "pyarrow_dtype": native}

    def call_target(self, I, fn, a):
        return I.call(fn, [a["cls"], a["pyarrow_dtype"]], {})

    def ensures(self, result, old, cls, pyarrow_dtype):
        g = cur().ghost
        if self.fixed.get("kind", "binary") != "other":
            return {"a_binary_type_is_boxed_as_binary": len(g["ctor"].calls) == 1}
        w = g.get("wrapped")
        return {"a_non_binary_type_is_never_boxed_as_binary": len(g["ctor"].calls) == 0,
                "what_is_returned_is_what_the_registry_holds_for_it": result is g.get("registry_result") and (w is None or w[0] is pyarrow_dtype)}

    def on_raise(self, exc, old, cls, pyarrow_dtype):
        return {"TypeError_only_for_an_unregistered_non_binary_type": self.fixed.get("kind") == "other" and len(cur().ghost["ctor"].calls) == 0}

    def concretize(self, rec):
        def thunk():
            import warnings

            import pyarrow as pa
            from pandera.engines import pandas_engine as PE

            warnings.simplefilter("ignore")
            bad, obs = False, {}
            for sp, want in ((pa.int64(), "int64[pyarrow]"), ("float64[pyarrow]", "double[pyarrow]"), (pa.date32(), "date32[day][pyarrow]"), (pa.binary(), "binary[pyarrow]"),
                             (pa.binary(4), "fixed_size_binary[4][pyarrow]")):
                try:
                    got = str(PE.Engine.dtype(sp))
                except TypeError as e:
                    got = "TypeError"
                obs[repr(sp)] = got
                bad = bad or got not in (want, "TypeError")
            return bad, obs

        return thunk


def converters_have_an_oracle():
    """structural: every registered converter is covered by a forwarding contract (a new converter without a native sample shows up here)"""
    recs = []
    for eng, cls, natives, oracle in converters():
        recs.append({"oid": f"structural.converter_under_contract/{eng}:{cls.__qualname__}", "ok": bool(natives) and bool(oracle),
                     "note": f"native types {[n.__name__ for n in natives]}; forwarded parameters {oracle}"})
    return recs


CONTRACTS = _all() + [PolarsArrayShape, ArrowBinaryKind]
STRUCTURAL = [converters_have_an_oracle]
