"""C01 / C08 (joint uniqueness): DataFrameSchema(unique=[...]) on pandas and on polars against one spec.

Documentation (DataFrameSchema `unique`): "a list of columns that should be jointly unique" (a list of lists = several such groups).
    passes  <=>  unique is not set, or in every group no two rows agree on ALL columns of the group (restricted to the columns that are
                 present in the frame: an absent column is check_column_presence's business)
    EVERY violated group is reported (one failing result each, with that group's duplicated rows): the lazy report names every offending
    cell (C02) and drop_invalid_rows removes the rows of every violated constraint - otherwise validate returns a frame that the schema
    rejects (C03 / C11).
    pandas: the reported rows are those `duplicated(subset, keep=convert_uniquesettings(report_duplicates))` marks
For all frames (all lengths, values, nulls), every report_duplicates value, the groups None / ['a'] / ['a','b'] / [['a'],['b']] / ['a','z']
/ ['z'] / [['z'],['a']] (z absent from the frame: a group none of whose columns is present constrains nothing - the absent
column is check_column_presence's business - and in particular must not make a library error escape).
"""
import z3

from pandera.backends.base import CoreCheckResult
from pandera.errors import SchemaErrorReason
from pyvc import core, types as T
from pyvc.core import And, Iff, Implies, Not, Or, SBool, cur, py_eq
from pyvc.heap import ListObj, Obj
from pyvc.spec import Contract, resolve_target
from pyvc.theories import pandas_lite as PL
from pyvc.theories import polars_lite as PP
from pyvc.theories.pandas_lite import FrameVal

GROUPS = {"none": None, "a": ["a"], "a+b": ["a", "b"], "a|b": [["a"], ["b"]], "a+absent": ["a", "z"], "absent_only": ["z"], "absent|a": [["z"], ["a"]]}
RESHAPE = "pandera.backends.pandas.error_formatters:reshape_failure_cases"


def groups_of(unique):
    if unique is None:
        return []
    return [unique] if all(isinstance(x, str) for x in unique) else unique


def no_two_rows_agree(sel, cols):
    i, j = z3.Int(cur().fresh_name("i")), z3.Int(cur().fresh_name("j"))
    same = [z3.Or(z3.And(c.null(i), c.null(j)), z3.And(z3.Not(c.null(i)), z3.Not(c.null(j)), core.as_z3_bool(py_eq(c.at(i), c.at(j))))) for c in cols]
    return SBool(z3.ForAll([i, j], z3.Implies(z3.And(sel(i), sel(j), i < j), z3.Not(z3.And(*same)) if same else z3.BoolVal(False))))


class PandasJointUniqueness(Contract):
    target = "pandera.backends.pandas.container:DataFrameSchemaBackend.check_column_values_are_unique.__wrapped__"
    split = {"unique": list(GROUPS)}
    check_frame = True

    def setup(self, I):
        PL.install(I)

        def reshape(I, failure_cases, ignore_na=True):
            cur().ghost.setdefault("reported", []).append((failure_cases, ignore_na))
            return core.SAny(name="failure_cases")

        I.models[id(resolve_target(RESHAPE))] = reshape

    def make_args(self):
        df = FrameVal.fresh("check_obj", columns=["a", "b"])
        u = GROUPS[self.fixed.get("unique", "a")]
        schema = T.Ref(None, report_duplicates=T.OneOf("exclude_first", "exclude_last", "all")).fresh("schema")
        schema.attrs["unique"] = u
        schema.attrs0["unique"] = u
        return {"self": T.Ref(None).fresh("self"), "check_obj": df, "schema": schema}

    def call_target(self, I, fn, a):
        return I.call(fn, [a["self"], a["check_obj"], a["schema"]], {})

    def ensures(self, result, old, self_, check_obj, schema):
        u = schema.attrs["unique"]
        results = as_results(result)
        out = {"is_a_result_or_a_list_of_results": results is not None}
        if results is None:
            return out
        present = [[c for c in g if c in ("a", "b")] for g in groups_of(u)]
        present = [p for p in present if p]
        unique_k = [no_two_rows_agree(check_obj.sel, [check_obj.col_fn(c) for c in p]) for p in present]
        out["verdict"] = Iff(And(*[r.attrs["passed"] for r in results]), And(*unique_k) if unique_k else True)
        failing = [r for r in results if r.attrs["passed"] is not True]
        out["reason"] = all(r.attrs["reason_code"] is SchemaErrorReason.DUPLICATES for r in failing)
        reported = cur().ghost.get("reported", [])
        # rows that repeat each other in a NULL cell are duplicates as well: the report keeps those cells (C02)
        out["duplicated_nulls_are_reported_as_well"] = all(ign is False for _, ign in reported)
        out["one_report_per_failing_result"] = len(reported) == len(failing)
        # every violated constraint is reported, and only those (a report is identified by the columns it lists)
        for p, uk in zip(present, unique_k):
            is_reported = any(getattr(fc, "projected", None) == p for fc, _ in reported)
            out["every_violated_constraint_is_reported"] = And(out.get("every_violated_constraint_is_reported", True), Iff(Not(uk), is_reported))
        return out


def as_results(result):
    """the CoreCheckResults a core check returned (one, or a list of them)"""
    rs = [result] if isinstance(result, Obj) else (list(result) if isinstance(result, (list, ListObj)) else None)
    if not rs or not all(isinstance(r, Obj) and r.cls is CoreCheckResult for r in rs):
        return None
    return rs


def _absent_group_probe(mod_name):
    """a `unique` group none of whose columns is in the frame: nothing to compare, no library error may escape"""
    import warnings

    import pandas as pd
    import polars as pl
    import pandera as pa
    import pandera.polars as pp

    warnings.simplefilter("ignore")
    mod, mk = (pa, pd.DataFrame) if mod_name == "pandas" else (pp, pl.DataFrame)
    obs, bad = {}, False
    for name, unique in (("unique=['x'] (x optional and absent)", ["x"]), ("unique=[['x'], ['z']]", [["x"], ["z"]])):
        schema = mod.DataFrameSchema({"x": mod.Column(int, required=False), "z": mod.Column(int)}, unique=unique)
        for data, want in (({"z": [1, 2, 3]}, "accept"), ({"z": [1, 1, 2]}, "accept" if unique == ["x"] else "reject")):
            try:
                schema.validate(mk(data))
                got = "accept"
            except (pa.errors.SchemaError, pa.errors.SchemaErrors):
                got = "reject"
            except Exception as e:  # noqa: BLE001
                got = "leaked " + type(e).__name__
            if got != want:
                bad = True
                obs[f"{mod_name}: {name} on {data}"] = f"{got}, expected {want}"
    return bad, obs


def _every_group_probe(mod_name):
    """two violated constraints: the lazy report names the duplicated rows of both, and drop_invalid_rows returns a frame the schema accepts"""
    import warnings

    import pandas as pd
    import polars as pl
    import pandera as pa
    import pandera.polars as pp

    warnings.simplefilter("ignore")
    mod, mk = (pa, pd.DataFrame) if mod_name == "pandas" else (pp, pl.DataFrame)
    obs, bad = {}, False
    data = {"a": [1, 1, 2, 3], "b": [5, 6, 7, 7]}
    cols = {"a": mod.Column(int), "b": mod.Column(int)}
    try:
        mod.DataFrameSchema(cols, unique=[["a"], ["b"]]).validate(mk(data), lazy=True)
        rows = "accepted"
    except pa.errors.SchemaErrors as e:
        fc = e.failure_cases if mod_name == "pandas" else e.failure_cases.to_pandas()
        rows = sorted({int(i) for i in fc["index"] if i is not None and i == i})
    if rows != [0, 1, 2, 3]:
        bad = True
        obs[f"{mod_name}: unique=[['a'],['b']] on {data}, lazy: rows named in the report"] = f"{rows}, expected [0, 1, 2, 3]"
    try:
        out = mod.DataFrameSchema(cols, unique=[["a"], ["b"]], drop_invalid_rows=True).validate(mk(data), lazy=True)
        try:
            mod.DataFrameSchema(cols, unique=[["a"], ["b"]]).validate(out)
            again = "accepted"
        except (pa.errors.SchemaError, pa.errors.SchemaErrors):
            again = "REJECTED by the same schema"
        got = f"{len(out)} rows, {again}"
    except Exception as e:  # noqa: BLE001
        got = f"raised {type(e).__name__}"
    if got != "0 rows, accepted":
        bad = True
        obs[f"{mod_name}: the same with drop_invalid_rows=True returns"] = f"{got}; expected 0 rows, accepted"
    return bad, obs


def _pandas_probe():
    b1, o1 = _absent_group_probe("pandas")
    b2, o2 = _every_group_probe("pandas")
    return b1 or b2, {**o1, **o2}


PandasJointUniqueness.concretize = lambda self, rec: _pandas_probe


class PolarsJointUniqueness(Contract):
    target = "pandera.backends.polars.container:DataFrameSchemaBackend.check_column_values_are_unique.__wrapped__"
    split = {"unique": list(GROUPS)}
    check_frame = False

    def setup(self, I):
        PL.install(I)
        PP.install(I)
        import pandera.api.polars.utils as PU
        import pandera.backends.polars.container as PC

        names = lambda I, lf: list(lf.cols)  # noqa: E731
        I.models[id(PU.get_lazyframe_column_names)] = names
        I.models[id(PC.get_lazyframe_column_names)] = names

    def make_args(self):
        lf = PP.FrameP.fresh("lf", columns=("a", "b"), kinds={"a": "real", "b": "real"})
        u = GROUPS[self.fixed.get("unique", "a")]
        schema = T.Ref(None).fresh("schema")
        schema.attrs["unique"] = u
        schema.attrs0["unique"] = u
        cur().ghost["lf"] = lf
        return {"self": T.Ref(None).fresh("self"), "check_obj": lf, "schema": schema}

    def call_target(self, I, fn, a):
        return I.call(fn, [a["self"], a["check_obj"], a["schema"]], {})

    def ensures(self, result, old, self_, check_obj, schema):
        lf = cur().ghost["lf"]
        u = schema.attrs["unique"]
        results = as_results(result)
        out = {"is_a_result_or_a_list_of_results": results is not None}
        if results is None:
            return out
        present = [[lf.cols[c] for c in g if c in lf.cols] for g in groups_of(u)]
        present = [p for p in present if p]
        unique_k = [no_two_rows_agree(lf.sel, p) for p in present]
        out["verdict"] = Iff(And(*[r.attrs["passed"] for r in results]), And(*unique_k) if unique_k else True)
        failing = [r for r in results if r.attrs["passed"] is not True]
        out["reason"] = all(r.attrs["reason_code"] is SchemaErrorReason.DUPLICATES for r in failing)
        masks = []
        for r in failing:
            # the failing result goes to the lazy report (PolarsSchemaBackend.failure_cases_metadata, which refuses a LazyFrame with
            # NotImplementedError and numbers the rows through check_output) and to drop_invalid_rows (row-aligned check_output):
            fc = r.attrs.get("failure_cases")
            out["failure_cases_are_materialised"] = And(out.get("failure_cases_are_materialised", True), isinstance(fc, PP.FrameP) and fc.kind == "DataFrame")
            # ... and numbers the i-th failure case by the i-th false entry of the row mask: they come in row order
            out["failure_cases_come_in_row_order"] = And(out.get("failure_cases_come_in_row_order", True), isinstance(fc, PP.FrameP) and getattr(fc, "rows_in_data_order", True) is True)
            co = r.attrs.get("check_output")
            ok = isinstance(co, PP.FrameP) and PP.CHECK_OUTPUT_KEY in co.cols
            out["reports_a_row_aligned_check_output"] = And(out.get("reports_a_row_aligned_check_output", True), ok)
            if ok:
                masks.append(co.cols[PP.CHECK_OUTPUT_KEY])
        if len(masks) == len(failing):
            k = z3.Int(cur().fresh_name("k"))

            def duplicated_in(p, k):
                m = z3.Int(cur().fresh_name("m"))
                same = [z3.Or(z3.And(c.null(k), c.null(m)), z3.And(z3.Not(c.null(k)), z3.Not(c.null(m)), core.as_z3_bool(py_eq(c.at(k), c.at(m))))) for c in p]
                return z3.Exists([m], z3.And(lf.sel(m), m != k, *same))

            # every violated constraint has a failing result whose mask is false exactly on ITS duplicated rows, and every failing
            # result is the mask of a violated constraint
            for p, uk in zip(present, unique_k):
                mine = [SBool(z3.ForAll([k], z3.Implies(lf.sel(k), core.as_z3_bool(mk.at(k)) == z3.Not(duplicated_in(p, k))))) for mk in masks]
                out["every_violated_constraint_is_reported_with_its_duplicated_rows"] = And(
                    out.get("every_violated_constraint_is_reported_with_its_duplicated_rows", True), Implies(Not(uk), Or(*mine) if mine else False))
            for mk in masks:
                whose = [And(Not(uk), SBool(z3.ForAll([k], z3.Implies(lf.sel(k), core.as_z3_bool(mk.at(k)) == z3.Not(duplicated_in(p, k)))))) for p, uk in zip(present, unique_k)]
                out["every_failing_result_is_a_violated_constraint"] = And(out.get("every_failing_result_is_a_violated_constraint", True), Or(*whose) if whose else False)
        return out

    def concretize(self, rec):
        def thunk():
            import warnings

            import polars as pl
            import pandera as pa
            import pandera.polars as pp

            warnings.simplefilter("ignore")
            obs, bad = {}, False
            schema = pp.DataFrameSchema({"a": pp.Column(int), "b": pp.Column(int)}, unique=["a", "b"])
            for mk in (pl.DataFrame, pl.LazyFrame):
                for lazy in (False, True):
                    from pandera.config import ValidationDepth, config_context

                    with config_context(validation_depth=ValidationDepth.SCHEMA_AND_DATA):
                        try:
                            schema.validate(mk({"a": [1, 1, 2], "b": [5, 5, 5]}), lazy=lazy)
                            got = "accepted"
                        except (pa.errors.SchemaError, pa.errors.SchemaErrors) as e:
                            got = type(e).__name__
                        except Exception as e:  # noqa: BLE001
                            got = "leaked " + type(e).__name__
                    want = "SchemaErrors" if lazy else "SchemaError"
                    if got != want:
                        bad = True
                        obs[f"{mk.__name__}, lazy={lazy}: rows (1,5) twice under unique=['a','b']"] = f"{got}, expected {want}"
            dropping = pp.DataFrameSchema({"a": pp.Column(int)}, unique=["a"], drop_invalid_rows=True)
            try:
                out = dropping.validate(pl.DataFrame({"a": [1, 1, 2]}), lazy=True)
                if out["a"].to_list() != [2]:
                    bad = True
                    obs["drop_invalid_rows with unique=['a'] on [1,1,2]"] = f"returned {out['a'].to_list()}, expected [2]"
            except Exception as e:  # noqa: BLE001
                bad = True
                obs["drop_invalid_rows with unique=['a'] on [1,1,2]"] = "raised " + type(e).__name__
            b2, o2 = _absent_group_probe("polars")
            obs.update(o2)
            b3, o3 = _every_group_probe("polars")
            obs.update(o3)
            return bad or b2 or b3, obs or "joint uniqueness violations are reported through SchemaError / SchemaErrors"

        return thunk


CONTRACTS = [PandasJointUniqueness, PolarsJointUniqueness]
