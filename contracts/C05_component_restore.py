"""C05 / C06 / C07 (pandas container <-> components): mutate-then-revert must restore on EVERY exit.

Interface contract IComponentValidate (what the container may assume of `schema_component.validate`):
  returns a table, or raises SchemaError / SchemaErrors / any other Exception (user parser, internal error);
  writes NOTHING of the component or of any other pre-existing schema object on any of these exits.
Each back end's validate has to refine it (ColumnBackend.validate below; Index/MultiIndex in C04).

run_schema_component_checks: for every component k and every outcome of its validate (return, SchemaError,
SchemaErrors, other exception): the component's attributes (incl. private `_coerce`, `_dtype`) equal their
entry values afterwards; one failed result per component error, none invented, none lost.
"""
import z3

from pandera.api.pandas.components import Column, Index, MultiIndex
from pandera.backends.base import CoreCheckResult
from pandera.dtypes import DataType
from pandera.errors import SchemaDefinitionError, SchemaError, SchemaErrorReason, SchemaErrors
from pyvc import core, types as T
from pyvc.core import And, Iff, Implies, Not, Or, PyExc, SAny, SBool, SNum, cur, ite, py_eq
from pyvc.heap import ListObj, Obj
from pyvc.interp import OtherException
from pyvc.spec import Contract, LoopSpec, resolve_target
from pyvc.theories import pandas_lite as PL
from pyvc.values import SeqChunk, SymSeq
from contracts.util import fld, fld0

DF = "pandera.backends.pandas.container:DataFrameSchemaBackend"
COLB = "pandera.backends.pandas.components:ColumnBackend"


def dtype_ref():
    return T.Ref(DataType)


def column_ref(**over):
    f = dict(_dtype=T.Opt(dtype_ref()), coerce=T.Bool, name=T.Opt(T.Label), required=T.Bool, regex=T.Bool, nullable=T.Bool, unique=T.Bool,
             default=T.Any, parsers=T.Any, drop_invalid_rows=T.Bool, checks=T.Any)
    f.update(over)
    return T.Ref(Column, **f)


def index_ref():
    return T.Ref(Index, _dtype=T.Opt(dtype_ref()), coerce=T.Bool, name=T.Opt(T.Label))


def multiindex_ref():
    def mk(name):
        o = T.Ref(MultiIndex, _dtype=T.Opt(dtype_ref()), _coerce=T.Bool).fresh(name)
        lv = ListObj([index_ref().fresh(f"{name}.indexes[0]"), index_ref().fresh(f"{name}.indexes[1]")])
        o.attrs["indexes"] = lv
        o.attrs0["indexes"] = lv
        return o

    return T.Lazy(mk)


def install_engine_dtype(I):
    """pandas_engine.Engine.dtype under its C09 contract: a DataType instance resolves to itself; anything else to a
    fresh DataType (or raises TypeError)."""
    from pandera.engines import pandas_engine

    def dtype_model(I, cls, x):
        if isinstance(x, Obj) and x.cls is not None and issubclass(x.cls, DataType):
            return x
        k = cur().choose([("dtype", None), ("TypeError", None)], "Engine.dtype")
        if k == 1:
            I.raise_py(TypeError, "data type not understood")
        return dtype_ref().fresh("resolved_dtype")

    I.models[id(pandas_engine.Engine.dtype.__func__)] = dtype_model if hasattr(pandas_engine.Engine.dtype, "__func__") else None
    # Engine.dtype is a classmethod defined on the metaclass-created class: register on the underlying function
    f = pandas_engine.Engine.__dict__.get("dtype")
    if f is not None:
        I.models[id(f.__func__ if hasattr(f, "__func__") else f)] = dtype_model


OUTCOMES = [("returns", None), ("SchemaError", SchemaError), ("SchemaErrors", SchemaErrors), ("OtherException", OtherException)]


def install_component_validate(I):
    """IComponentValidate (see module docstring)"""
    from pandera.api.dataframe.components import ComponentSchema
    from pandera.api.pandas.container import DataFrameSchema as PDS

    def model(I, self_obj, check_obj, *args, **kw):
        p = cur()
        n = len(p.ghost.setdefault("component_validate_calls", []))
        p.ghost["component_validate_calls"].append((self_obj, check_obj, args, kw))
        p.ghost["component_dtype_at_call"] = fld(self_obj, "_dtype") if isinstance(self_obj, Obj) and "_dtype" in self_obj.field_types else None
        k = p.choose([(nm, None) for nm, _ in OUTCOMES], f"component.validate#{n}")
        p.ghost["component_outcome"] = OUTCOMES[k][0]
        if k == 0:
            return PL.FrameVal.fresh(f"validated#{n}", pre=False)
        exc = I.make_exc(OUTCOMES[k][1])
        exc.attrs["__from_callback__"] = ("component.validate", n)
        p.ghost["component_exc"] = exc
        raise PyExc(exc)

    I.models[id(ComponentSchema.validate)] = model
    I.models[id(PDS.validate)] = model


def install_handler_recorder(I):
    """ErrorHandler.collect_error / collect_errors under their C02 contracts: eager -> raise the offered error,
    lazy -> record it (the handler is a fresh local object of the function under verification)."""
    from pandera.api.base.error_handler import ErrorHandler as EH

    def collect_error(I, h, error_type, reason_code, schema_error, original_exc=None):
        cur().ghost.setdefault("offered", []).append(schema_error)
        if not I.truth(fld(h, "_lazy")):
            raise PyExc(schema_error)
        lst = fld(h, "_collected_errors")
        lst.append(schema_error)
        fld(h, "_schema_errors").append(schema_error)
        return None

    def collect_errors(I, h, schema_errors, original_exc=None):
        cur().ghost.setdefault("offered", []).append(schema_errors)
        if not I.truth(fld(h, "_lazy")):
            # a SchemaErrors always carries at least one error: eager collection raises the first
            raise PyExc(I.make_exc(SchemaError))
        fld(h, "_collected_errors").append(schema_errors)
        fld(h, "_schema_errors").append(schema_errors)
        return None

    I.models[id(EH.collect_error)] = collect_error
    I.models[id(EH.collect_errors)] = collect_errors


class RunSchemaComponentChecks(Contract):
    target = f"{DF}.run_schema_component_checks.__wrapped__" if False else f"{DF}.run_schema_component_checks"
    raises = (OtherException,)
    params = dict(self=T.Ref(None), check_obj=T.Any, lazy=T.Bool,
                  schema=T.Ref(None, dtype=T.Opt(dtype_ref())),
                  schema_components=T.ListOf(T.ClassOneOf(column_ref(), index_ref(), multiindex_ref().thunk if False else T.Lazy(lambda n: multiindex_ref().fresh(n)))))

    def setup(self, I):
        PL.install(I)
        install_engine_dtype(I)
        install_component_validate(I)

    def make_args(self):
        a = {"self": T.Ref(None).fresh("self"), "check_obj": PL.FrameVal.fresh("check_obj"), "lazy": T.fresh_value(T.Bool, "lazy"),
             "schema": T.Ref(None, dtype=T.Opt(dtype_ref())).fresh("schema")}

        def elem(i):
            nm = f"schema_components[{getattr(i, 'z', i)}]"
            k = cur().choose([("Column", None), ("Index", None), ("MultiIndex", None)], f"type({nm})")
            core.register_model_var(f"type({nm})", lambda m, k=k: ["Column", "Index", "MultiIndex"][k])
            return [column_ref(), index_ref(), multiindex_ref()][k].fresh(nm)

        n = core.sym_int("len(schema_components)")
        cur().assume(n >= 0)
        a["schema_components"] = SymSeq("schema_components", n, elem)
        return a

    def call_target(self, I, fn, a):
        return I.call(fn, [a["self"], a["check_obj"], a["schema"], a["schema_components"], a["lazy"]], {})

    @property
    def loops(self):
        def invariant(I, fr, k, phase):
            p = cur()
            if phase == "assume":
                p.ghost["component_validate_calls"] = []
                p.ghost.pop("component_exc", None)
                p.ghost.pop("component_outcome", None)
                return {}
            if phase == "init":
                return {}
            comp = fr.locals["schema_component"]
            calls = p.ghost["component_validate_calls"]
            out = {"validates_the_component_once": len(calls) == 1 and calls[0][0] is comp}
            if len(calls) == 1:
                _, obj, args, kw = calls[0]
                out["on_the_object_it_was_given_inplace"] = obj is fr.locals["check_obj"] and kw.get("inplace") is True and kw.get("lazy") is fr.locals["lazy"]
                # DataFrameSchema(dtype=...): "overrides the data types specified in any of the COLUMNS" - the index keeps its own
                sdt = fld0(fr.locals["schema"], "dtype")
                at_call = p.ghost.get("component_dtype_at_call")
                if comp.cls is Column:
                    out["a_column_is_validated_under_the_dataframe_dtype_if_there_is_one"] = at_call is (sdt if sdt is not None else fld0(comp, "_dtype"))
                else:
                    out["an_index_is_validated_under_its_own_dtype"] = at_call is fld0(comp, "_dtype")
            cp = fr.locals["check_passed"]
            out["recorded_flags_are_true"] = isinstance(cp, SymSeq) and all(x is True for x in cp.appended)
            cr = fr.locals["check_results"]
            oc = p.ghost.get("component_outcome")
            added = list(cr.appended) if isinstance(cr, SymSeq) else None
            if oc == "returns":
                out["no_result_invented_for_a_passing_component"] = added == []
                # "returns" means "valid" only for a component that does not drop rows: with drop_invalid_rows the component returns
                # the FILTERED table and reports nothing - and the table it returns is discarded here (C01 / C11: invalid rows survive)
                if "drop_invalid_rows" in comp.field_types:
                    out["a_returning_component_has_validated_every_row"] = Not(fld(comp, "drop_invalid_rows"))
            elif oc == "SchemaError":
                exc = p.ghost["component_exc"]
                ok = added is not None and len(added) == 1 and isinstance(added[0], Obj) and added[0].cls is CoreCheckResult
                out["one_failed_result_for_the_component_error"] = ok and added[0].attrs["passed"] is False and added[0].attrs["schema_error"] is exc \
                    and added[0].attrs["reason_code"] is SchemaErrorReason.SCHEMA_COMPONENT_CHECK
            elif oc == "SchemaErrors":
                exc = p.ghost["component_exc"]
                # results.extend([... for schema_error in err.schema_errors]) : one failed result per collected error
                ok = added is not None and len(added) == 1 and isinstance(added[0], SeqChunk)
                out["one_failed_result_per_collected_error"] = ok and py_eq(added[0].seq.slen(), fld(exc, "schema_errors").slen())
                if ok:
                    j = core.sym_int("j")
                    r = added[0].seq.at(j)
                    e = fld(exc, "schema_errors").at(j)
                    out["each_result_carries_its_error"] = isinstance(r, Obj) and r.cls is CoreCheckResult and r.attrs["schema_error"] is e \
                        and r.attrs["passed"] is False and r.attrs["reason_code"] is SchemaErrorReason.SCHEMA_COMPONENT_CHECK
            return out

        def havoc_results(I, fr, k, old):
            return SymSeq("check_results'", core.sym_int("n_results"), lambda i: SAny(name="res"), pre=False)

        def havoc_passed(I, fr, k, old):
            s = SymSeq("check_passed'", core.sym_int("n_passed"), lambda i: True, pre=False)
            s.uniform = (True,)  # invariant: every recorded flag is True (re-established in `keep`)
            return s

        return {0: LoopSpec(invariant=invariant, havoc={"check_results": havoc_results, "check_passed": havoc_passed})}

    def on_raise(self, exc, old, **a):
        return {"only_a_foreign_exception_of_the_component_escapes": exc is cur().ghost.get("component_exc") and exc.cls is OtherException}


class ColumnValidateRestoresSchema(Contract):
    """ColumnBackend.validate refines IComponentValidate: the Column schema (name!) is as before on every exit."""

    target = f"{COLB}.validate"
    raises = (SchemaError, SchemaErrors, SchemaDefinitionError, OtherException)
    max_paths = 20000
    split = {"lazy": [True, False], "inplace": [True, False], "drop": [True, False], "regex": [True, False]}

    def setup(self, I):
        PL.install(I)
        from pandera.backends.pandas.array import ArraySchemaBackend as AB
        from pandera.backends.pandas.components import ColumnBackend as CB

        def array_validate(I, self_obj, check_obj, schema, **kw):
            # ArraySchemaBackend.validate under its contract (ArrayValidateChannel below): returns the validated object;
            # SchemaError only when eager, SchemaErrors only when lazy and not dropping invalid rows; a foreign
            # exception (user parser, internal) at any time; never writes the schema
            p = cur()
            n = len(p.ghost.setdefault("field_validate_calls", []))
            p.ghost["field_validate_calls"].append((check_obj, schema, fld(schema, "name"), kw))
            lazy, drop = kw.get("lazy", False), fld(schema, "drop_invalid_rows")
            assert isinstance(lazy, bool) and isinstance(drop, bool)
            allowed = ["returns", "OtherException"] + (["SchemaError"] if not lazy else []) + (["SchemaErrors"] if lazy and not drop else [])
            outs = [o for o in OUTCOMES if o[0] in allowed]
            k = p.choose([(nm, None) for nm, _ in outs], f"array.validate#{n}")
            # what it returns / carries (ArrayValidate: `returns_the_checked_object`, `carries_the_checked_object`; ArrayRunParsers: the
            # checked object of a table argument is the parsed COLUMN when the schema has parsers, else the table)
            parsed_column = isinstance(check_obj, PL.FrameVal) and len(fld(schema, "parsers")) > 0
            def checked():
                if parsed_column:
                    # the parsed column: values are the parser's, rows are the argument's rows (all of them, or those drop_invalid_rows kept)
                    keep = z3.Function(cur().fresh_name("row_kept"), z3.IntSort(), z3.BoolSort())
                    base = PL.SeriesVal.fresh(f"parsed_column#{n}", "real", space=check_obj.space)
                    v = base.derive(sel=lambda i, f=check_obj, keep=keep: z3.And(f._sel(i), keep(i)))
                else:
                    v = PL.FrameVal.fresh(f"validated#{n}", pre=False)
                v.pre = False
                p.ghost.setdefault("validated_objects", []).append(v)
                return v

            if outs[k][0] == "returns":
                return checked()
            exc = I.make_exc(outs[k][1])
            exc.attrs["__from_callback__"] = ("array.validate", n)
            if outs[k][0] == "SchemaErrors":
                exc.attrs["data"] = checked()
                fe = I.make_exc(SchemaError)
                fe.attrs["reason_code"] = SchemaErrorReason.DATAFRAME_CHECK
                exc.attrs["schema_errors"] = ListObj([fe])
            raise PyExc(exc)

        I.models[id(AB.validate)] = array_validate
        install_handler_recorder(I)
        def get_regex_columns(I, self_obj, schema, check_obj):
            # contract of get_regex_columns: a non-empty selection of the frame's own column labels (else SchemaError)
            k = cur().choose([("match", None), ("no_match", None)], "get_regex_columns")
            if k == 1:
                cur().ghost["regex_no_match"] = True
                raise PyExc(I.make_exc(SchemaError))
            lab = T.fresh_value(T.Label, "matched_col")
            cur().assume(check_obj.has_col(lab))
            return ListObj([lab])

        I.models[id(CB.get_regex_columns)] = get_regex_columns

        def coerce_dtype(I, self_obj, obj, schema=None):
            # under the contract of ArraySchemaBackend.coerce_dtype (C10 ArrayCoerceDtype): returns the coerced object, or raises ONE
            # SchemaError(DATATYPE_COERCION) - in both modes, the callee does not know about `lazy`
            k = cur().choose([("ret", None), ("SchemaError", None)], "coerce_dtype")
            if k == 1:
                e = I.make_exc(SchemaError)
                e.attrs["reason_code"] = SchemaErrorReason.DATATYPE_COERCION
                cur().ghost["coercion_failed"] = True
                raise PyExc(e)
            return obj

        I.models[id(CB.coerce_dtype)] = coerce_dtype
        import pandas as pd

        I.models[id(pd.notna)] = lambda I, v: core.sym_bool("has_default")

    def make_args(self):
        from pandera.backends.pandas.components import ColumnBackend as CB

        a = {"self": T.Ref(CB).fresh("self"), "check_obj": PL.FrameVal.fresh("check_obj"),
             "schema": column_ref(name=T.Label, parsers=T.OneOf((), ("p",)), drop_invalid_rows=T.Const(self.fixed.get("drop", False)),
                                  regex=T.Const(self.fixed.get("regex", False))).fresh("schema"),
             "lazy": self.arg("lazy", T.Bool), "inplace": self.arg("inplace", T.Bool)}
        return a

    def call_target(self, I, fn, a):
        return I.call(fn, [a["self"], a["check_obj"], a["schema"]], dict(lazy=a["lazy"], inplace=a["inplace"]))

    def modifies(self, self_, check_obj, schema, lazy, inplace):
        return [(check_obj, "data")] if inplace else []

    def ensures(self, result, old, self_, check_obj, schema, lazy, inplace):
        out = {"returns_a_table": isinstance(result, PL.FrameVal)}
        if isinstance(result, PL.FrameVal) and len(fld0(schema, "parsers")) > 0:
            # C03: what is returned went through the column's parsers - every column value written back is a parsed column handed
            # back by the field validation (never None, never something else)
            out.update(self._written_back(result))
        return out

    def _written_back(self, frame):
        vals = cur().ghost.get("validated_objects", [])
        written = [v for k, v in frame.overrides.items()]
        bad = [v for v in written if not any(v is x for x in vals) and not isinstance(v, PL.SeriesVal)]
        return {"only_parsed_columns_are_written_back": not bad}

    def on_raise(self, exc, old, self_, check_obj, schema, lazy, inplace):
        out = {}
        if exc.cls is SchemaErrors:
            out["collected_errors_only_when_lazy"] = lazy is True
            data = exc.attrs.get("data")
            if isinstance(data, PL.FrameVal) and len(fld0(schema, "parsers")) > 0:
                # the frame the error carries is what a caller (the container with drop_invalid_rows) goes on with
                out.update(self._written_back(data))
        if exc.cls is SchemaError:
            # (a regex that matches no column is reported as a single INVALID_COLUMN_NAME error in both modes)
            # (C02 / C06: lazy validation raises the COLLECTED error - also when what failed is the coercion of the column)
            out["single_error_only_when_eager_or_regex_without_match"] = lazy is False or cur().ghost.get("regex_no_match", False)
        if exc.cls is SchemaDefinitionError:
            out["definition_error_only_for_drop_without_lazy"] = fld0(schema, "drop_invalid_rows") is True and lazy is False
        return out


CONTRACTS = [RunSchemaComponentChecks, ColumnValidateRestoresSchema]
