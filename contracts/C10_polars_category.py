"""C10 / C06 (polars engine): Category.try_coerce - a value outside the categories is NAMED in a ParserError, nothing else escapes.

polars_engine.Category(categories) is backed by text: `coerce` casts strictly and raises (ValueError) when a value is not one of the
categories.  try_coerce turns ANY failure of coerce into the report every caller of try_coerce relies on (the polars back ends build
SchemaError(DATATYPE_COERCION) from it; failure_cases_metadata accepts only COLLECTED failure cases and numbers them by the false
positions of `parser_output`):

    exit.only_a_parser_error_escapes                 whatever coerce raised (ValueError, polars errors)
    exit.failure_cases_are_exactly_the_values_that_cannot_be_coerced
                                                      row i is listed  <=>  some coerced column's value is non-null and (cannot be cast to
                                                      text or is not one of the categories); nulls stay null and are not failures
    exit.failure_cases_are_collected_and_show_the_coerced_columns_only
    exit.parser_output_is_the_row_mask_of_the_failure_cases    one boolean per data row, no nulls, false exactly on the listed rows
    post.returns_what_coerce_returned
for all frames, all category sets (a symbolic set), all values (castable: an uninterpreted predicate), key given or not.
"""
import z3

from pandera.api.polars.types import PolarsData
from pandera.errors import ParserError
from pyvc import core, types as T
from pyvc.core import PyExc, SAny, SBool, cur
from pyvc.heap import Obj
from pyvc.spec import Contract
from pyvc.theories import pandas_lite as PL
from pyvc.theories import polars_lite as PP

MOD = "pandera.engines.polars_engine"
KEY = PP.CHECK_OUTPUT_KEY


class PolarsCategoryTryCoerce(Contract):
    target = f"{MOD}:Category.try_coerce"
    raises = (ParserError,)
    check_frame = False
    split = {"arg": ["PolarsData_key", "PolarsData_nokey", "LazyFrame"]}

    def _key(self):
        return "a" if self.fixed.get("arg", "PolarsData_key") == "PolarsData_key" else None

    def setup(self, I):
        import polars as pl
        from pandera.engines import polars_engine as PE

        PL.install(I)
        PP.install(I)

        def coerce(I_, self_obj, data_container):
            p = cur()
            p.ghost["coerce_got"] = data_container
            k = p.choose([("returns", None), ("ValueError", None), ("ComputeError", None)], "coerce")
            if k:
                raise PyExc(I_.make_exc(ValueError if k == 1 else pl.exceptions.ComputeError, "invalid categories"))
            r = SAny(name="coerced")
            p.ghost["coerced"] = r
            return r

        I.models[id(PE.Category.coerce)] = coerce

        def fallback(I_, data_container=None, type_=None):
            # polars_coerce_failure_cases (its own contract: PolarsCoerceFailureCases): a collected row mask over the data rows and the
            # collected rows it marks false - here reached only when polars cannot evaluate the cast at all (every row fails)
            p = cur()
            lf = p.ghost["lf"]
            p.ghost["fallback"] = (data_container, type_)
            mask = lf.derive(cols={KEY: PP.Col(lambda i: SBool(z3.BoolVal(False)), lambda i: z3.BoolVal(False), "bool")}, kind="DataFrame")
            fc = lf.derive(kind="DataFrame")
            return (mask, fc)

        I.models[id(PE.polars_coerce_failure_cases)] = fallback

    def make_args(self):
        from pandera.engines import polars_engine as PE
        import polars as pl

        key = self._key()
        lf = PP.FrameP.fresh("lf", columns=("a", "b"), kinds={"a": "real", "b": "real"})
        if self.fixed.get("arg", "PolarsData_key") == "LazyFrame":
            data = lf
        else:
            data = Obj(PolarsData, "data_container", pre=True)
            data.attrs.update(lazyframe=lf, key=key)
            data.attrs0.update(data.attrs)
            data.attrs["__fields__order"] = ("lazyframe", "key")
        # the categories are TEXT: membership is a question about the value CAST to text (`castable`: which values polars can cast, an
        # uninterpreted predicate created here so that the specification speaks of it whether or not the code performs the cast)
        cur().ghost["castable"] = z3.Function(cur().fresh_name("castable"), z3.RealSort(), z3.BoolSort())
        cats = PL.SymSet.fresh("categories", "real")
        me = T.Ref(PE.Category, type=T.Const(pl.Utf8), categories=T.Const(cats)).fresh("self")
        cur().ghost.update(lf=lf, cats=cats)
        return {"self": me, "data_container": data}

    def call_target(self, I, fn, a):
        return I.call(fn, [a["self"], a["data_container"]], {})

    def ensures(self, result, old, self_, data_container):
        g = cur().ghost
        return {"returns_what_coerce_returned": result is g.get("coerced")}

    def on_raise(self, exc, old, self_, data_container):
        g = cur().ghost
        lf, cats = g["lf"], g["cats"]
        if exc.cls is not ParserError:
            return {}
        names = ["a"] if self._key() == "a" else list(lf.cols)
        fc, mask = exc.attrs.get("failure_cases"), exc.attrs.get("parser_output")
        # (without a key the base DataType.try_coerce leaves the mask column next to the data columns: allowed here as well)
        out = {"failure_cases_are_collected_and_show_the_coerced_columns_only": isinstance(fc, PP.FrameP) and fc.kind == "DataFrame" and [c for c in fc.cols if c != KEY or names == ["a"]] == names,
               "parser_output_is_a_collected_mask_over_the_data_rows": isinstance(mask, PP.FrameP) and mask.kind == "DataFrame" and list(mask.cols) == [KEY] and mask.space is lf.space}
        if not all(out.values()) or fc.space is not lf.space:
            out["failure_cases_are_rows_of_the_data"] = isinstance(fc, PP.FrameP) and fc.space is lf.space
            return out
        castable = g.get("castable")
        i = z3.Int(cur().fresh_name("row"))
        core.register_model_var("row", i)

        def ok(n):
            c = lf.cols[n]
            v = PL._term(c.at(i))
            return z3.Or(c.null(i), z3.And(castable(v) if castable is not None else z3.BoolVal(True), core.as_z3_bool(cats.member(c.at(i)))))

        row_ok = z3.And(*[ok(n) for n in names])
        if "fallback" in g:
            # polars could not evaluate the cast: every row is reported
            out["fallback_asked_for_this_data_and_type"] = g["fallback"][0] is (data_container if isinstance(data_container, Obj) else g["fallback"][0]) and g["fallback"][1] is not None
            row_ok = z3.BoolVal(False)
        out["failure_cases_are_exactly_the_values_that_cannot_be_coerced"] = SBool(fc.sel(i) == z3.And(lf.sel(i), z3.Not(row_ok)))
        m = mask.cols[KEY]
        out["parser_output_is_the_row_mask_of_the_failure_cases"] = SBool(z3.And(mask.sel(i) == lf.sel(i), z3.Implies(lf.sel(i), z3.And(z3.Not(m.null(i)), core.as_z3_bool(m.at(i)) == row_ok))))
        return out

    def concretize(self, rec):
        def thunk():
            import warnings

            import polars as pl
            import pandera as pa
            import pandera.polars as pp
            from pandera.engines import polars_engine as PE

            warnings.simplefilter("ignore")
            t = PE.Category(["a", "b"])
            obs, bad = {}, False
            for data, want in ((["a", "z"], ["z"]), (["a", None, "b"], None), (["z", None, "q"], ["z", "q"]), ([1, 2], [1, 2]), ([True, None], [True])):
                for key in ("x", None):
                    label = f"{data} key={key}"
                    try:
                        t.try_coerce(PE.PolarsData(pl.LazyFrame({"x": data}), key)).collect()
                        got = None
                    except pa.errors.ParserError as e:
                        fc = e.failure_cases
                        got = fc["x"].to_list() if isinstance(fc, pl.DataFrame) else f"failure cases are a {type(fc).__name__}"
                    except Exception as e:  # noqa: BLE001
                        got = f"leaked {type(e).__name__}: {e}"[:100]
                    obs[label] = got
                    bad = bad or got != want
            for lazy in (False, True):
                try:
                    pp.DataFrameSchema({"x": pp.Column(t, coerce=True)}).validate(pl.DataFrame({"x": ["a", "z"]}), lazy=lazy)
                    obs[f"validate(lazy={lazy})"] = "accepted"
                except (pa.errors.SchemaError, pa.errors.SchemaErrors) as e:
                    obs[f"validate(lazy={lazy})"] = type(e).__name__
                except Exception as e:  # noqa: BLE001
                    bad = True
                    obs[f"validate(lazy={lazy})"] = f"leaked {type(e).__name__}"
            return bad, obs

        return thunk


CONTRACTS = [PolarsCategoryTryCoerce]
