"""C02 / C11 (pandas report): reshape_failure_cases lists every failure case that has a value - whatever the row's label.

Every pandas SchemaError's failure cases go through reshape_failure_cases on their way into `SchemaError.failure_cases` and the lazy
report; drop_invalid_rows removes the rows it lists.  `ignore_na=True` (the check option) means: a failure case whose VALUE is missing
is not reported.  It says nothing about the LABEL of the row: a failing cell on a row labelled NaN / None is a failure like any other.

Failure cases of one column (a Series; flat index) seen through per-row predicates `value_missing(i)` and `label_missing(i)`:
    post.one_report_row_per_failure_case_with_a_value     ignore_na: row i is reported  <=>  not value_missing(i)
    post.every_failure_case_is_reported_without_ignore_na
    post.report_has_the_index_and_failure_case_columns
for all series (any length, any missing values, any missing labels).
"""
import z3

from pyvc import core, types as T
from pyvc.core import SBool, cur
from pyvc.spec import Contract

RESHAPE = "pandera.backends.pandas.error_formatters:reshape_failure_cases"


def _fn(name):
    return z3.Function(cur().fresh_name(name), z3.IntSort(), z3.BoolSort())


class RIndex:
    __pyvc_symbolic__ = True

    def __init__(self, missing):
        self.missing, self.name = missing, None

    def pyvc_class(self):
        import pandas as pd

        return pd.Index

    def pyvc_setattr(self, I, name, value):
        if name != "name":
            raise core.Unsupported(f"Index.{name} = ...")
        self.name = value


class RSeries:
    """failure cases of one column: row i holds a value (possibly missing) under a label (possibly missing)"""

    __pyvc_symbolic__ = True

    def __init__(self, n, missing, index, name=None, keep=None):
        self.n, self.missing, self.index, self.name = n, missing, index, name
        self.keep = keep or (lambda i: z3.BoolVal(True))

    def pyvc_class(self):
        import pandas as pd

        return pd.Series

    def rename(self, name):
        return RSeries(self.n, self.missing, RIndex(self.index.missing), name, self.keep)

    def reset_index(self, drop=False):
        if drop:
            raise core.Unsupported("reset_index(drop=True)")
        label_col = self.index.name if self.index.name is not None else "index"
        return RTable(self.n, {label_col: self.index.missing, self.name: self.missing}, self.keep)


class RTable:
    __pyvc_symbolic__ = True

    def __init__(self, n, cols, keep):
        self.n, self.cols, self.keep = n, dict(cols), keep  # cols: name -> (row -> "the cell is missing")

    def pyvc_class(self):
        import pandas as pd

        return pd.DataFrame

    @property
    def columns(self):
        return list(self.cols)

    def dropna(self, axis=0, how="any", subset=None, **kw):
        """rows with a missing cell in any of the columns looked at (all of them unless `subset` names some) are dropped"""
        if axis not in (0, "index") or how != "any":
            raise core.Unsupported("dropna(axis / how)")
        names = list(self.cols) if subset is None else ([subset] if isinstance(subset, str) else list(subset))
        if any(nm not in self.cols for nm in names):
            cur().ghost["interp"].raise_py(KeyError, names)
        fs = [self.cols[nm] for nm in names]
        return RTable(self.n, self.cols, lambda i: z3.And(self.keep(i), *[z3.Not(f(i)) for f in fs]))


class ReshapeFieldFailureCases(Contract):
    target = RESHAPE
    check_frame = False
    raises = ()
    split = {"ignore_na": [True, False]}

    def setup(self, I):
        import pandera.api.pandas.types as PT

        I.models[id(PT.is_field)] = lambda I_, x: isinstance(x, RSeries)
        I.models[id(PT.is_table)] = lambda I_, x: isinstance(x, RTable)
        I.models[id(PT.is_multiindex)] = lambda I_, x: False  # (flat index; the MultiIndex branches render the labels as text)

    def make_args(self):
        n = core.sym_int("n_failure_cases")
        cur().assume(n >= 0)
        core.register_model_var("n_failure_cases", n.z)
        vm, lm = _fn("value_missing"), _fn("label_missing")
        s = RSeries(n, lambda i: vm(i), RIndex(lambda i: lm(i)), "a")
        cur().ghost.update(s=s, vm=vm, lm=lm)
        return {"failure_cases": s, "ignore_na": self.fixed.get("ignore_na", True)}

    def call_target(self, I, fn, a):
        return I.call(fn, [a["failure_cases"]], {"ignore_na": a["ignore_na"]})

    def ensures(self, result, old, failure_cases, ignore_na):
        g = cur().ghost
        out = {"report_is_a_table_over_the_failure_cases": isinstance(result, RTable) and result.n is g["s"].n}
        if not out["report_is_a_table_over_the_failure_cases"]:
            return out
        out["report_has_the_index_and_failure_case_columns"] = list(result.cols) == ["index", "failure_case"]
        i = z3.Int(cur().fresh_name("row"))
        core.register_model_var("row", i)
        inb = z3.And(i >= 0, i < g["s"].n.z)
        if ignore_na:
            out["one_report_row_per_failure_case_with_a_value"] = SBool(z3.Implies(inb, result.keep(i) == z3.Not(g["vm"](i))))
        else:
            out["every_failure_case_is_reported_without_ignore_na"] = SBool(z3.Implies(inb, result.keep(i)))
        return out

    def concretize(self, rec):
        def thunk():
            """a failing cell on a row whose index label is NaN"""
            import warnings

            import numpy as np
            import pandas as pd
            import pandera as pa
            from pandera.backends.pandas.error_formatters import reshape_failure_cases

            warnings.simplefilter("ignore")
            fc = pd.Series([-5.0, -7.0, np.nan], index=[np.nan, 2.0, 3.0])
            got = reshape_failure_cases(fc, ignore_na=True)["failure_case"].tolist()
            obs = {"failure cases [-5 @NaN, -7 @2, NaN @3], ignore_na=True": got}
            bad = got != [-5.0, -7.0]
            df = pd.DataFrame({"a": [1, -5, -7]}, index=[0.0, np.nan, 2.0])
            try:
                pa.DataFrameSchema({"a": pa.Column(int, pa.Check.gt(0))}).validate(df, lazy=True)
                obs["validate(lazy=True)"] = "accepted"
                bad = True
            except pa.errors.SchemaErrors as e:
                rows = e.failure_cases["failure_case"].tolist()
                obs["validate(lazy=True) failure cases"] = rows
                bad = bad or sorted(rows) != [-7, -5]
            return bad, obs

        return thunk


CONTRACTS = [ReshapeFieldFailureCases]
