"""C09 / C16 (pandas engine): pandas_engine.Engine.dtype - a spelling resolves, or TypeError; nothing else.

`Engine.dtype` is THE resolver: DataFrameModel asks it whether a raw annotation (`Series[int]`) is a dtype and relies on the documented
answer for "no" - `TypeError` (`except TypeError: dtype = annotation.arg`), and so does every `Column(dtype)` / `check` / io call
site.  The override in the pandas engine first asks the registry, then lets pandas interpret the value.  What pandas / numpy raise for a
value they do not understand is a library fact, granted to the model as is: `TypeError` ("data type ... not understood") - and, with
numpy >= 2, `ValueError` for an object that has a `dtype` attribute which is not a dtype (every `pandera.typing.Series[...]` class).

    exit.only_type_error_escapes                       for every value, whichever way pandas refuses it
    post.resolved_by_the_registry_first               a registered spelling is what the registry answers, pandas is not asked
    post.otherwise_what_the_registry_makes_of_pandas_answer
"""
from pyvc import core, types as T
from pyvc.core import PyExc, SAny, cur
from pyvc.spec import Contract
from pyvc.theories.opaque import OpaqueVal

MOD = "pandera.engines.pandas_engine"


class PandasEngineDtype(Contract):
    target = f"{MOD}:Engine.dtype"
    raises = (TypeError,)
    check_frame = False
    # bare_pyarrow: a pyarrow.DataType instance - it compares and hashes equal to its printed NAME, so it must not be looked up as it is
    split = {"kind": ["registered", "geopandas", "pyarrow", "extension_class", "other", "bare_pyarrow", "bare_pyarrow_unregistered"]}

    def setup(self, I):
        import pandas as pd
        from pandera.engines import engine as ENG
        from pandera.engines import pandas_engine as PE

        kind = self.fixed.get("kind", "registered")

        def wrap(I_, t, *a, **k):
            v = OpaqueVal("pd.ArrowDtype(value)")
            cur().ghost["wrapped"] = (t, v)
            return v

        I.models[id(pd.ArrowDtype)] = wrap

        def base(I_, cls, data_type):
            p = cur()
            n = len(p.ghost.setdefault("registry_asked", []))
            p.ghost["registry_asked"].append(data_type)
            known = (kind in ("registered", "bare_pyarrow")) if n == 0 else p.choose([("known", None), ("unknown", None)], "registry(second)") == 0
            if not known:
                I_.raise_py(TypeError, "not understood")
            r = OpaqueVal(f"registered#{n}")
            p.ghost.setdefault("registry_answers", []).append(r)
            return r

        f = ENG.Engine.__dict__["dtype"]
        I.models[id(getattr(f, "__func__", f))] = base
        I.models[id(PE.is_geopandas_dtype)] = lambda I_, x: kind == "geopandas"
        I.models[id(PE.is_pyarrow_dtype)] = lambda I_, x: (kind == "pyarrow" and x is cur().ghost.get("value")) or (
            kind.startswith("bare_pyarrow") and cur().ghost.get("wrapped") is not None and x is cur().ghost["wrapped"][1])
        I.models[id(PE.is_extension_dtype)] = lambda I_, x: kind == "extension_class"

        def pandas_dtype(I_, x):
            p = cur()
            p.ghost.setdefault("pandas_asked", []).append(x)
            k = p.choose([("understood", None), ("TypeError", None), ("ValueError (numpy >= 2: a `dtype` attribute that is no dtype)", None)], "pandas_dtype")
            if k:
                I_.raise_py(TypeError if k == 1 else ValueError, "not understood")
            return OpaqueVal("pandas_dtype(value)")

        I.models[id(pd.api.types.pandas_dtype)] = pandas_dtype
        import numpy as np

        I.models[id(np.dtype)] = lambda I_, name: OpaqueVal("np.dtype(name)")  # (re-spelling a numpy dtype by its platform-agnostic name)

    def make_args(self):
        from pandera.engines import pandas_engine as PE

        import pyarrow

        v = OpaqueVal("data_type")
        v._isinst[(pyarrow.DataType,)] = self.fixed.get("kind", "registered").startswith("bare_pyarrow")
        cur().ghost["value"] = v
        return {"cls": PE.Engine, "data_type": v}

    def call_target(self, I, fn, a):
        return I.call(fn, [a["cls"], a["data_type"]], {})

    def ensures(self, result, old, cls, data_type):
        g = cur().ghost
        asked, answers = g.get("registry_asked", []), g.get("registry_answers", [])
        bare = (self.fixed.get("kind") or "").startswith("bare_pyarrow")
        w = g.get("wrapped")
        first = (w[1] if (bare and w is not None and w[0] is data_type) else None) if bare else data_type
        out = {"the_registry_is_asked_about_the_value_first": bool(asked) and asked[0] is first,
               "the_result_is_an_answer_of_the_registry": any(result is r for r in answers)}
        if bare:
            out["a_bare_pyarrow_type_is_never_looked_up_as_it_is"] = all(a is not data_type for a in asked)
        if self.fixed.get("kind") in ("registered", "bare_pyarrow"):
            out["resolved_by_the_registry_first"] = result is answers[0] and not g.get("pandas_asked")
        return out

    def concretize(self, rec):
        def thunk():
            """values that are no dtype spelling - among them a pandera.typing.Series[...] class, which every DataFrameModel asks about"""
            import warnings

            import pandera as pa
            from pandera.engines import pandas_engine as PE
            from pandera.typing import Series

            warnings.simplefilter("ignore")
            obs, bad = {}, False
            for label, v in (("Series[int]", Series[int]), ("'no_such_dtype'", "no_such_dtype"), ("object()", object())):
                try:
                    obs[label] = repr(PE.Engine.dtype(v))
                    bad = True
                except TypeError:
                    obs[label] = "TypeError"
                except Exception as e:  # noqa: BLE001
                    obs[label] = f"leaked {type(e).__name__}"
                    bad = True
            try:
                class M(pa.DataFrameModel):
                    a: Series[int]

                obs["DataFrameModel with a: Series[int]"] = sorted(M.to_schema().columns)
            except Exception as e:  # noqa: BLE001
                obs["DataFrameModel with a: Series[int]"] = f"{type(e).__name__}: {e}"[:120]
                bad = True
            return bad, obs

        return thunk


CONTRACTS = [PandasEngineDtype]
