"""C08 / C01 (container level): column presence, strictness and order mean the same on pandas and on polars.

The three frame-level functions `collect_column_info` -> `strict_filter_columns` -> `check_column_presence` of BOTH back ends are
executed (their live bodies, one after the other, as `validate` calls them) on the same column layout and each is compared with ONE
spec written from the documentation of `DataFrameSchema(strict=, ordered=)` and `Column(required=)`:

    strict=True    : "make sure all specified columns are in the validated dataframe - no more, no less": a frame column that
                     the schema does not declare is an error (COLUMN_NOT_IN_SCHEMA)
    strict='filter': columns the schema does not declare are removed; nothing is raised for them
    ordered=True   : the declared columns that are present must appear in the frame in declaration order, else COLUMN_NOT_ORDERED
                     (absent optional columns do not count)
    required=True  : a declared, absent column is reported as COLUMN_NOT_IN_DATAFRAME - unless add_missing_columns is set

Quantification: every option value (strict in {False, True, 'filter'}, ordered, add_missing_columns and each column's `required` are
symbolic) over EVERY column layout with <= 3 declared (non-regex) columns and <= 3 distinct frame columns drawn from the declared
names plus two undeclared ones (labels only matter up to equality, so concrete names lose nothing) - 148 layouts.  The bound on
the layout is stated in every obligation note; options are unbounded (finite domains, all values).
Obligations per back end: post.raises_iff_spec / post.reason_code / post.kept_columns / post.absent_reported; relational:
post.pandas_and_polars_agree.
"""
import itertools

from pandera.errors import SchemaError, SchemaErrorReason
from pyvc import core, types as T
from pyvc.core import And, Iff, Implies, Not, Or, PyExc, SAny, SBool, cur, py_eq
from pyvc.heap import DictObj, Obj
from pyvc.interp import OtherException
from pyvc.spec import Contract
from contracts.util import fld, fld0

DECLARED = ["k0", "k1", "k2"]
FOREIGN = ["x0", "x1"]


class Cols:
    """column labels of a frame: the only thing the three functions look at (pandas Index-like view)"""

    __pyvc_symbolic__ = True

    def __init__(self, labels):
        self.labels = list(labels)

    def __iter__(self):
        return iter(self.labels)

    def pyvc_contains(self, I, x):
        return x in self.labels

    @property
    def has_duplicates(self):
        return len(set(self.labels)) != len(self.labels)

    def tolist(self):
        return list(self.labels)

    def pyvc_iter(self, I=None):
        return list(self.labels)


class PandasFrame:
    """a pandas DataFrame seen through its column labels"""

    __pyvc_symbolic__ = True

    def __init__(self, labels):
        self.columns = Cols(labels)
        self.dropped_in_place = False

    def pyvc_class(self):
        import pandas as pd

        return pd.DataFrame

    def pyvc_contains(self, I, x):
        return x in self.columns.labels

    def drop(self, labels=None, axis=0, inplace=False, **kw):
        assert axis in (1, "columns")
        kept = [c for c in self.columns.labels if c not in list(labels)]
        if inplace:
            self.columns = Cols(kept)
            self.dropped_in_place = True
            return None
        return PandasFrame(kept)


class PolarsFrame:
    """a polars LazyFrame seen through its column names"""

    __pyvc_symbolic__ = True

    def __init__(self, labels):
        self.names = list(labels)

    def pyvc_class(self):
        import polars as pl

        return pl.LazyFrame

    def drop(self, columns, *more, **kw):
        gone = list(columns) + list(more)
        return PolarsFrame([c for c in self.names if c not in gone])

    def head(self, *a, **k):
        return self


def layouts():
    out = []
    for n in range(0, 4):
        names = DECLARED[:n] + FOREIGN
        for m in range(0, 4):
            for frame in itertools.permutations(names, m):
                out.append((n, frame))
    return out


def spec(declared, frame, required, strict, ordered, add_missing):
    """(error reason or None, kept columns, absent required columns) - from the documentation, not from the code"""
    present = [c for c in declared if c in frame]
    undeclared = [c for c in frame if c not in declared]
    in_frame_order = [c for c in frame if c in declared]
    err = None
    # strict_filter_columns walks the frame left to right: the first offending column decides which error is raised
    for c in frame:
        if c not in declared:
            if strict is True:
                err = SchemaErrorReason.COLUMN_NOT_IN_SCHEMA
                break
        elif ordered and in_frame_order.index(c) != present.index(c):
            err = SchemaErrorReason.COLUMN_NOT_ORDERED
            break
    kept = [c for c in frame if c in declared] if strict == "filter" else list(frame)
    absent = [c for c in declared if c not in frame and required[c]]
    return err, kept, ([] if add_missing else absent)


def _schema(n):
    cols = DictObj()
    req = {}
    for k in DECLARED[:n]:
        c = Obj(None, f"column_{k}", pre=True, fields={})
        r = T.fresh_value(T.Bool, f"required[{k}]")
        c.attrs.update(regex=False, required=r, name=k, selector=k)
        c.attrs0.update(c.attrs)
        dict.__setitem__(cols, k, c)
        req[k] = r
    class DataFrameSchema:  # (only its __name__ is read, for the error message)
        pass

    s = Obj(DataFrameSchema, "schema", pre=True, fields={})
    strict = T.fresh_value(T.OneOf(False, True, "filter"), "strict")
    ordered = T.fresh_value(T.Bool, "ordered")
    amc = T.fresh_value(T.Bool, "add_missing_columns")
    s.attrs.update(columns=cols, strict=strict, ordered=ordered, add_missing_columns=amc, name=None)
    s.attrs0.update(s.attrs)
    return s, req, strict, ordered, amc


def run_backend(I, B, frame, schema):
    """collect_column_info -> strict_filter_columns -> check_column_presence, as validate does; returns (error, frame after, results)"""
    b = Obj(B, "backend", pre=False)
    info = I.call(B.collect_column_info, [b, frame, schema], {})
    try:
        after = I.call(B.strict_filter_columns, [b, frame, schema, info], {})
        err = None
    except PyExc as e:
        if e.obj.cls is not SchemaError:
            raise
        err, after = e.obj, frame
    fn = B.check_column_presence
    fn = getattr(fn, "__wrapped__", fn)  # the scope wrapper is C18's (ScopeWrapper_*); depth is not part of this spec
    results = I.call(fn, [b, after, schema, info], {})
    return err, after, results


def _labels(frame):
    return frame.columns.labels if isinstance(frame, PandasFrame) else frame.names


class ContainerTwins(Contract):
    target = "pandera.backends.polars.container:DataFrameSchemaBackend.strict_filter_columns"  # (hash anchor; six live bodies run)
    check_frame = False
    raises = (OtherException,)
    split = {"layout": list(range(len(layouts())))}
    max_paths = 400

    def setup(self, I):
        import pandera.api.polars.utils as PU
        import pandera.backends.polars.container as PC

        names = lambda I, lf: list(lf.names)  # noqa: E731  (get_lazyframe_column_names: lf.collect_schema().names())
        I.models[id(PU.get_lazyframe_column_names)] = names
        I.models[id(PC.get_lazyframe_column_names)] = names

    def make_args(self):
        n, frame = layouts()[self.fixed.get("layout", 0)]
        schema, req, strict, ordered, amc = _schema(n)
        cur().ghost.update(n=n, frame=list(frame), req=req, strict=strict, ordered=ordered, amc=amc)
        return {"schema": schema}

    def call_target(self, I, fn, a):
        import pandera.backends.pandas.container as PD
        import pandera.backends.polars.container as PC

        g = cur().ghost
        return (run_backend(I, PD.DataFrameSchemaBackend, PandasFrame(g["frame"]), a["schema"]),
                run_backend(I, PC.DataFrameSchemaBackend, PolarsFrame(g["frame"]), a["schema"]))

    def ensures(self, result, old, schema):
        g = cur().ghost
        declared = DECLARED[: g["n"]]
        # options are symbolic: decide them along this path (finite domains), then the spec is a concrete computation
        strict = g["strict"]
        ordered = bool(cur().decide(g["ordered"], "ordered")) if not isinstance(g["ordered"], bool) else g["ordered"]
        amc = bool(cur().decide(g["amc"], "add_missing_columns")) if not isinstance(g["amc"], bool) else g["amc"]
        req = {k: (bool(cur().decide(v, f"required[{k}]")) if not isinstance(v, bool) else v) for k, v in g["req"].items()}
        exp_err, exp_kept, exp_absent = spec(declared, g["frame"], req, strict, ordered, amc)
        note = f"layout: declared={declared} frame={g['frame']} (<= 3 declared, <= 3 frame columns)"
        core.register_model_var("layout", lambda m, s=note: s)
        out = {}
        obs = []
        for tag, (err, after, results) in zip(("pandas", "polars"), result):
            code = err.attrs.get("reason_code") if err is not None else None
            out[f"{tag}.raises_iff_spec"] = (err is not None) == (exp_err is not None)
            out[f"{tag}.reason_code"] = code is exp_err
            if err is None:
                out[f"{tag}.kept_columns"] = _labels(after) == exp_kept
            absent = [r.attrs.get("failure_cases") for r in results]
            out[f"{tag}.absent_reported"] = absent == exp_absent and all(
                r.attrs.get("passed") is False and r.attrs.get("reason_code") is SchemaErrorReason.COLUMN_NOT_IN_DATAFRAME for r in results)
            obs.append((code, None if err is not None else _labels(after), absent))
        out["pandas_and_polars_agree"] = obs[0] == obs[1]
        return out

    def concretize(self, rec):
        import re

        m = re.search(r"declared=(\[[^\]]*\]) frame=(\[[^\]]*\])", str((rec.get("model") or {}).get("layout", "")))
        path = " ; ".join(rec.get("path") or ())

        def thunk():
            import ast
            import warnings

            import pandas as pd
            import polars as pl
            import pandera as pa
            import pandera.polars as pp

            warnings.simplefilter("ignore")
            if not m:
                return False, "no layout in the model"
            declared, frame = ast.literal_eval(m.group(1)), ast.literal_eval(m.group(2))
            strict = True if "strict in=True" in path else ("filter" if "strict in='filter'" in path else False)
            ordered = "ordered=T" in path
            amc = "add_missing_columns=T" in path
            req = {k: f"required[{k}]=T" in path for k in declared}
            exp_err, exp_kept, exp_absent = spec(declared, frame, req, strict, ordered, False)
            obs = {}
            for tag, mod, mk in (("pandas", pa, lambda: pd.DataFrame({c: [1] for c in frame})), ("polars", pp, lambda: pl.DataFrame({c: [1] for c in frame}))):
                schema = mod.DataFrameSchema({k: mod.Column(int, required=req[k]) for k in declared}, strict=strict, ordered=ordered)
                try:
                    r = schema.validate(mk(), lazy=True)
                    obs[tag] = ("accept", list(r.columns))
                except pa.errors.SchemaErrors as e:
                    obs[tag] = ("reject", sorted(x.reason_code.name for x in e.schema_errors))
            want = sorted(([exp_err.name] if exp_err else []) + ["COLUMN_NOT_IN_DATAFRAME"] * len(exp_absent))
            expected = ("reject", want) if want else ("accept", exp_kept)
            bad = any(v != expected for v in obs.values())
            return bad, {"declared": declared, "frame columns": frame, "options": dict(strict=strict, ordered=ordered, required=req), "expected": expected, "observed": obs}

        return thunk


CONTRACTS = [ContainerTwins]


# ---------------------------------------------------------------------------------------
# regex columns: which components are validated (polars)
# ---------------------------------------------------------------------------------------


class PolarsRegexComponentSelection(Contract):
    """collect_column_info -> collect_schema_components (their live bodies, composed as validate composes them) for a schema that
    declares a REGEX column under the key it was written with (`{"m_\\d+": Column(..., regex=True)}`; polars matches with the
    anchored `selector` "^m_\\d+$", the same text only if the user anchored the key) next to a plain column:

        post.a_matched_regex_column_is_validated       required or not: frame columns that match are checked (as on pandas)
        post.an_unmatched_optional_regex_column_is_skipped
        post.plain_columns_as_documented                required or present, and not reported absent
    for key written anchored / unanchored, required symbolic, the pattern matching a frame column or none."""

    target = "pandera.backends.polars.container:DataFrameSchemaBackend.collect_column_info"
    check_frame = False
    split = {"key": ["unanchored", "anchored"], "frame": ["matching_column", "no_match"]}

    def setup(self, I):
        import pandera.api.polars.utils as PU
        import pandera.backends.polars.container as PC
        from contracts.C05_polars_components import install_polars_engine_dtype

        install_polars_engine_dtype(I)
        names = lambda I_, lf: list(lf.names)  # noqa: E731
        I.models[id(PU.get_lazyframe_column_names)] = names
        I.models[id(PC.get_lazyframe_column_names)] = names
        matched = self.fixed.get("frame", "matching_column") == "matching_column"

        class RegexBackend:
            __pyvc_symbolic__ = True

            def get_regex_columns(self, schema, check_obj):
                # ColumnBackend.get_regex_columns (its own contract): the frame columns the selector matches; SchemaError when none does
                if not matched:
                    raise PyExc(cur().ghost["interp"].make_exc(SchemaError))
                return ["m_1"]

        cur_backend = RegexBackend()
        from pandera.api.base.schema import BaseSchema

        I.models[id(BaseSchema.get_backend.__func__)] = lambda I_, cls_or_self, *a, **k: cur_backend

    def make_args(self):
        from pandera.api.polars.components import Column as PlColumn
        from pandera.backends.polars.container import DataFrameSchemaBackend as B
        from contracts.C05_polars_components import NamesFrame, pl_column_ref

        anchored = self.fixed.get("key", "unanchored") == "anchored"
        key = r"^m_\d+$" if anchored else r"m_\d+"
        cols = DictObj()
        rx = pl_column_ref(regex=T.Const(True), name=T.Const(key), selector=T.Const(r"^m_\d+$")).fresh("schema.columns[regex]")
        plain = pl_column_ref(regex=T.Const(False), name=T.Const("x"), selector=T.Const("x")).fresh("schema.columns[x]")
        dict.__setitem__(cols, key, rx)
        dict.__setitem__(cols, "x", plain)
        cols.pre = True
        schema = T.Ref(None).fresh("schema")
        for a, v in (("columns", cols), ("dtype", None)):
            schema.attrs[a] = v
            schema.attrs0[a] = v
        present = (["m_1"] if self.fixed.get("frame", "matching_column") == "matching_column" else []) + ["x"]
        cur().ghost.update(key=key, rx=rx, plain=plain)
        return {"self": T.Ref(B).fresh("self"), "check_obj": NamesFrame(present), "schema": schema}

    def call_target(self, I, fn, a):
        from pandera.backends.polars.container import DataFrameSchemaBackend as B

        info = I.call(fn, [a["self"], a["check_obj"], a["schema"]], {})
        comps = I.call(B.collect_schema_components, [a["self"], a["check_obj"], a["schema"], info], {})
        return (info, comps)

    def ensures(self, result, old, self_, check_obj, schema):
        g = cur().ghost
        info, comps = result
        names = [fld(c, "name") for c in comps]
        matched = self.fixed.get("frame", "matching_column") == "matching_column"
        req = fld0(g["rx"], "required")
        req = bool(cur().decide(req, "required[regex]")) if not isinstance(req, bool) else req
        out = {"plain_columns_as_documented": "x" in names}
        if matched:
            out["a_matched_regex_column_is_validated"] = g["key"] in names
        elif not req:
            out["an_unmatched_optional_regex_column_is_skipped"] = g["key"] not in names
        else:
            out["an_unmatched_required_regex_column_is_validated_and_reports_it"] = g["key"] in names
        return out

    def concretize(self, rec):
        def thunk():
            """an optional regex column whose key is written without anchors: the frame columns it matches are checked, as on pandas"""
            import warnings

            import pandas as pd
            import polars as pl
            import pandera as pa
            import pandera.polars as pp

            warnings.simplefilter("ignore")
            obs, bad = {}, False
            for key in (r"m_\d+", r"^m_\d+$"):
                for req in (True, False):
                    v = []
                    for m, fr in ((pa, pd.DataFrame({"m_1": [-1], "x": [1]})), (pp, pl.DataFrame({"m_1": [-1], "x": [1]}))):
                        try:
                            m.DataFrameSchema({key: m.Column(int, pa.Check.gt(0), regex=True, required=req)}).validate(fr, lazy=True)
                            v.append("accepts")
                        except pa.errors.SchemaErrors:
                            v.append("rejects")
                    obs[f"{key!r} required={req}"] = {"pandas": v[0], "polars": v[1]}
                    bad = bad or v != ["rejects", "rejects"]
            return bad, obs

        return thunk


CONTRACTS = CONTRACTS + [PolarsRegexComponentSelection]
