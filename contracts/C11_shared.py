"""C11: the row masks drop_invalid_rows filters with have one entry per data row (own file: C10_polars_failure_cases.py)."""
from contracts.C10_polars_failure_cases import PolarsCoerceFailureCases

CONTRACTS = [PolarsCoerceFailureCases]
