"""C11: the row masks drop_invalid_rows filters with have one entry per data row (own file: C10_polars_failure_cases.py)."""
from contracts.C10_polars_failure_cases import PolarsCoerceFailureCases

CONTRACTS = [PolarsCoerceFailureCases]

from contracts.C08_polars_column_checks import PolarsCheckNullable, PolarsCheckNullableRegex, PolarsCheckUnique  # noqa: E402  (the row masks of nullability / uniqueness)

CONTRACTS += [PolarsCheckNullable, PolarsCheckNullableRegex, PolarsCheckUnique]

from contracts.C05_multiindex_validate import MultiIndexCoerceDtype  # noqa: E402  (row labels: the coerced MultiIndex keeps the data's level order)

CONTRACTS += [MultiIndexCoerceDtype]

import z3  # noqa: E402

from pyvc import core  # noqa: E402
from pyvc.core import SBool, cur  # noqa: E402
from contracts.C19_check_options import PostprocessField  # noqa: E402
from contracts.util import fld0  # noqa: E402


class PostprocessFieldReportsEveryFailingRow(PostprocessField):
    """C11 view of postprocess_field: drop_invalid_rows removes the rows the collected errors REPORT (failure_cases['index']), so every
    failing row has to be among the failure cases - also when `n_failure_cases` asks for a shorter report (C19: that option only
    shortens what is shown; it must not change which rows survive)."""

    def ensures(self, result, old, self_, check_obj, check_output):
        fc = result.attrs["failure_cases"]
        if fc is None:
            return {"nothing_failed_nothing_to_report": True}
        i = z3.Int(cur().fresh_name("row"))
        core.register_model_var("row", i)
        failing = z3.And(check_obj.sel(i), z3.Not(core.as_z3_bool(check_output.at(i))))
        return {"every_failing_row_is_among_the_failure_cases_drop_invalid_rows_reads": SBool(z3.Implies(failing, fc.sel(i)))}


CONTRACTS += [PostprocessFieldReportsEveryFailingRow]

from contracts.C02_reshape import ReshapeFieldFailureCases  # drop_invalid_rows removes the rows the reshaped failure cases list (by label)

CONTRACTS += [ReshapeFieldFailureCases]

from contracts.C08_container_twins import PolarsRegexComponentSelection  # a regex column that is not validated collects no row mask: nothing is dropped

CONTRACTS += [PolarsRegexComponentSelection]
