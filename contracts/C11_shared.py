"""C11: the row masks drop_invalid_rows filters with have one entry per data row (own file: C10_polars_failure_cases.py)."""
from contracts.C10_polars_failure_cases import PolarsCoerceFailureCases

CONTRACTS = [PolarsCoerceFailureCases]

from contracts.C08_polars_column_checks import PolarsCheckNullable, PolarsCheckUnique  # noqa: E402  (the row masks of nullability / uniqueness)

CONTRACTS += [PolarsCheckNullable, PolarsCheckUnique]

from contracts.C05_multiindex_validate import MultiIndexCoerceDtype  # noqa: E402  (row labels: the coerced MultiIndex keeps the data's level order)

CONTRACTS += [MultiIndexCoerceDtype]
