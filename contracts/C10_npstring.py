"""C10 (pandas engine, `str`): NpString.coerce turns every non-null element into its text and leaves the nulls null - whatever
the physical dtype of the container.

The body is pandera's own: `astype(object)`, then `astype(str)` (no nulls) or `where(isna, astype(str))`.  What it relies on is ONE
fact about pandas containers, and the theory below grants exactly that fact and nothing more:

    an OBJECT-dtype container holds arbitrary python objects: `where(cond, other)` keeps, row by row, the element of self (cond
    true) or of other (cond false), and `astype(object)` keeps every element and every null;
    a container of any OTHER dtype (numpy datetime64 / timedelta64 / float, extension arrays) is free to convert what is written into
    it back to its own dtype (datetime64.where(mask, strings) parses the strings back into timestamps): the result of `where` on it
    is unconstrained.

Container: rows 0..n-1, per row `null(i)` and the ghost predicates `orig(i)` (the element is the caller's element) / `text(i)` (the
element is str() of the caller's element).  For all containers (any length, any nulls, dtype object / numpy / extension):

    post.result_holds_python_objects           the result is an object-dtype container over the same rows
    post.nulls_stay_null                       null(c[i])  =>  result[i] is that null
    post.every_other_element_is_its_text       not null(c[i])  =>  result[i] == str(c[i])
"""
import z3

from pyvc import core, types as T
from pyvc.core import SBool, cur
from pyvc.spec import Contract

MOD = "pandera.engines.pandas_engine"


def _fn(name, *sorts):
    return z3.Function(cur().fresh_name(name), *sorts)


class Mask:
    __pyvc_symbolic__ = True

    def __init__(self, owner, at):
        self.owner, self.at = owner, at

    def all(self, axis=0, **kw):
        i = z3.Int(cur().fresh_name("i"))
        return SBool(z3.ForAll([i], z3.Implies(self.owner.inb(i), self.at(i))))


class Box:
    """a pandas container (Series / Index / DataFrame cell grid flattened) seen through per-row predicates"""

    __pyvc_symbolic__ = True

    def __init__(self, n, tag, null, orig, text):
        self.n, self.tag, self.null, self.orig, self.text = n, tag, null, orig, text

    def pyvc_class(self):
        import pandas as pd

        return pd.Series

    def inb(self, i):
        return z3.And(i >= 0, i < self.n.z)

    @property
    def dtype(self):
        import numpy as np

        return np.dtype("O") if self.tag == "object" else (np.dtype("M8[ns]") if self.tag == "numpy" else core.SAny(name="extension_dtype"))

    def astype(self, dtype, **kw):
        if dtype is object:
            return Box(self.n, "object", self.null, self.orig, self.text)
        if dtype is str:
            # str(x) of every element - of a null as well ("nan" / "NaT" / "<NA>" / "None": text, not a null any more)
            return Box(self.n, "object", lambda i: z3.BoolVal(False), lambda i: z3.BoolVal(False), lambda i: z3.Or(self.orig(i), self.text(i)))
        raise core.Unsupported(f"astype({dtype!r})")

    def notna(self):
        return Mask(self, lambda i: z3.Not(self.null(i)))

    def isna(self):
        return Mask(self, lambda i: self.null(i))

    def where(self, cond, other=None, **kw):
        if not isinstance(cond, Mask) or not isinstance(other, Box):
            raise core.Unsupported("where(non-mask / non-container)")
        if self.tag == "object":
            pick = lambda f, g: (lambda i: z3.If(cond.at(i), f(i), g(i)))  # noqa: E731
            return Box(self.n, "object", pick(self.null, other.null), pick(self.orig, other.orig), pick(self.text, other.text))
        # any other dtype: what is written is converted back to the container's dtype if pandas can - unconstrained
        cur().ghost["where_on_a_typed_container"] = self.tag
        return Box(self.n, self.tag, _fn("w_null", z3.IntSort(), z3.BoolSort()), _fn("w_orig", z3.IntSort(), z3.BoolSort()), _fn("w_text", z3.IntSort(), z3.BoolSort()))


class NpStringCoerce(Contract):
    target = f"{MOD}:NpString.coerce"
    check_frame = False
    split = {"dtype": ["object", "numpy", "extension"]}

    def make_args(self):
        from pandera.engines.pandas_engine import NpString

        n = core.sym_int("len(c)")
        cur().assume(n >= 0)
        core.register_model_var("len(c)", n.z)
        null0 = _fn("c_null", z3.IntSort(), z3.BoolSort())
        c = Box(n, self.fixed.get("dtype", "object"), lambda i: null0(i), lambda i: z3.BoolVal(True), lambda i: z3.BoolVal(False))
        cur().ghost["c"] = c
        return {"self": T.Ref(NpString).fresh("self"), "data_container": c}

    def call_target(self, I, fn, a):
        return I.call(fn, [a["self"], a["data_container"]], {})

    def ensures(self, result, old, self_, data_container):
        c = cur().ghost["c"]
        out = {"returns_a_container_over_the_same_rows": isinstance(result, Box) and result.n is c.n}
        if not out["returns_a_container_over_the_same_rows"]:
            return out
        out["result_holds_python_objects"] = result.tag == "object"
        i = z3.Int(cur().fresh_name("row"))
        core.register_model_var("row", i)
        out["nulls_stay_null"] = SBool(z3.Implies(z3.And(c.inb(i), c.null(i)), z3.And(result.null(i), result.orig(i))))
        out["every_other_element_is_its_text"] = SBool(z3.Implies(z3.And(c.inb(i), z3.Not(c.null(i))), z3.And(result.text(i), z3.Not(result.null(i)))))
        return out

    def concretize(self, rec):
        def thunk():
            """datetime64 / timedelta64 / float / Int64 / object containers with a null: every other element becomes its text"""
            import warnings

            import numpy as np
            import pandas as pd
            from pandera.engines import pandas_engine as PE

            warnings.simplefilter("ignore")
            t = PE.Engine.dtype(str)
            obs, bad = {}, False
            for label, s in (("datetime64 with NaT", pd.Series(pd.to_datetime(["2020-01-01", None, "2020-01-03"]))),
                             ("timedelta64 with NaT", pd.Series(pd.to_timedelta(["1D", None]))), ("float with NaN", pd.Series([1.5, np.nan])),
                             ("Int64 with NA", pd.Series([1, None], dtype="Int64")), ("object with None", pd.Series(["a", None, 3], dtype=object)),
                             ("datetime64 index with NaT", pd.Index(pd.to_datetime(["2020-01-01", None])))):
                out = t.coerce(s)
                ok = all((pd.isna(o) and pd.isna(x)) or (isinstance(o, str) and not pd.isna(x) and o == str(x)) for x, o in zip(list(s), list(out)))
                obs[label] = {"dtype": str(out.dtype), "elements": [type(o).__name__ for o in out]}
                bad = bad or not ok or out.dtype != object
            return bad, obs

        return thunk


CONTRACTS = [NpStringCoerce]
