"""C10 (pandas / numpy engines): numpy_pandas_coerce_failure_cases - which elements a parser error names.

C10: "... fails with a parser error whose failure cases are exactly the input elements that cannot be converted individually" - individually
BY THE DATA TYPE THE COERCION WAS ASKED FOR.  For a column (Series) or an index:
    post.decided_by_the_data_type_of_this_call     the element-wise decision (numpy_pandas_coercible) is taken with the data type resolved from
                                                   THIS call's `type_` argument - the very object the engine resolves it to now, not one that
                                                   was resolved for an equal-looking argument earlier (two data types can be equal and still
                                                   convert differently: DateTime / Date compare without their `to_datetime_kwargs`)
    post.over_this_container                       ... over this call's container (an index as its series)
    post.reports_exactly_the_elements_flagged_uncoercible   failure cases are the rows flagged False, through the check back end's
                                                   post-processing with ignore_na=False (a flagged missing element is reported too) and the
                                                   report formatter; None when nothing is flagged
Callees are used under their contracts: Engine.dtype (C09), numpy_pandas_coercible (Coercible), PandasCheckBackend.postprocess (C01
PostprocessField), reshape_failure_cases (C02 ReshapeFieldFailureCases).
"""
import z3

from pyvc import core, types as T
from pyvc.core import SAny, SBool, cur
from pyvc.heap import Obj
from pyvc.spec import Contract, resolve_target
from pyvc.theories import pandas_lite as PL
from pyvc.theories.pandas_lite import SeriesVal

UT = "pandera.engines.utils"


class _Reshaped:
    """reshape_failure_cases(failure_cases, ignore_na=False): the report rows of the flagged elements"""

    __pyvc_symbolic__ = True

    def __init__(self, cases, ignore_na):
        self.cases, self.ignore_na = cases, ignore_na

    @property
    def empty(self):
        return self.cases.empty


class PandasCoerceFailureCases(Contract):
    target = f"{UT}:numpy_pandas_coerce_failure_cases"
    split = {"container": ["Series", "Index"]}
    raises = ()
    check_frame = False

    def setup(self, I):
        PL.install(I)
        from pandera.backends.pandas.checks import PandasCheckBackend
        from pandera.engines import pandas_engine

        def dtype_model(I_, cls, x):
            dt = T.Ref(None).fresh("resolved_data_type")
            cur().ghost.setdefault("resolved", []).append((x, dt))
            return dt

        I.models[id(pandas_engine.Engine.__dict__["dtype"].__func__)] = dtype_model

        def coercible(I_, series, type_):
            flags = SeriesVal.fresh("coercible", "bool", nullable=False, space=series.space).derive(sel=series._sel)
            cur().ghost.setdefault("decisions", []).append((series, type_, flags))
            return flags

        I.models[id(resolve_target(f"{UT}:numpy_pandas_coercible"))] = coercible

        def postprocess(I_, self_obj, check_obj, check_output):
            check = self_obj.attrs.get("check") if isinstance(self_obj, Obj) else None
            ign = check.attrs.get("ignore_na") if isinstance(check, Obj) else None
            cur().ghost.setdefault("postprocessed", []).append((check_obj, check_output, ign))
            res = T.Ref(None).fresh("check_result")
            # PostprocessField (ignore_na=False): the failure cases are the elements whose output is False - None when there is none
            failing = lambda i: z3.And(check_obj.sel(i), z3.Not(core.as_z3_bool(check_output.at(i))))  # noqa: E731
            if cur().choose([("some_fail", None), ("none_fails", None)], "postprocess") == 1:
                i = z3.Int(cur().fresh_name("i"))
                cur().assume(SBool(z3.ForAll([i], z3.Not(failing(i)))))
                fc = None
            else:
                fc = check_obj.derive(sel=lambda i: failing(i))
            res.attrs["failure_cases"] = fc
            cur().ghost["cases"] = fc
            return res

        I.models[id(PandasCheckBackend.postprocess)] = postprocess

        def reshape(I_, failure_cases, ignore_na=True):
            r = _Reshaped(failure_cases, ignore_na)
            cur().ghost["reshaped"] = r
            return r

        I.models[id(resolve_target("pandera.backends.pandas.error_formatters:reshape_failure_cases"))] = reshape

    def make_args(self):
        kind = self.fixed.get("container", "Series")
        s = SeriesVal.fresh("data_container", "real")
        cur().ghost["series"] = s
        data = s if kind == "Series" else PL.IndexVal(s)
        return {"data_container": data, "type_": SAny(name="type_")}

    def call_target(self, I, fn, a):
        return I.call(fn, [a["data_container"], a["type_"]], {})

    def ensures(self, result, old, data_container, type_):
        g = cur().ghost
        s = g["series"]
        dec, res = g.get("decisions", []), g.get("resolved", [])
        out = {"one_element_wise_decision": len(dec) == 1}
        if len(dec) != 1:
            return out
        series, used, flags = dec[0]
        mine = [dt for x, dt in res if x is type_]
        out["decided_by_the_data_type_of_this_call"] = len(mine) >= 1 and any(used is dt for dt in mine)
        out["over_this_container"] = isinstance(series, SeriesVal) and series.space is s.space
        pp = g.get("postprocessed", [])
        out["reports_through_the_check_back_end_without_ignoring_nulls"] = len(pp) == 1 and pp[0][1] is flags and pp[0][0] is series and pp[0][2] is False
        if g.get("cases") is None:
            out["nothing_flagged_nothing_reported"] = result is None
        else:
            r = g.get("reshaped")
            out["reports_exactly_the_elements_flagged_uncoercible"] = (result is None or result is r) and r is not None and r.cases is g["cases"] and r.ignore_na is False
        return out

    def concretize(self, rec):
        def thunk():
            """two data types that compare equal but convert differently, one after the other in one process"""
            import warnings

            import pandas as pd
            import pandera as pa
            from pandera.engines import pandas_engine as pe

            warnings.simplefilter("ignore")
            obs, bad = {}, False
            a, b = pe.DateTime(), pe.DateTime(to_datetime_kwargs={"format": "%d|%m|%Y"})
            got = {}
            for name, dt, data in (("DateTime()", a, ["2020-12-31", "garbage"]), ("DateTime(format='%d|%m|%Y')", b, ["31|12|2020", "01|02|2021", "garbage"])):
                try:
                    dt.try_coerce(pd.Series(data))
                    got[name] = "coerced"
                except pa.errors.ParserError as e:
                    got[name] = e.failure_cases["failure_case"].tolist()
            if got != {"DateTime()": ["garbage"], "DateTime(format='%d|%m|%Y')": ["garbage"]}:
                bad = True
                obs["failure cases of two equal data types with different to_datetime_kwargs, in sequence"] = got
            return bad, obs or "each coercion's failure cases are decided by its own data type"

        return thunk


CONTRACTS = [PandasCoerceFailureCases]
