"""C09 (part 4) - registry closure: exhaustive over the live registries (STRUCTURAL) + sampled parameter families
(bounded stand-ins of the constructors that leave PyVC's subset).

The exhaustive part runs `contracts/c09_registry_probe.py` in a pristine interpreter (so that nothing imported by the
verifier - in particular the lazily imported pyarrow / geopandas engines - has touched the registries) and turns its
records into obligations `registry/<clause>`; see the probe's docstring for the clauses and the oracles.
"""
import json
import os
import random
import re
import subprocess
import sys
import warnings

from pyvc import core, types as T
from pyvc.core import And, Iff, Implies, Not, Or, cur, py_eq
from pyvc.heap import Obj
from pyvc.spec import Contract
from pyvc.theories.opaque import OpaqueVal
from pyvc.theories import dtype_lite as DL
from contracts.util import fld, fld0

HERE = os.path.dirname(os.path.dirname(os.path.abspath(__file__)))


def registry_closure():
    p = subprocess.run([sys.executable, os.path.join(HERE, "contracts", "c09_registry_probe.py")], capture_output=True, text=True, cwd=HERE, timeout=600)
    if p.returncode != 0:
        raise RuntimeError("registry probe failed: " + p.stderr[-1500:])
    recs = json.loads(p.stdout)
    for r in recs:
        r["backend"] = "enumeration"
    return recs


STRUCTURAL = [registry_closure]


# ---------------------------------------------------------------------------------------------
# parameter families (bounded)
# ---------------------------------------------------------------------------------------------


def _open_findings():
    out = []
    for fn in ("known_findings.json", "known_findings_C09.json"):
        p = os.path.join(HERE, fn)
        if os.path.exists(p):
            out += [f for f in json.load(open(p))["findings"] if f.get("property") == "C09" and f.get("status", "open") == "open"]
    return out


def _clauses(E, t, serialising, native=None):
    """the C09 clauses for ONE parametrised data type t of engine E; yields (clause, ok, detail)"""
    try:
        r = E.dtype(t)
        yield "idempotent", (r == t and hash(r) == hash(t)), f"dtype(t) = {r!r}"
    except Exception as e:
        yield "idempotent", False, f"dtype(t) raises {type(e).__name__}: {e}"
    try:
        c = t.check(t)
        yield "recognises_itself", bool(c), f"t.check(t) = {c!r}"
    except Exception as e:
        yield "recognises_itself", False, f"t.check(t) raises {type(e).__name__}: {e}"
    if native is not None:
        try:
            r = E.dtype(native)
            yield "native_spelling_resolves_to_equal_type", (r == t and hash(r) == hash(t)), f"dtype({native!r}) = {r!r}"
        except Exception as e:
            yield "native_spelling_resolves_to_equal_type", False, f"dtype({native!r}) raises {type(e).__name__}: {str(e)[:80]}"
    if serialising:
        s = str(t)
        try:
            r = E.dtype(s)
            yield "printed_name_resolves_back", (r == t and hash(r) == hash(t)), f"dtype({s!r}) = {r!r}"
        except Exception as e:
            yield "printed_name_resolves_back", False, f"dtype({s!r}) raises {type(e).__name__}: {str(e)[:80]}"


def _run_family(tag, target, draws, gen, n_quick=500, seed=0, tier="quick"):
    """gen(rng) -> (engine, dtype instance, serialising?, native spelling or None, description)"""
    warnings.simplefilter("ignore")
    rng = random.Random(1000 + seed)
    n = n_quick if tier == "quick" else 4 * n_quick
    known = _open_findings()
    examples = 0
    known_hits = {}
    for i in range(n):
        E, t, ser, native, desc = gen(rng)
        for clause, ok, detail in _clauses(E, t, ser, native):
            examples += 1
            if ok:
                continue
            note = f"[{tag}] {clause}: {desc}: {detail}"
            f = next((f for f in known if f.get("where") and re.search(f["where"], note)), None)
            if f is not None:
                known_hits.setdefault(f["id"], [0, note])[0] += 1
                continue
            return {"examples": examples, "bound": f"{n} random parameter draws (seed {seed}), clauses: idempotent, recognises_itself, native spelling, printed name",
                    "failing_input": {"family": tag, "draw": i, "type": desc, "clause": clause}, "observed": note, "known_findings_hit": known_hits}
    return {"examples": examples, "bound": f"{n} random parameter draws (seed {seed}), clauses: idempotent, recognises_itself, native spelling, printed name",
            "failing_input": None, "known_findings_hit": {k: {"count": v[0], "example": v[1]} for k, v in known_hits.items()}}


TZS = ["UTC", "Europe/Berlin", "America/New_York", "Asia/Kolkata", "Australia/Lord_Howe", "Pacific/Chatham", "Africa/Abidjan", "America/St_Johns",
       "Asia/Kathmandu", "Etc/GMT+12", "Etc/GMT-14", "Europe/London", "Asia/Tokyo", "America/Sao_Paulo"]


def _tz(rng):
    import datetime

    k = rng.random()
    if k < 0.7:
        return rng.choice(TZS)
    return datetime.timezone(datetime.timedelta(minutes=rng.randrange(-12 * 60, 14 * 60)))


def gen_pandas_datetime(rng):
    import pandas as pd

    from pandera.engines import pandas_engine as PE

    tz = _tz(rng) if rng.random() < 0.85 else None
    # the docstring says "Currently limited to ns", but pandas >= 2 hands out s/ms/us tz-aware dtypes and the engine accepts them
    unit = rng.choice(["s", "ms", "us", "ns"]) if tz is not None and int(pd.__version__.split(".")[0]) >= 2 else "ns"
    t = PE.DateTime(tz=tz, unit=unit)
    native = pd.DatetimeTZDtype(unit, tz) if tz is not None else None
    return PE.Engine, t, True, native, f"pandas DateTime(unit={unit!r}, tz={tz!r})"


def gen_pandas_category(rng):
    import pandas as pd

    from pandera.engines import pandas_engine as PE

    n = rng.randrange(0, 6)
    pool = rng.choice([["a", "b", "c", "d", "e", "f g", "Ü"], [1, 2, 3, 5, 8, 13], [1.5, 2.5, -0.0, 7.0], [True, False]])
    cats = rng.sample(pool, min(n, len(pool)))
    ordered = rng.random() < 0.5
    t = PE.Category(cats if n else None, ordered)
    native = pd.CategoricalDtype(cats if n else None, ordered)
    # str(Category) is "category" for every parameterisation: only the unparametrised type can round-trip through its name
    return PE.Engine, t, (n == 0 and not ordered), native, f"pandas Category({cats if n else None!r}, ordered={ordered})"


def gen_decimal(rng):
    from pandera.engines import pandas_engine as PE
    from pandera.engines import polars_engine as PL
    from pandera.engines import pyspark_engine as PS

    which = rng.choice(["pandas", "polars", "pyspark", "pyarrow"])
    prec = rng.randrange(1, 39)
    scale = rng.randrange(0, prec + 1)
    if which == "pandas":
        return PE.Engine, PE.Decimal(prec, scale), True, None, f"pandas Decimal({prec}, {scale})"
    if which == "polars":
        import polars as pl

        return PL.Engine, PL.Decimal(prec, scale), False, pl.Decimal(precision=prec, scale=scale), f"polars Decimal({prec}, {scale})"
    if which == "pyspark":
        import pyspark.sql.types as pst

        return PS.Engine, PS.Decimal(prec, scale), True, pst.DecimalType(prec, scale), f"pyspark Decimal({prec}, {scale})"
    import pandas as pd
    import pyarrow as pa

    return PE.Engine, PE.ArrowDecimal128(prec, scale), True, pd.ArrowDtype(pa.decimal128(prec, scale)), f"pandas ArrowDecimal128({prec}, {scale})"


def gen_arrow_temporal(rng):
    import pandas as pd
    import pyarrow as pa

    from pandera.engines import pandas_engine as PE

    k = rng.choice(["timestamp", "duration", "time32", "time64"])
    if k == "timestamp":
        unit = rng.choice(["s", "ms", "us", "ns"])
        tz = rng.choice(TZS) if rng.random() < 0.6 else None
        return PE.Engine, PE.ArrowTimestamp(unit=unit, tz=tz), True, pd.ArrowDtype(pa.timestamp(unit, tz)), f"pandas ArrowTimestamp({unit!r}, {tz!r})"
    if k == "duration":
        unit = rng.choice(["s", "ms", "us", "ns"])
        return PE.Engine, PE.ArrowDuration(unit=unit), True, pd.ArrowDtype(pa.duration(unit)), f"pandas ArrowDuration({unit!r})"
    if k == "time32":
        unit = rng.choice(["s", "ms"])
        return PE.Engine, PE.ArrowTime32(unit=unit), True, pd.ArrowDtype(pa.time32(unit)), f"pandas ArrowTime32({unit!r})"
    unit = rng.choice(["us", "ns"])
    return PE.Engine, PE.ArrowTime64(unit=unit), True, pd.ArrowDtype(pa.time64(unit)), f"pandas ArrowTime64({unit!r})"


def gen_polars_temporal(rng):
    import polars as pl

    from pandera.engines import polars_engine as PL

    if rng.random() < 0.6:
        unit = rng.choice(["ms", "us", "ns"])
        tz = rng.choice(TZS) if rng.random() < 0.6 else None
        return PL.Engine, PL.DateTime(time_zone=tz, time_unit=unit), False, pl.Datetime(time_unit=unit, time_zone=tz), f"polars DateTime({tz!r}, {unit!r})"
    unit = rng.choice(["ms", "us", "ns"])
    return PL.Engine, PL.Timedelta(time_unit=unit), False, pl.Duration(unit), f"polars Timedelta({unit!r})"


class _Family(Contract):
    """A parametrised constructor: the native type it boxes is built from the parameters by a library call on symbolic
    arguments (pd.DatetimeTZDtype(unit, tz), pd.CategoricalDtype(...), decimal.Context(...), pyarrow / polars type
    constructors) - outside PyVC's subset, so the contract below is evaluated at run time on the real classes over
    random parameters (bounded stand-in: idempotence, self-recognition, native spelling and printed name)."""

    raises = (ValueError, TypeError)
    post = None

    def setup(self, I):
        DL.install(I)
        _install_native_constructors(I)

    def make_args(self):
        a = {k: (t.fresh(k) if hasattr(t, "fresh") else T.fresh_value(t, k)) for k, t in self.params.items()}
        # parameters that are library values (time zones, units, category lists): opaque, with consistent observations
        for k in list(a):
            if self.params[k] is T.Any:
                a[k] = OpaqueVal(k)
        s = a.get("self")
        if isinstance(s, Obj):
            for f, t in list(s.field_types.items()):
                if t is T.Any:
                    v = OpaqueVal(f"self.{f}")
                    s.attrs[f] = v
                    s.attrs0[f] = v
        return a

    def modifies(self, **a):
        s = a.get("self_") or a.get("self")
        # a constructor initialises its receiver (and nothing else)
        return [(s, f) for f in ("type", "tz", "categories", "ordered", "precision", "scale", "rounding", "time_zone_agnostic", "ordering")]

    def ensures(self, result, old, **a):
        s = a.get("self_")
        out = {"boxes_a_native_type": s is not None and s.attrs.get("type") is not None}
        if self.post is not None and s is not None:
            out.update(type(self).post(self, s, a, cur().ghost.get("native_ctor_calls", [])))
        return out


def _install_native_constructors(I):
    """native type constructors as recorders: each call returns a fresh opaque native type and is logged with its arguments, so a
    constructor contract can say `the boxed type is the native type built from exactly these parameters`"""
    import numpy as np
    import pandas as pd
    import polars as pl

    def rec(name):
        def m(I_, *args, **kw):
            v = OpaqueVal(f"{name}(...)")
            cur().ghost.setdefault("native_ctor_calls", []).append((name, args, kw, v))
            return v

        return m

    for name, fn in (("pd.DatetimeTZDtype", pd.DatetimeTZDtype), ("pd.CategoricalDtype", pd.CategoricalDtype), ("pd.ArrowDtype", pd.ArrowDtype), ("pl.Datetime", pl.Datetime), ("pd.StringDtype", pd.StringDtype),
                     ("pl.Decimal", pl.Decimal), ("pl.Duration", pl.Duration), ("pl.Categorical", pl.Categorical), ("pl.Enum", pl.Enum),
                     ("np.dtype", np.dtype)):
        I.models[id(fn)] = rec(name)
    try:
        import pyarrow

        I.models[id(pyarrow.timestamp)] = rec("pyarrow.timestamp")
    except ImportError:
        pass
    try:
        import pyspark.sql.types as pst

        I.models[id(pst.DecimalType)] = rec("pst.DecimalType")
    except ImportError:
        pass
    import pandera.dtypes as D

    def category_init(I_, self_obj, categories=None, ordered=False):
        # dtypes.Category.__init__ (its own body: list(categories) - a library iteration): stores its two parameters
        I_.osetattr(self_obj, "categories", categories) if hasattr(I_, "osetattr") else _oset(self_obj, "categories", categories)
        _oset(self_obj, "ordered", ordered)

    def decimal_init(I_, self_obj, precision=28, scale=0, rounding=None):
        for k, v in (("precision", precision), ("scale", scale), ("rounding", rounding)):
            _oset(self_obj, k, v)

    I.models[id(D.Category.__init__)] = category_init
    I.models[id(D.Decimal.__init__)] = decimal_init


def _oset(o, name, v):
    o.attrs[name] = v
    o.writes.append(name)


def _only(calls, name):
    cs = [c for c in calls if c[0] == name]
    return cs[0] if len(cs) == 1 else None


def _post_pandas_datetime(self, s, a, calls):
    tz0 = s.attrs0.get("tz")
    c = _only(calls, "pd.DatetimeTZDtype")
    if tz0 is None:
        n = _only(calls, "np.dtype")
        return {"naive_type_is_datetime64_ns": n is not None and n[1] == ("datetime64[ns]",) and s.attrs["type"] is n[3] and c is None}
    return {"tz_aware_type_is_DatetimeTZDtype_of_unit_and_tz": c is not None and len(c[1]) == 2 and c[1][0] is s.attrs0["unit"] and c[1][1] is tz0 and not c[2] and s.attrs["type"] is c[3],
            "tz_is_the_tzinfo_pandas_made_of_it": s.attrs["tz"] is c[3].tz if c is not None else False,
            "unit_kept": s.attrs["unit"] is s.attrs0["unit"]}


def _post_pandas_category(self, s, a, calls):
    c = _only(calls, "pd.CategoricalDtype")
    return {"type_is_CategoricalDtype_of_categories_and_ordered": c is not None and len(c[1]) == 2 and c[1][0] is a["categories"] and c[1][1] is a["ordered"] and not c[2] and s.attrs["type"] is c[3],
            "parameters_stored": s.attrs.get("categories") is a["categories"] and s.attrs.get("ordered") is a["ordered"]}


def _post_pyspark_decimal(self, s, a, calls):
    c = _only(calls, "pst.DecimalType")
    return {"type_is_DecimalType_of_precision_and_scale": c is not None and len(c[1]) == 2 and c[1][0] is a["precision"] and c[1][1] is a["scale"] and not c[2] and s.attrs["type"] is c[3]}


def _post_arrow_timestamp(self, s, a, calls):
    t = _only(calls, "pyarrow.timestamp")
    c = _only(calls, "pd.ArrowDtype")
    return {"type_is_ArrowDtype_of_timestamp_of_unit_and_tz": t is not None and c is not None and len(t[1]) == 2 and t[1][0] is s.attrs0["unit"] and t[1][1] is s.attrs0["tz"] and not t[2]
            and c[1] == (t[3],) and not c[2] and s.attrs["type"] is c[3]}


def _post_polars_datetime(self, s, a, calls):
    c = _only(calls, "pl.Datetime")
    tu = a["time_unit"]
    ok = c is not None and not c[1] and c[2].get("time_zone") is a["time_zone"] and s.attrs["type"] is c[3]
    if c is not None:
        ok = ok and ((set(c[2]) == {"time_zone"}) if tu is None else (set(c[2]) == {"time_zone", "time_unit"} and c[2]["time_unit"] is tu))
    return {"type_is_pl_Datetime_of_time_zone_and_time_unit": ok, "time_zone_agnostic_flag_stored": s.attrs.get("time_zone_agnostic") is False}


def _post_polars_native(native, how):
    """the boxed type is the native type INSTANCE built from exactly the constructor's parameters (never the bare native class: the
    class and its instances compare equal in polars but hash differently, so `Engine.dtype(pl.X)` and `Engine.dtype(pl.X(...))`
    would be equal and differently hashed)"""

    def post(self, s, a, calls):
        c = _only(calls, native)
        args, kw = how(a)
        ok = c is not None and len(c[1]) == len(args) and all(x is y for x, y in zip(c[1], args)) and set(c[2]) == set(kw) and all(c[2][k] is v for k, v in kw.items())
        out = {f"type_is_{native.replace('.', '_')}_of_the_parameters": ok and s.attrs["type"] is c[3]}
        for k, v in a.items():
            if k not in ("self", "self_") and k in s.attrs0 or k in ("precision", "scale", "ordering", "categories"):
                if k in a and k not in ("self", "self_"):
                    out[f"parameter_{k}_stored"] = s.attrs.get(k) is v
        return out

    return post


def gen_polars_decimal(rng):
    import polars as pl

    from pandera.engines import polars_engine as PL

    prec = rng.randrange(1, 39)
    scale = rng.randrange(0, prec + 1)
    return PL.Engine, PL.Decimal(prec, scale), False, pl.Decimal(precision=prec, scale=scale), f"polars Decimal({prec}, {scale})"


def gen_polars_timedelta(rng):
    import polars as pl

    from pandera.engines import polars_engine as PL

    unit = rng.choice(["ms", "us", "ns"])
    return PL.Engine, PL.Timedelta(time_unit=unit), False, pl.Duration(unit), f"polars Timedelta({unit!r})"


def gen_polars_categorical(rng):
    import polars as pl

    from pandera.engines import polars_engine as PL

    if rng.random() < 0.3:
        # the default spelling: the bare native class and a native instance must resolve to one equal, equally hashed type
        return PL.Engine, PL.Categorical(), False, rng.choice([pl.Categorical, pl.Categorical()]), "polars Categorical()"
    o = rng.choice(["physical", "lexical"])
    return PL.Engine, PL.Categorical(ordering=o), False, pl.Categorical(ordering=o), f"polars Categorical({o!r})"


def gen_pandas_string(rng):
    import pandas as pd

    from pandera.engines import pandas_engine as PE

    storage = rng.choice(["python", "pyarrow"])
    return PE.Engine, PE.STRING(storage=storage), True, pd.StringDtype(storage), f"pandas STRING(storage={storage!r})"


def _post_pandas_string(self, s, a, calls):
    c = _only(calls, "pd.StringDtype")
    return {"type_is_StringDtype_of_the_storage": c is not None and len(c[1]) == 1 and c[1][0] is s.attrs0["storage"] and not c[2] and s.attrs["type"] is c[3],
            "storage_kept": s.attrs["storage"] is s.attrs0["storage"]}


def gen_polars_enum(rng):
    import polars as pl

    from pandera.engines import polars_engine as PL

    cats = rng.sample(["a", "b", "c", "d", "e f", "Ü"], rng.randrange(0, 5))
    return PL.Engine, PL.Enum(cats), False, pl.Enum(cats), f"polars Enum({cats!r})"


def _family(name, target, params, gen, call=None, post=None):
    class F(_Family):
        pass

    F.post = post

    F.target = target
    F.params = params
    F.__name__ = "Family_" + name
    F.__doc__ = _Family.__doc__
    if call is not None:
        F.call_target = call
    if gen is not None:
        F.bounded_standin = staticmethod(lambda seed=0, tier="quick", _g=gen, _n=name, _t=target: _run_family(_n, _t, 500, _g, seed=seed, tier=tier))
    return F


def _ref(modname, clsname, **fields):
    import importlib

    return T.Ref(getattr(importlib.import_module(modname), clsname), **fields)


PE_, PL_, PS_ = "pandera.engines.pandas_engine", "pandera.engines.polars_engine", "pandera.engines.pyspark_engine"

FAMILIES = [
    _family("pandas_datetime_tz", f"{PE_}:DateTime.__post_init__", dict(self=_ref(PE_, "DateTime", tz=T.Opt(T.Any), unit=T.Any)), gen_pandas_datetime,
            call=lambda self, I, fn, a: I.call(fn, [a["self"]], {}), post=_post_pandas_datetime),
    _family("pandas_category", f"{PE_}:Category.__init__", dict(self=_ref(PE_, "Category"), categories=T.Any, ordered=T.Bool), gen_pandas_category,
            call=lambda self, I, fn, a: I.call(fn, [a["self"], a["categories"], a["ordered"]], {}), post=_post_pandas_category),
    _family("decimal_precision_scale", f"{PS_}:Decimal.__init__", dict(self=_ref(PS_, "Decimal"), precision=T.Int, scale=T.Int), gen_decimal,
            call=lambda self, I, fn, a: I.call(fn, [a["self"], a["precision"], a["scale"]], {}), post=_post_pyspark_decimal),
    _family("pyarrow_temporal", f"{PE_}:ArrowTimestamp.__post_init__", dict(self=_ref(PE_, "ArrowTimestamp", tz=T.Any, unit=T.Any)), gen_arrow_temporal,
            call=lambda self, I, fn, a: I.call(fn, [a["self"]], {}), post=_post_arrow_timestamp),
    _family("polars_temporal", f"{PL_}:DateTime.__init__", dict(self=_ref(PL_, "DateTime"), time_zone=T.Any, time_unit=T.Opt(T.Any)), gen_polars_temporal,
            call=lambda self, I, fn, a: I.call(fn, [a["self"], False, a["time_zone"], a["time_unit"]], {}), post=_post_polars_datetime),
    _family("pandas_string_storage", f"{PE_}:STRING.__post_init__", dict(self=_ref(PE_, "STRING", storage=T.OneOf("python", "pyarrow"))), gen_pandas_string,
            call=lambda self, I, fn, a: I.call(fn, [a["self"]], {}), post=_post_pandas_string),
    _family("polars_decimal", f"{PL_}:Decimal.__init__", dict(self=_ref(PL_, "Decimal"), precision=T.Int, scale=T.Int), gen_polars_decimal,
            call=lambda self, I, fn, a: I.call(fn, [a["self"], a["precision"], a["scale"]], {}),
            post=_post_polars_native("pl.Decimal", lambda a: ((), {"precision": a["precision"], "scale": a["scale"]}))),
    _family("polars_timedelta", f"{PL_}:Timedelta.__init__", dict(self=_ref(PL_, "Timedelta"), time_unit=T.Any), gen_polars_timedelta,
            call=lambda self, I, fn, a: I.call(fn, [a["self"], a["time_unit"]], {}), post=_post_polars_native("pl.Duration", lambda a: ((a["time_unit"],), {}))),
    _family("polars_categorical", f"{PL_}:Categorical.__init__", dict(self=_ref(PL_, "Categorical"), ordering=T.Opt(T.Any)), gen_polars_categorical,
            call=lambda self, I, fn, a: I.call(fn, [a["self"], a["ordering"]], {}), post=_post_polars_native("pl.Categorical", lambda a: ((), {"ordering": a["ordering"]}))),
    _family("polars_enum", f"{PL_}:Enum.__init__", dict(self=_ref(PL_, "Enum"), categories=T.Any), gen_polars_enum,
            call=lambda self, I, fn, a: I.call(fn, [a["self"], a["categories"]], {}), post=_post_polars_native("pl.Enum", lambda a: ((), {"categories": a["categories"]}))),
]

CONTRACTS = FAMILIES


# The constructor contracts above now decide parameter forwarding symbolically; what the NATIVE constructors then do with the parameters
# (interning, normalisation of time zones, printed names) stays a library fact: the run-time contract on the real classes keeps running
# on every invocation as a bounded obligation of its own (never counted as proved).
def _bounded_family(F):
    def run(seed=0, tier="quick"):
        return F.bounded_standin(seed=seed, tier=tier)

    run.__name__ = "bounded_" + F.__name__.lower()
    return run


BOUNDED = [_bounded_family(F) for F in FAMILIES if getattr(F, "bounded_standin", None) is not None]
