"""C05 bounded run-time contract (never counted as proof): the property itself over generated operation histories.

For generated pandas schemas S and random histories h of NON-transforming public operations (validate passing / failing data,
eager and lazy; to_yaml; to_script; schema statistics; drawing examples; repr; ==; copy.copy) : S == snapshot(S) after every
step, and the verdict of S on three probe frames is the same at every point of the history.
Bound: schemas <= 3 columns (int/float/str, built-in checks, nullable/unique/coerce/regex flags, optional Index), histories of
<= 6 operations.  Configurations covered by an open finding (MultiIndex with a coercing level) are not generated."""
import copy
import random
import warnings


def bounded_operation_histories(seed=0, tier="quick"):
    import pandas as pd
    import pandera as pa
    from pandera.io import pandas_io
    from pandera.schema_statistics import pandas as stats

    warnings.simplefilter("ignore")
    rng = random.Random(seed)
    n_cases = 40 if tier == "quick" else 600

    def make_schema():
        cols = {}
        for name in rng.sample(["a", "b", "c"], rng.randint(1, 3)):
            dt = rng.choice([int, float, str])
            checks = []
            if dt is not str and rng.random() < 0.6:
                checks.append(rng.choice([pa.Check.ge(0), pa.Check.in_range(0, 10), pa.Check.isin([1, 2, 3])]))
            if dt is str and rng.random() < 0.5:
                checks.append(pa.Check.str_length(1, 3))
            cols[name] = pa.Column(dt, checks, nullable=rng.random() < 0.3, unique=rng.random() < 0.2, coerce=rng.random() < 0.4, required=rng.random() < 0.8)
        if rng.random() < 0.25:
            cols["^r_.*$"] = pa.Column(int, pa.Check.ge(0), regex=True, required=False)
        index = pa.Index(int, pa.Check.ge(0), name="idx") if rng.random() < 0.3 else None
        uniq = None
        plain = [c for c in cols if not c.startswith("^")]
        if len(plain) >= 2 and rng.random() < 0.3:
            uniq = plain[:2]
        return pa.DataFrameSchema(cols, index=index, unique=uniq, strict=rng.choice([False, True]), coerce=rng.random() < 0.2)

    def frame(schema, good):
        data = {}
        n = 3
        for name, col in schema.columns.items():
            if name.startswith("^"):
                name = "r_1"
            kind = str(col.dtype)
            if "int" in kind:
                vals = [1, 2, 3]
            elif "float" in kind:
                vals = [1.0, 2.0, 3.0]
            else:
                vals = ["x", "yy", "zzz"]
            if not good:
                vals = [-5, -6, -7] if "str" not in kind and "object" not in kind else ["toolong!", "", "q"]
            data[name] = vals
        df = pd.DataFrame(data)
        if schema.index is not None:
            df.index = pd.Index([0, 1, 2] if good else [-1, -2, -3], name="idx")
        return df

    def verdicts(schema, probes):
        out = []
        for p in probes:
            try:
                schema.validate(p)
                out.append("accept")
            except (pa.errors.SchemaError, pa.errors.SchemaErrors):
                out.append("reject")
            except Exception as e:  # noqa
                out.append("raised " + type(e).__name__)
        return out

    ops = ["validate_good", "validate_bad_eager", "validate_bad_lazy", "to_yaml", "to_script", "statistics", "example", "repr", "eq", "copy"]
    for case in range(n_cases):
        S = make_schema()
        probes = [frame(S, True), frame(S, False), frame(S, True).iloc[:0]]
        # warm-up: the first validation registers back ends / dispatcher entries (class-level, not schema state)
        verdicts(S, probes[:1])
        snap = copy.deepcopy(S)
        v0 = verdicts(S, probes)
        hist = [rng.choice(ops) for _ in range(rng.randint(1, 6))]
        for step, op in enumerate(hist):
            try:
                if op == "validate_good":
                    S.validate(frame(S, True))
                elif op == "validate_bad_eager":
                    S.validate(frame(S, False))
                elif op == "validate_bad_lazy":
                    S.validate(frame(S, False), lazy=True)
                elif op == "to_yaml":
                    S.to_yaml()
                elif op == "to_script":
                    pandas_io.to_script(S)
                elif op == "statistics":
                    stats.get_dataframe_schema_statistics(S)
                elif op == "example":
                    S.example(size=2)
                elif op == "repr":
                    repr(S), str(S)
                elif op == "eq":
                    S == snap
                elif op == "copy":
                    copy.copy(S)
            except Exception:  # noqa  (outcomes of the operations are other properties' business)
                pass
            same = S == snap
            v = verdicts(S, probes)
            if not same or v != v0:
                return {"examples": case + 1, "bound": "<=3 columns, <=6 operations", "failing_input": {"schema": repr(snap)[:600], "history": hist[: step + 1]},
                        "observed": {"schema_equals_snapshot": bool(same), "verdicts_before": v0, "verdicts_after": v}}
    return {"examples": n_cases, "bound": f"{n_cases} generated schemas, histories of <= 6 non-transforming operations, 3 probe frames", "failing_input": None}


BOUNDED = [bounded_operation_histories]
