"""C17 / C06 (error channel): whoever builds a SchemaErrors for a data container finds the report back end of that container.

`SchemaErrors(schema, schema_errors, data)` asks `schema.get_backend(data)` for the back end that builds the report.  validate does so
with the object it checked; the decorators (check_types with a Union whose alternatives all reject, check_io) do so with the
CALLER's object.  Every container type a schema's `validate` accepts must therefore have a registered back end - otherwise the
documented SchemaErrors turns into BackendNotFoundError while it is being constructed.

structural.report_backend_registered_for_every_accepted_container/<schema class>:<container type>   (enumerated on the live registries,
in a fresh interpreter: pandas DataFrame / Series, polars DataFrame / LazyFrame)
"""
import json
import os
import subprocess
import sys

HERE = os.path.dirname(os.path.dirname(os.path.abspath(__file__)))

PROBE = r'''
import json, sys, warnings
warnings.simplefilter("ignore")
import pandas as pd, polars as pl
import pandera as pa, pandera.polars as pp
out = []
cases = [("pandas DataFrameSchema", pa.DataFrameSchema({"a": pa.Column(int)}), [pd.DataFrame({"a": [1]})]),
         ("pandas SeriesSchema", pa.SeriesSchema(int), [pd.Series([1])]),
         ("polars DataFrameSchema", pp.DataFrameSchema({"a": pp.Column(int)}), [pl.DataFrame({"a": [1]}), pl.LazyFrame({"a": [1]})])]
for label, schema, containers in cases:
    for c in containers:
        try:
            schema.validate(c)
            accepted = True
        except Exception as e:
            accepted = False
        try:
            schema.get_backend(c)
            ok, note = True, "registered"
        except Exception as e:
            ok, note = False, f"{type(e).__name__}"
        out.append({"oid": f"structural.report_backend_registered_for_every_accepted_container/{label}:{type(c).__name__}", "ok": ok or not accepted,
                    "note": f"validate accepts a {type(c).__module__.split('.')[0]}.{type(c).__name__}: {accepted}; get_backend: {note}"})
json.dump(out, sys.stdout)
'''


def report_backends():
    env = dict(os.environ)
    env["PYTHONPATH"] = os.environ.get("PANDERA_REPO", "/repo")
    p = subprocess.run(["/venv/bin/python", "-c", PROBE], capture_output=True, text=True, cwd="/tmp", env=env, timeout=600)
    if p.returncode != 0:
        raise RuntimeError("report back end probe failed: " + p.stderr[-800:])
    recs = json.loads(p.stdout[p.stdout.index("["):])
    for r in recs:
        r["backend"] = "enumeration"
    return recs


def _replay(rec):
    def thunk():
        """check_types with a Union whose alternatives all reject a polars DataFrame: a SchemaError / SchemaErrors, not BackendNotFoundError"""
        import warnings
        from typing import Union

        import polars as pl
        import pandera as pa
        import pandera.polars as pp
        from pandera.typing.polars import DataFrame

        warnings.simplefilter("ignore")

        class A(pp.DataFrameModel):
            a: int = pp.Field(gt=0)

        class B(pp.DataFrameModel):
            b: int

        @pa.check_types
        def f(x: Union[DataFrame[A], DataFrame[B]]):
            return 1

        try:
            f(pl.DataFrame({"c": [1]}))
            got = "returned"
        except (pa.errors.SchemaError, pa.errors.SchemaErrors) as e:
            got = type(e).__name__
        except Exception as e:  # noqa: BLE001
            got = f"leaked {type(e).__name__}"
        return got.startswith("leaked") or got == "returned", {"f(frame no alternative accepts)": got}

    return thunk


report_backends.concretize = _replay

STRUCTURAL = [report_backends]
CONTRACTS = []
