"""C02 / C05 / C10 (pandas container): DataFrameSchemaBackend._coerce_dtype_helper.

For EVERY column of the schema (loop cut with a generic iteration, the error handler in an arbitrary state):
  * coercion applies  <=>  (column.coerce or schema.coerce) and schema.dtype is None and the column is in the frame
  * when it applies the column is coerced exactly once, by a COPY of the column schema with coerce switched on (the shared
    column schema is never written), whatever errors earlier columns produced (a failing column must not hide later ones)
  * a failing coercion offers exactly its SchemaError to the handler and leaves the column as it was
  * when it does not apply nothing is coerced
After the loop: errors collected  =>  SchemaErrors carrying exactly the handler's errors.
"""
import z3

from pandera.api.base.error_handler import ErrorHandler
from pandera.api.dataframe.components import ComponentSchema
from pandera.errors import SchemaError, SchemaErrors
from pyvc import core, types as T
from pyvc.core import And, Iff, Implies, Not, Or, PyExc, SAny, SBool, cur, py_eq
from pyvc.heap import Obj
from pyvc.interp import OtherException
from pyvc.spec import Contract, LoopSpec
from pyvc.theories import pandas_lite as PL
from pyvc.values import SymDict, SymSeq
from contracts.util import fld, fld0
from contracts.C05_component_restore import column_ref

DF = "pandera.backends.pandas.container:DataFrameSchemaBackend"


class CoerceDtypeHelper(Contract):
    target = f"{DF}._coerce_dtype_helper"
    raises = (SchemaErrors,)
    # index: the schema's index is coerced after the columns - a single Index fails with ONE SchemaError (collected), a MultiIndex with
    # SchemaErrors (its levels' errors), which the helper lets through: on THAT exit too nothing of the schema may be left changed (C05/C06)
    split = {"schema_coerce": [True, False], "index": ["none", "single", "multi"]}

    def setup(self, I):
        PL.install(I)

        def coerce_dtype(I, self_obj, check_obj):
            p = cur()
            p.ghost.setdefault("coerce_calls", []).append((self_obj, check_obj, fld(self_obj, "coerce")))
            k = p.choose([("returns", None), ("SchemaError", None)], "column.coerce_dtype")
            if k == 1:
                e = I.make_exc(SchemaError)
                p.ghost["coerce_error"] = e
                raise PyExc(e)
            r = PL.SeriesVal.fresh("coerced_column", "real")
            r.pre = False
            p.ghost["coerce_result"] = r
            return r

        I.models[id(ComponentSchema.coerce_dtype)] = coerce_dtype
        from pandera.api.dataframe.container import DataFrameSchema as _DFS

        def multiindex_coerce_dtype(I, self_obj, check_obj):
            p = cur()
            p.ghost.setdefault("index_coerce_calls", []).append((self_obj, check_obj))
            if p.choose([("returns", None), ("SchemaErrors", None)], "multiindex.coerce_dtype") == 1:
                e = I.make_exc(SchemaErrors)
                p.ghost["multiindex_errors"] = e
                raise PyExc(e)
            return SAny(name="coerced_multiindex")

        for klass in {_DFS} | {c for c in type.mro(__import__("pandera.api.pandas.components", fromlist=["MultiIndex"]).MultiIndex) if "coerce_dtype" in c.__dict__}:
            if "coerce_dtype" in klass.__dict__ and klass is not ComponentSchema:
                I.models[id(klass.__dict__["coerce_dtype"])] = multiindex_coerce_dtype

    def make_args(self):
        from pandera.backends.pandas.container import DataFrameSchemaBackend as B

        cols = SymDict.fresh("schema.columns", T.Label, column_ref(regex=T.Const(False)))
        schema = T.Ref(None, coerce=T.Const(self.fixed.get("schema_coerce", False)), dtype=T.Const(None), name=T.Opt(T.Label)).fresh("schema")
        schema.attrs["columns"] = cols
        schema.attrs0["columns"] = cols
        from contracts.C05_component_restore import index_ref, multiindex_ref

        kind = self.fixed.get("index", "none")
        idx = None if kind == "none" else (index_ref().fresh("schema.index") if kind == "single" else multiindex_ref().make("schema.index") if hasattr(multiindex_ref(), "make") else None)
        if kind == "multi" and idx is None:
            idx = T.fresh_value(multiindex_ref(), "schema.index")
        schema.attrs["index"] = idx
        schema.attrs0["index"] = idx
        obj = PL.FrameVal.fresh("obj")
        obj.pre = False  # the helper is handed the working copy (ownership: C04 ContainerValidate)
        return {"self": T.Ref(B).fresh("self"), "obj": obj, "schema": schema}

    def call_target(self, I, fn, a):
        return I.call(fn, [a["self"], a["obj"], a["schema"]], {})

    @property
    def loops(self):
        def invariant(I, fr, k, phase):
            p = cur()
            if phase == "assume":
                p.ghost["coerce_calls"] = []
                p.ghost.pop("coerce_error", None)
                p.ghost.pop("coerce_result", None)
                return {}
            if phase == "init":
                return {}
            schema, obj = fr.locals["schema"], fr.locals["obj"]
            col, colname = fr.locals["col_schema"], fr.locals["colname"]
            calls = p.ghost["coerce_calls"]
            applies = core.And(core.Or(fld0(col, "coerce"), fld0(schema, "coerce")), obj.has_col(colname))
            app = applies if isinstance(applies, bool) else cur().decide(applies, "coercion applies")
            out = {}
            if not app:
                out["nothing_coerced_when_it_does_not_apply"] = calls == []
                return out
            out["coerced_exactly_once_whatever_happened_before"] = len(calls) == 1
            if len(calls) != 1:
                return out
            who, what, coerce_flag = calls[0]
            out["by_a_copy_with_coerce_on"] = who is not col and isinstance(who, Obj) and who.cls is col.cls and coerce_flag is True
            out["on_this_column_of_the_frame"] = isinstance(what, PL.SeriesVal) and what.space is obj.space
            h = [o for o in p.objects if o.cls is ErrorHandler][-1]
            se = fld(h, "_schema_errors")
            offered = list(se.appended) if isinstance(se, SymSeq) else None
            key = colname.z.get_id() if hasattr(colname, "z") else colname
            if "coerce_error" in p.ghost:
                out["failing_coercion_offers_exactly_its_error"] = offered == [p.ghost["coerce_error"]]
                out["failing_column_left_as_it_was"] = obj.overrides.get(key) is what
            else:
                out["nothing_offered_when_coercion_succeeds"] = offered == []
                out["coerced_column_stored"] = obj.overrides.get(key) is p.ghost.get("coerce_result")
            return out

        return {0: LoopSpec(invariant=invariant)}

    def ensures(self, result, old, self_, obj, schema):
        h = [o for o in cur().objects if o.cls is ErrorHandler]
        return {"returns_the_frame": result is obj, "only_without_errors": len(h) == 1 and Not(fld(h[0], "_collected_errors").slen() > 0)
                if isinstance(fld(h[0], "_collected_errors"), SymSeq) else True}

    def on_raise(self, exc, old, self_, obj, schema):
        if exc is cur().ghost.get("multiindex_errors"):
            # the collected errors of the MultiIndex levels: handed on as they are (the container's parser stage collects them)
            return {"the_multiindex_errors_pass_through_unchanged": True}
        h = [o for o in cur().objects if o.cls is ErrorHandler]
        return {"carries_exactly_the_collected_errors": len(h) == 1 and exc.attrs.get("schema_errors") is fld(h[0], "_schema_errors"),
                "carries_the_frame": exc.attrs.get("data") is obj}


def _helper_replay(self, rec):
    def thunk():
        """dataframe-level coerce=True over components that do not coerce themselves, with an uncoercible column / index level:
        after the failing validation the schema is what it was"""
        import copy
        import warnings

        import pandas as pd
        import pandera as pa

        warnings.simplefilter("ignore")
        obs, bad = {}, False
        cases = {
            "MultiIndex level": (pa.DataFrameSchema({"a": pa.Column(int)}, coerce=True, index=pa.MultiIndex([pa.Index(int, name="i"), pa.Index(str, name="j")])),
                                 pd.DataFrame({"a": [1]}, index=pd.MultiIndex.from_tuples([("x", "p")], names=["i", "j"]))),
            "single Index": (pa.DataFrameSchema({"a": pa.Column(int)}, coerce=True, index=pa.Index(int, name="i")), pd.DataFrame({"a": [1]}, index=pd.Index(["x"], name="i"))),
            "column": (pa.DataFrameSchema({"a": pa.Column(int)}, coerce=True), pd.DataFrame({"a": ["x"]})),
        }
        for name, (schema, df) in cases.items():
            for lazy in (False, True):
                snapshot = copy.deepcopy(schema)
                try:
                    schema.validate(df, lazy=lazy)
                    got = "accepted"
                except (pa.errors.SchemaError, pa.errors.SchemaErrors):
                    got = "rejected"
                except Exception as e:  # noqa: BLE001
                    got = "leaked " + type(e).__name__
                flags = {"index.coerce": getattr(schema.index, "coerce", None), "a.coerce": schema.columns["a"].coerce}
                was = {"index.coerce": getattr(snapshot.index, "coerce", None), "a.coerce": snapshot.columns["a"].coerce}
                if got != "rejected" or schema != snapshot or flags != was:
                    bad = True
                    obs[f"uncoercible {name}, lazy={lazy}"] = {"outcome": got, "coerce flags after": flags, "before": was}
        return bad, obs or "a failed dataframe-level coercion leaves the schema as it was"

    return thunk


CoerceDtypeHelper.concretize = _helper_replay

CONTRACTS = [CoerceDtypeHelper]
