"""C17 - the helpers between the decorators: _unwrap_fn, _get_fn_argnames, _parse_schema_error, _handle_schema_error;
the lemmas that tie the wrapper contracts to the property; the bounded run-time contract over real `inspect` behaviour.
"""
import functools
import inspect

import z3

from pandera.errors import SchemaError, SchemaErrorReason
from pyvc import core, types as T
from pyvc.core import And, Iff, Implies, Not, SAny, SBool, cur, py_eq
from pyvc.heap import Obj
from pyvc.spec import Contract, Lemma
from pyvc.theories import pyfunc as PF

DEC = "pandera.decorators"


# ---------------------------------------------------------------------------------------
# error context
# ---------------------------------------------------------------------------------------


def schema_error_ref():
    return T.Ref(SchemaError, failure_cases=T.Any, check=T.Any, check_index=T.Any, reason_code=T.EnumOf(SchemaErrorReason, [
        SchemaErrorReason.DATAFRAME_CHECK, SchemaErrorReason.WRONG_DATATYPE, SchemaErrorReason.COLUMN_NOT_IN_DATAFRAME]), args=T.Any)


class ParseSchemaError(Contract):
    """_parse_schema_error builds (does not raise) a SchemaError that names the decorator and the function and carries the
    schema, the validated object, the GIVEN reason code and the original's failure cases / check / check index."""

    target = f"{DEC}:_parse_schema_error"
    params = dict(decorator_name=T.OneOf("check_input", "check_output", "check_types"), schema=T.Any, data_obj=T.Any,
                  schema_error=schema_error_ref(), reason_code=T.EnumOf(SchemaErrorReason, [SchemaErrorReason.INVALID_TYPE, SchemaErrorReason.DATAFRAME_CHECK]))

    def make_args(self):
        a = super().make_args()
        k = cur().choose([("function", None), ("bound_method", None)], "fn")
        f = PF.make_fn("user_fn", ["self", "a"])
        if k == 1:
            f = type("Owner", (), {"user_fn": f})().user_fn
        return dict(decorator_name=a["decorator_name"], fn=f, schema=a["schema"], data_obj=a["data_obj"], schema_error=a["schema_error"],
                    reason_code=a["reason_code"])

    def call_target(self, I, fn, a):
        return I.call(fn, [a[k] for k in ("decorator_name", "fn", "schema", "data_obj", "schema_error", "reason_code")], {})

    def ensures(self, result, old, decorator_name, fn, schema, data_obj, schema_error, reason_code):
        from contracts.util import fld0

        ok = isinstance(result, Obj) and result.cls is SchemaError
        out = {"returns_a_schema_error": ok}
        if ok:
            out["carries_schema_and_object"] = result.attrs["schema"] is schema and result.attrs["data"] is data_obj
            out["carries_the_given_reason_code"] = result.attrs["reason_code"] is reason_code
            out["keeps_failure_cases_check_and_index"] = (result.attrs["failure_cases"] is fld0(schema_error, "failure_cases")
                                                          and result.attrs["check"] is fld0(schema_error, "check")
                                                          and result.attrs["check_index"] is fld0(schema_error, "check_index"))
            msg = result.attrs["args"][0]
            parts = [p for p in getattr(msg, "parts", ()) if isinstance(p, str)]
            text = "".join(parts) if parts else str(msg)
            want_name = "Owner.user_fn" if inspect.ismethod(fn) else "user_fn"
            out["message_names_decorator_and_function"] = decorator_name in text and want_name in text
        return out


class HandleSchemaError(Contract):
    """_handle_schema_error never returns: it raises the SchemaError of _parse_schema_error with the ORIGINAL's reason code,
    chained to the original (`raise ... from schema_error`)."""

    target = f"{DEC}:_handle_schema_error"
    params = dict(decorator_name=T.OneOf("check_input", "check_output"), schema=T.Any, data_obj=T.Any, schema_error=schema_error_ref())
    raises = (SchemaError,)

    def make_args(self):
        a = super().make_args()
        a["fn"] = PF.make_fn("user_fn", ["a"])
        return a

    def call_target(self, I, fn, a):
        return I.call(fn, [a[k] for k in ("decorator_name", "fn", "schema", "data_obj", "schema_error")], {})

    def ensures(self, result, old, **a):
        return {"never_returns": False}

    def on_raise(self, exc, old, decorator_name, fn, schema, data_obj, schema_error):
        from contracts.util import fld0

        return {"raises_a_new_schema_error": exc.cls is SchemaError and exc is not schema_error,
                "chained_to_the_original": exc.attrs.get("__cause__") is schema_error,
                "keeps_the_original_reason_code": exc.attrs.get("reason_code") is fld0(schema_error, "reason_code"),
                "carries_schema_and_object": exc.attrs.get("schema") is schema and exc.attrs.get("data") is data_obj}


# ---------------------------------------------------------------------------------------
# _unwrap_fn / _get_fn_argnames: decided enumeration over live function objects (real inspect)
# ---------------------------------------------------------------------------------------


def _zoo():
    def plain(a, b=1):
        return a

    def star(a, *rest, k=0, **kw):
        return a

    class Meta(type):
        def from_meta(cls, a, b):  # regular method on a metaclass == classmethod of its instances
            return a

        def odd_name(kls, a):
            return a

    class K(metaclass=Meta):
        def method(self, a, b=1):
            return a

        @classmethod
        def cmethod(cls, a):
            return a

        @staticmethod
        def smethod(a, b):
            return a

        async def amethod(self, a):
            return a

    def wrap(f):
        @functools.wraps(f)
        def w(*args, **kwargs):
            return f(*args, **kwargs)

        return w

    k = K()
    base = {"plain": plain, "star": star, "function_in_class_body": K.__dict__["method"], "bound_method": k.method, "classmethod": K.cmethod,
            "classmethod_via_instance": k.cmethod, "staticmethod": K.smethod, "metaclass_method": K.from_meta, "metaclass_method_odd_name": K.odd_name,
            "async_method_function": K.__dict__["amethod"], "bound_async_method": k.amethod}
    zoo = dict(base)
    for n, f in base.items():
        zoo[f"wraps({n})"] = wrap(f)
        zoo[f"wraps(wraps({n}))"] = wrap(wrap(f))
    return zoo


def callers_positional_names(fn):
    """oracle: the positional parameter names a CALLER of fn supplies - the signature of the innermost function with the
    implicitly bound first argument (bound methods: already removed by inspect.signature) and a leading self / cls removed"""
    inner = inspect.unwrap(fn)
    names = [p.name for p in inspect.signature(inner).parameters.values() if p.kind in (p.POSITIONAL_ONLY, p.POSITIONAL_OR_KEYWORD)]
    if names and names[0] in ("self", "cls"):
        names = names[1:]
    return names


def helper_functions_structural():
    from pandera.decorators import _get_fn_argnames, _unwrap_fn

    recs = []
    for name, fn in _zoo().items():
        got = _unwrap_fn(fn)
        recs.append({"oid": f"{DEC}:_unwrap_fn/post.returns_the_innermost_wrapped_function", "ok": got is inspect.unwrap(fn) and not hasattr(got, "__wrapped__"),
                     "note": name, "path": (name,), "witness": {"fn": name, "got": repr(got)}})
        try:
            names = _get_fn_argnames(fn)
        except Exception as e:  # noqa: BLE001
            names = f"{type(e).__name__}: {e}"
        want = callers_positional_names(fn)
        recs.append({"oid": f"{DEC}:_get_fn_argnames/post.names_the_callers_positional_parameters", "ok": names == want, "note": name, "path": (name,),
                     "witness": {"fn": name, "got": names, "want": want}})
    return recs


# ---------------------------------------------------------------------------------------
# lemmas: from the wrapper contracts to the property
# ---------------------------------------------------------------------------------------


class GateLemma(Lemma):
    """From the CheckInput contract clauses to the property's 'body executed <=> inputs accepted':
    on every exit of the wrapper   validates_exactly_once  /\\  body_runs_only_after_validation_returned  /\\
    (normal exit or body exception => body_runs_exactly_once)  /\\  (other exit => body_not_run /\\ validation failed).
    With  acc := 'the one validate call returned'  and  ran := 'the body was called':  ran <=> acc."""

    params = dict(acc=T.Bool, ran=T.Bool, exit_is_body_outcome=T.Bool)

    def statement(self, acc, ran, exit_is_body_outcome):
        hyp = And(Implies(ran, acc),  # body_runs_only_after_validation_returned
                  Implies(exit_is_body_outcome, ran),  # post./exit(from body). body_runs_exactly_once
                  Implies(Not(exit_is_body_outcome), And(Not(ran), Not(acc))))  # other_exceptions_come_from_validation, body_not_run_when_validation_fails
        return {"body_executed_iff_inputs_accepted": Implies(hyp, Iff(ran, acc))}


class StackingLemma(Lemma):
    """check_io / stacked decorators with ANY number n of input checks: each layer i runs the next layer iff its own validation
    accepted (CheckInput contract, layer-wise), so the body runs iff ALL n accepted.  Induction step, for symbolic n:
    runs(k) = 'layer k..n-1 all entered'; runs(k+1) <=> runs(k) /\\ acc(k);   runs(0) = True  |-  runs(n) <=> forall i<n. acc(i)."""

    params = dict(n=T.Nat)

    def statement(self, n):
        p = cur()
        acc = z3.Function(p.fresh_name("acc"), z3.IntSort(), z3.BoolSort())
        runs = z3.Function(p.fresh_name("runs"), z3.IntSort(), z3.BoolSort())
        k = z3.Int(p.fresh_name("k"))
        i = z3.Int(p.fresh_name("i"))
        allacc = lambda m: z3.ForAll([i], z3.Implies(z3.And(i >= 0, i < m), acc(i)))
        step_def = z3.ForAll([k], z3.Implies(z3.And(k >= 0, k < n.z), runs(k + 1) == z3.And(runs(k), acc(k))))
        # induction on k: base and step of  P(k) := runs(k) <=> forall i<k. acc(i)
        base = z3.Implies(runs(0), runs(0) == allacc(z3.IntVal(0)))
        step = z3.Implies(z3.And(step_def, k >= 0, k < n.z, runs(k) == allacc(k)), runs(k + 1) == allacc(k + 1))
        return {"induction_base": SBool(z3.Implies(runs(0) == z3.BoolVal(True), runs(0) == allacc(z3.IntVal(0)))), "induction_step": SBool(step)}


class DesignationLemma(Lemma):
    """Designation equivalence.  The CheckInput contract is ONE specification
        spec(frame, d, opts): validate(frame[d], *opts) once; body(frame[d := validated]) ; result/exception of the body
    discharged separately for obj_getter None / int / str and for every call shape; it mentions neither the getter kind nor the
    call shape.  Hence two designations of the same parameter d, and two presentations (positional / keyword / method) of the
    same frame, satisfy the same spec with the same (deterministic) validate and body: they agree on what is validated, on what the
    body receives and on the outcome class.  Stated over uninterpreted validate / body functions."""

    params = dict(x=T.Any, rest=T.Any)

    def statement(self, x, rest):
        p = cur()
        U = core.U
        validate = z3.Function(p.fresh_name("validate"), U, U)
        body = z3.Function(p.fresh_name("body"), U, U, U)
        by = {k: body(validate(x.z), rest.z) for k in ("none", "int", "str")}  # each equals spec(frame, d, opts) by its contract
        return {"equivalent_designations_agree": SBool(z3.And(by["none"] == by["int"], by["int"] == by["str"]))}


CONTRACTS = [ParseSchemaError, HandleSchemaError]
LEMMAS = [GateLemma, StackingLemma, DesignationLemma]
STRUCTURAL = [helper_functions_structural]


# ---------------------------------------------------------------------------------------
# bounded (never counted as proof): the same gate / parsed / transparent contract evaluated at run time on the REAL decorators,
# REAL pandas objects and REAL descriptor kinds (classmethod, staticmethod, metaclass method, kw-only parameters) that the
# symbolic shapes do not enumerate.  Call shapes inside the open findings are skipped (they are replayed by findings/C17_*.py).
# ---------------------------------------------------------------------------------------


def bounded_real_signatures(seed=0, tier="quick"):
    import itertools
    import random

    import pandas as pd

    import pandera as pa
    from pandera import check_input, check_io, check_output

    rng = random.Random(seed)
    schema = pa.DataFrameSchema({"a": pa.Column(int, pa.Check.ge(0), coerce=True)})
    good = lambda: pd.DataFrame({"a": ["1", "2"]})  # accepted, and PARSED (coerced to int64)
    bad = lambda: pd.DataFrame({"a": [-1, 2]})
    log = []

    def body(tag):
        def f(*args, **kwargs):
            log.append((tag, args, kwargs))
            return ("result", tag)

        return f

    def build(kind, deco):
        """functions with the data argument `df` and two more parameters, in several descriptor kinds"""
        if kind == "plain":
            @deco
            def fn(df, x, y=0, *, k=None):
                return body(kind)(df, x, y, k=k)
            return fn, ()
        if kind == "kwonly_data":
            @deco
            def fn(x, *, df, k=None):
                return body(kind)(df, x, k=k)
            return fn, ()

        class Meta(type):
            @deco
            def meta_m(cls, df, x, y=0):
                return body(kind)(df, x, y)

        class K(metaclass=Meta):
            @deco
            def method(self, df, x, y=0):
                return body(kind)(df, x, y)

            @classmethod
            @deco
            def cmethod(cls, df, x, y=0):
                return body(kind)(df, x, y)

            @staticmethod
            @deco
            def smethod(df, x, y=0):
                return body(kind)(df, x, y)

        return {"method": K().method, "classmethod": K.cmethod, "classmethod_on_instance": K().cmethod, "staticmethod": K.smethod,
                "metaclass_method": K.meta_m}[kind], ()

    kinds = ["plain", "kwonly_data", "method", "classmethod", "classmethod_on_instance", "staticmethod", "metaclass_method"]
    decos = {"check_input(None)": lambda: check_input(schema), "check_input('df')": lambda: check_input(schema, "df"),
             "check_io(df=)": lambda: check_io(df=schema), "check_input('df',lazy)": lambda: check_input(schema, "df", lazy=True)}
    examples = 0
    bound = "7 descriptor kinds x 4 designations x 3 call shapes x {accepted, rejected} frames"
    for kind, (dname, mk) in itertools.product(kinds, decos.items()):
        if kind == "kwonly_data" and dname == "check_input(None)":
            continue  # the default designation is 'the first argument': df is not the first parameter here
        fn, _ = build(kind, mk())
        for shape, frame_ok in itertools.product(("all_positional", "df_keyword", "all_keyword"), (True, False)):
            if kind == "kwonly_data" and shape == "all_positional":
                continue
            df = good() if frame_ok else bad()
            x = rng.randint(0, 9)
            # full calls only (y passed): partial positional calls of methods are the open finding C17-method-arity-heuristic
            if shape == "all_positional":
                args, kwargs = (df, x, 5), {}
            elif shape == "df_keyword":
                args, kwargs = (), {"df": df, "x": x, "y": 5}
            else:
                args, kwargs = (), {"df": df, "x": x, "y": 5}
            if kind == "kwonly_data":
                args, kwargs = ((x,), {"df": df}) if shape == "df_keyword" else ((), {"df": df, "x": x})
            del log[:]
            examples += 1
            try:
                res = ("returned", fn(*args, **kwargs))
            except Exception as e:  # noqa: BLE001
                res = ("raised", type(e).__name__)
            case = {"kind": kind, "decorator": dname, "call": shape, "frame_accepted": frame_ok}
            if frame_ok:
                ok = res == ("returned", ("result", kind)) and len(log) == 1
                if ok:
                    got_df = log[0][1][0]
                    ok = str(got_df["a"].dtype) == "int64" and log[0][1][1] == x  # parsed object delivered, other argument unchanged
            else:
                want = "SchemaErrors" if "lazy" in dname else "SchemaError"
                ok = res == ("raised", want) and not log
            if not ok:
                return {"examples": examples, "bound": bound, "failing_input": case, "observed": {"outcome": res, "body_calls": len(log)}}
    return {"examples": examples, "bound": bound, "failing_input": None}


BOUNDED = [bounded_real_signatures]
