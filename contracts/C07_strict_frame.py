"""C07 - validation outcomes do not depend on thread interleaving.

Contracts cannot enumerate schedules; what they decide is the SUFFICIENT condition data-race freedom on pandera state:
no function on the validate call graph writes (even temporarily) to an object another thread can reach - the schema
graph, module globals.  Then, pandas/polars being thread-compatible on distinct data objects (assumed), each call's outcome
is a function of its own arguments, i.e. equal to its solo outcome under every interleaving.

So C07 = the C04/C05/C06 contracts re-checked with the STRICT frame (`strict_frame.no_write_to_shared_state`): a
mutate-then-revert passes the sequential frame but fails the strict one.  On the unchanged tree the pandas component
override, the column rename and the polars depth context are such writes: they are the known findings of C07 (each with a
callback-gated two-thread replay); every other function of the call graph must satisfy the strict frame.
"""
from contracts.C03_container_validate import ContainerValidate
from contracts.C03_series_validate import SeriesSchemaValidate
from contracts.C04_field_validate import ArrayValidate, IndexValidate
from contracts.C04_polars_api import CONTRACTS as POLARS_API
from contracts.C05_component_restore import ColumnValidateRestoresSchema, RunSchemaComponentChecks
from contracts.C02_coerce_helper import CoerceDtypeHelper
from contracts.C06_run_checks import ArrayCollect, ArrayRunChecks, ColumnRunChecks, ContainerRunChecks
from contracts.C05_multiindex_validate import MultiIndexValidate
from contracts.C05_polars_components import PolarsCollectSchemaComponents, PolarsRunSchemaComponentChecks


def strict(cls):
    return type("Strict_" + cls.__name__, (cls,), {"strict_frame": True, "__doc__": cls.__doc__})


CONTRACTS = [strict(c) for c in [ContainerValidate, SeriesSchemaValidate, ArrayValidate, IndexValidate, ColumnValidateRestoresSchema,
                                 RunSchemaComponentChecks, ArrayRunChecks, ColumnRunChecks, ContainerRunChecks, CoerceDtypeHelper, MultiIndexValidate, PolarsCollectSchemaComponents, PolarsRunSchemaComponentChecks] + list(POLARS_API)]
