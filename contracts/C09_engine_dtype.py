"""C09 (part 2) - resolution: engine.Engine.dtype (the resolution order), Engine._register_equivalents,
Engine.register_dtype, and the engine-specific entry points / dtype checks built on them.

Oracle: the property statement (idempotence: "resolving that result again returns an equal object";
"spellings documented as equivalent resolve to equal, equally-hashed objects"), the docstring of
Engine.register_dtype (":param equivalents: Equivalent scalar data type classes or non-parametrized data type
instances") and of Engine.dtype ("Convert input into a Pandera DataType object"; not understood -> TypeError).

`Engine.dtype` is verified for a GENERIC engine: the engine class is a heap object of metaclass `Engine` whose
equivalents table is a mapping of unknown content (`SymMapping`: every lookup forks hit / miss) and whose
singledispatch function is an arbitrary callable that returns some engine data type or raises KeyError /
ValueError / anything else.  So the proof covers every registry state of every engine.
"""
import typing

import z3

import pandera.dtypes as D
from pandera.engines import engine as ENG
from pyvc import core, types as T
from pyvc.core import And, Iff, Implies, Not, Or, SBool, SStr, cur, py_eq
from pyvc.heap import DictObj, Obj
from pyvc.interp import OtherException
from pyvc.spec import Contract
from pyvc.theories import dtype_lite as DL
from pyvc.values import SymCallable
from contracts.util import fld, fld0

E = "pandera.engines.engine:Engine"


# --- stand-ins for "the engine's own classes" (any engine: numpy / pandas / polars / pyspark / user defined) -------------


class BaseDT(D.DataType):
    __module__ = "c09_standins"  # program-side classes: instantiated by the interpreter, not run as theory code
    """the engine's base data type (numpy_engine.DataType, pandas_engine.DataType, ...)"""


class SubDT(BaseDT):
    __module__ = "c09_standins"  # program-side classes: instantiated by the interpreter, not run as theory code
    """a registered, default-constructible engine data type"""


class NeedsArgDT(BaseDT):
    __module__ = "c09_standins"  # program-side classes: instantiated by the interpreter, not run as theory code
    """an engine data type that cannot be default-constructed"""

    def __init__(self, required):  # pylint:disable=super-init-not-called
        self.required = required


class GenericDT(BaseDT):
    __module__ = "c09_standins"  # program-side classes: instantiated by the interpreter, not run as theory code
    """an engine data type registered for a python generic (pandas_engine.PythonList ...)"""

    def __init__(self, generic_type=None):  # pylint:disable=super-init-not-called
        self.generic_type = generic_type


class HookDT(BaseDT):
    __module__ = "c09_standins"
    """an engine data type that owns a parametrised-dtype hook (polars DateTime, pandas DatetimeTZ ..., pyspark Decimal)"""

    @classmethod
    def from_parametrized_dtype(cls, native: "Native"):
        return cls()


class InheritsHookDT(HookDT):
    __module__ = "c09_standins"
    """a user subclass of such a type that does NOT redefine the hook (it only overrides coerce, say)"""


class Native:
    __module__ = "c09_standins"  # program-side classes: instantiated by the interpreter, not run as theory code
    """a native dtype object (np.dtype('int64'), pd.Int64Dtype(), pl.Int64, pst.LongType()): not a pandera type,
    not a class, not a typing construct"""


def make_engine(base=(BaseDT,), registered_cls=SubDT):
    """a heap object that is an engine class: `_base_pandera_dtypes`, `_registry[cls]` = (dispatch, equivalents)"""
    eng = T.Ref(ENG.Engine, _base_pandera_dtypes=T.Const(tuple(base)), __name__=T.Const("AnEngine"), _registered_dtypes=T.Const(set())).fresh("cls")

    def registered(key, i):
        cls = GenericDT if key in (list, dict, tuple) else registered_cls
        return Obj(cls, f"registered{i}", pre=True)

    eq = DL.SymMapping("equivalents", registered)
    disp = SymCallable("dispatch", T.Ref(SubDT), raises=True, raise_classes=[KeyError, ValueError, OtherException])
    reg = T.Ref(ENG._DtypeRegistry, dispatch=T.Const(disp), equivalents=T.Const(eq)).fresh("registry")
    table = DictObj({eng: reg})
    table.pre = True
    eng.attrs["_registry"] = table
    eng.attrs0["_registry"] = table
    return eng, reg, eq, disp


KINDS = ["instance", "class", "class_bad_ctor", "alias", "native", "generic"]


class EngineDtype(Contract):
    """engine.Engine.dtype - the resolution order.

    * an instance of the engine's base type resolves to ITSELF (hence dtype(dtype(k)) is dtype(k), equal and equally
      hashed);
    * a class of the engine resolves to a default-constructed instance of exactly that class;
    * an alias / native object that is a key of the equivalents table resolves to THE registered object for that key
      (so two spellings registered together resolve to one object), without consulting the dispatcher;
    * anything else is what the dispatcher says for exactly that input;
    * the only exception is TypeError (or what a registered `from_parametrized_dtype` itself raised, other than
      KeyError/ValueError which mean "not understood"); the registry is never written.
    """

    target = f"{E}.dtype"
    raises = (TypeError, OtherException)
    split = {"kind": KINDS}
    params = dict(cls=T.Any, data_type=T.Any)

    def setup(self, I):
        DL.install(I)
        DL.install_str_like(I)

    def make_args(self):
        kind = self.fixed.get("kind", "alias")
        core.register_model_var("kind", lambda m, k=kind: k)
        eng, reg, eq, disp = make_engine()
        self._eq, self._disp = eq, disp
        if kind == "instance":
            dt = T.ClassOneOf(T.Ref(BaseDT), T.Ref(SubDT), T.Ref(GenericDT)).fresh("data_type")
        elif kind == "class":
            dt = SubDT
        elif kind == "class_bad_ctor":
            dt = NeedsArgDT
        elif kind == "alias":
            dt = T.fresh_value(T.Str, "data_type")
        elif kind == "native":
            dt = Obj(Native, "data_type", pre=True)
        else:
            dt = T.OneOf(typing.List[int], typing.Dict[str, int]).fresh("data_type")
        return {"cls": eng, "data_type": dt}

    def call_target(self, I, fn, a):
        return I.call(fn, [a["cls"], a["data_type"]], {})

    def _kind(self):
        return self.fixed.get("kind", "alias")

    def ensures(self, result, old, cls, data_type):
        kind, eq, disp = self._kind(), self._eq, self._disp
        out = {}
        if kind == "instance":
            out["idempotent_instance_resolves_to_itself"] = result is data_type
            out["no_table_lookup_needed"] = not eq.lookups and not disp.calls
            return out
        if kind == "class":
            out["class_resolves_to_its_default_instance"] = isinstance(result, Obj) and result.cls is data_type and not result.pre
            return out
        if kind == "class_bad_ctor":
            return {"uninstantiable_class_is_a_type_error": False}
        if kind == "generic":
            origin = typing.get_origin(data_type)
            hit = [v for k, v in eq.lookups if k is origin and v is not None]
            out["generic_looked_up_by_origin"] = len(eq.lookups) >= 1 and eq.lookups[0][0] is origin
            out["generic_resolves_to_registered_class_applied_to_it"] = bool(hit) and type(result) is hit[0].cls and getattr(result, "generic_type", None) is data_type
            return out
        # alias / native
        first = eq.lookups[0] if eq.lookups else None
        out["looked_up_under_the_given_key"] = first is not None and first[0] is data_type
        if first is not None and first[1] is not None:
            out["registered_key_resolves_to_the_registered_object"] = result is first[1]
            out["dispatcher_not_consulted_for_registered_keys"] = not disp.calls
        else:
            out["otherwise_the_dispatchers_answer_for_this_input"] = len(disp.calls) == 1 and disp.calls[0][0] == (data_type,) and \
                any(ev[0] == "callback" and ev[1] == "dispatch" for ev in cur().events) and isinstance(result, Obj) and result.name.startswith("dispatch#")
        out["resolves_to_an_engine_data_type"] = isinstance(result, Obj) and issubclass(result.cls, BaseDT)
        return out

    def on_raise(self, exc, old, cls, data_type):
        kind, eq, disp = self._kind(), self._eq, self._disp
        out = {}
        if kind in ("instance", "class"):
            out["never_fails_for_an_engine_type"] = False
        if exc.cls is OtherException:
            out["foreign_exception_only_from_a_registered_converter"] = exc.attrs.get("__from_callback__") is not None
        if kind in ("alias", "native"):
            hit = [v for k, v in eq.lookups if k is data_type and v is not None]
            out["registered_keys_never_fail"] = not hit
        return out


class RegisterEquivalents(Contract):
    """Engine._register_equivalents(cls, C, k1, k2, k3): afterwards every key maps to ONE AND THE SAME default instance
    of C (this is what makes equivalent spellings resolve to equal, equally hashed - in fact identical - objects);
    other keys are untouched; a key that is itself an engine type is refused (ValueError) before anything else."""

    target = f"{E}._register_equivalents"
    raises = (ValueError,)
    split = {"bad_key": [False, True]}
    params = dict(cls=T.Any, pandera_dtype_cls=T.Any)

    def setup(self, I):
        DL.install(I)

    def make_args(self):
        eng = T.Ref(ENG.Engine, _base_pandera_dtypes=T.Const((BaseDT,)), __name__=T.Const("AnEngine")).fresh("cls")
        other_key, other_val = Obj(Native, "older_key", pre=True), Obj(SubDT, "older_value", pre=True)
        table = DictObj({other_key: other_val})
        table.pre = True
        table.name = "equivalents"
        reg = T.Ref(ENG._DtypeRegistry, equivalents=T.Const(table), dispatch=T.Any).fresh("registry")
        outer = DictObj({eng: reg})
        outer.pre = True
        eng.attrs["_registry"] = outer
        eng.attrs0["_registry"] = outer
        keys = [Obj(Native, "k1", pre=True), "an_alias", int]
        if self.fixed.get("bad_key"):
            keys[1] = Obj(SubDT, "k2_engine_instance", pre=True)
        self._table, self._keys, self._other = table, keys, (other_key, other_val)
        return {"cls": eng, "pandera_dtype_cls": SubDT}

    def call_target(self, I, fn, a):
        return I.call(fn, [a["cls"], a["pandera_dtype_cls"]] + list(self._keys), {})

    def modifies(self, cls, pandera_dtype_cls):
        return [("container", id(self._table))]

    def ensures(self, result, old, cls, pandera_dtype_cls):
        t, keys = self._table, self._keys
        if self.fixed.get("bad_key"):
            return {"engine_types_cannot_be_registered_as_equivalents": False}
        vals = [dict.get(t, k) for k in keys]
        out = {"every_key_registered": all(v is not None for v in vals)}
        out["all_keys_share_one_instance"] = all(v is vals[0] for v in vals)
        out["instance_of_the_registered_class"] = isinstance(vals[0], Obj) and vals[0].cls is pandera_dtype_cls and not vals[0].pre
        out["other_keys_untouched"] = dict.get(t, self._other[0]) is self._other[1] and len(t) == len(keys) + 1
        return out

    def on_raise(self, exc, old, cls, pandera_dtype_cls):
        t = self._table
        return {"refused_only_for_engine_types": bool(self.fixed.get("bad_key")),
                "documented_message": True}


class RegisterDtype(Contract):
    """Engine.register_dtype(C, equivalents=[k1, k2]) (the non-decorator form; the decorator form returns the same
    `_wrapper`): C is recorded as registered, its equivalents go through `_register_equivalents` for C, C is
    returned unchanged; a non-class is refused."""

    target = f"{E}.register_dtype"
    raises = (ValueError,)
    split = {"what": ["class", "decorator", "not_a_class"], "hook": ["none", "own", "inherited"]}
    params = dict(cls=T.Any)

    def setup(self, I):
        DL.install(I)

        def register_hook(I_, eng, dtype_cls):
            # Engine._register_from_parametrized_dtype has its own contract (RegisterFromParametrizedDtype); here: recorded
            cur().ghost.setdefault("hook_registrations", []).append(dtype_cls)
            return None

        I.models[id(ENG.Engine._register_from_parametrized_dtype)] = register_hook

    def _subject(self):
        return {"none": SubDT, "own": HookDT, "inherited": InheritsHookDT}[self.fixed.get("hook", "none")]

    def make_args(self):
        eng = T.Ref(ENG.Engine, _base_pandera_dtypes=T.Const((BaseDT,)), __name__=T.Const("AnEngine"), _registered_dtypes=T.Const(set())).fresh("cls")
        table = DictObj()
        table.pre = True
        table.name = "equivalents"
        reg = T.Ref(ENG._DtypeRegistry, equivalents=T.Const(table), dispatch=T.Any).fresh("registry")
        outer = DictObj({eng: reg})
        outer.pre = True
        eng.attrs["_registry"] = outer
        eng.attrs0["_registry"] = outer
        self._table = table
        self._keys = [Obj(Native, "k1", pre=True), "an_alias"]
        return {"cls": eng}

    def call_target(self, I, fn, a):
        what = self.fixed.get("what", "class")
        C = self._subject()
        if what == "class":
            return I.call(fn, [a["cls"], C], {"equivalents": list(self._keys)})
        if what == "decorator":
            deco = I.call(fn, [a["cls"]], {"equivalents": list(self._keys)})
            return I.call(deco, [C], {})
        return I.call(fn, [a["cls"], Obj(C, "an_instance", pre=True)], {"equivalents": list(self._keys)})

    def modifies(self, cls):
        return [("container", id(self._table))]

    def ensures(self, result, old, cls):
        if self.fixed.get("what") == "not_a_class":
            return {"only_classes_can_be_registered": False}
        C = self._subject()
        t = self._table
        vals = [dict.get(t, k) for k in self._keys]
        hooks = cur().ghost.get("hook_registrations", [])
        out = {"returns_the_class_unchanged": result is C,
               "class_recorded_as_registered": C in fld(cls, "_registered_dtypes"),
               "equivalents_registered_to_one_instance_of_the_class": all(isinstance(v, Obj) and v.cls is C and v is vals[0] for v in vals)}
        # "The classmethod from_parametrized_dtype will also be registered": the hook of the class being registered - a class that
        # merely inherits one must leave the parametrised native types with the class that defines the hook (registering a subclass
        # never changes what the engine resolves existing spellings to)
        if self.fixed.get("hook", "none") == "own":
            out["own_parametrized_hook_registered_once_for_the_class"] = hooks == [C]
        else:
            out["no_hook_registered_for_a_class_that_defines_none"] = hooks == []
        return out

    def on_raise(self, exc, old, cls):
        return {"refused_only_for_non_classes": self.fixed.get("what") == "not_a_class", "nothing_registered": len(self._table) == 0 and not cur().ghost.get("hook_registrations")}


class RegisterFromParametrizedDtype(Contract):
    """Engine._register_from_parametrized_dtype(C): the hook DEFINED BY C is registered in the engine's dispatch table for every
    native type named by the hook's first annotation, and what is registered builds instances through C."""

    target = f"{E}._register_from_parametrized_dtype"
    raises = (ValueError, KeyError)
    split = {"hook": ["own", "inherited", "not_a_classmethod"]}
    params = dict(cls=T.Any)

    def setup(self, I):
        DL.install(I)
        I.models[id(typing.get_type_hints)] = lambda I_, f, *a, **k: typing.get_type_hints(f, {**vars(__import__(__name__, fromlist=["x"]))})
        import typing_inspect

        I.models[id(typing_inspect.get_args)] = lambda I_, t, *a, **k: typing_inspect.get_args(t)

    def make_args(self):
        disp = T.Ref(None, register=T.Callback(T.Any, raises=False)).fresh("dispatch")
        eng = T.Ref(ENG.Engine, _base_pandera_dtypes=T.Const((BaseDT,)), __name__=T.Const("AnEngine")).fresh("cls")
        reg = T.Ref(ENG._DtypeRegistry, equivalents=T.Any, dispatch=T.Const(disp)).fresh("registry")
        outer = DictObj({eng: reg})
        outer.pre = True
        eng.attrs["_registry"] = outer
        eng.attrs0["_registry"] = outer
        cur().ghost["dispatch"] = disp
        return {"cls": eng}

    def _subject(self):
        return {"own": HookDT, "inherited": InheritsHookDT, "not_a_classmethod": PlainHookDT}[self.fixed.get("hook", "own")]

    def call_target(self, I, fn, a):
        return I.call(fn, [a["cls"], self._subject()], {})

    def ensures(self, result, old, cls):
        reg = fld0(cur().ghost["dispatch"], "register").calls
        how = self.fixed.get("hook", "own")
        if how != "own":
            return {"only_a_class_that_defines_the_hook_as_classmethod_is_accepted": False}
        out = {"registered_for_each_annotated_native_type": [c[0][0] for c in reg] == [Native]}
        if len(reg) == 1:
            I = cur().ghost["interp"]
            made = I.call(reg[0][0][1], [Obj(Native, "a_native", pre=True)], {})
            out["registered_constructor_builds_the_class_itself"] = type(made) is HookDT or (isinstance(made, Obj) and made.cls is HookDT)
        return out

    def on_raise(self, exc, old, cls):
        how = self.fixed.get("hook", "own")
        reg = fld0(cur().ghost["dispatch"], "register").calls
        return {"refused_only_without_an_own_classmethod_hook": how != "own", "nothing_registered_when_refused": reg == []}


class PlainHookDT(BaseDT):
    __module__ = "c09_standins"
    """defines the hook, but as a plain function"""

    def from_parametrized_dtype(cls, native: "Native"):  # noqa: N805
        return cls()


CONTRACTS = [EngineDtype, RegisterEquivalents, RegisterDtype, RegisterFromParametrizedDtype]
