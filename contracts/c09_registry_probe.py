"""C09 registry closure - executed in a PRISTINE interpreter (python contracts/c09_registry_probe.py), prints JSON records.

Exhaustive (finite) evaluation of the registry-closure clauses of C09 on the live registries of the numpy, pandas
(incl. pyarrow), polars and pyspark engines.  Everything is read from the live program: the keys of
`Engine._registry[E].equivalents`, the registered classes, and the *documented equivalence groups* = the argument
lists of the `register_dtype(..., equivalents=[...])` declarations in the engine modules (taken from the module AST
and evaluated in the module namespace; declarations made inside a helper function are replayed against a
recording stand-in of `Engine`, never against the live registry).

The oracle for (kind, signedness, bit width) is the NATIVE type boxed by a data type (numpy / pandas / pyarrow /
polars / pyspark facts), not pandera's own class hierarchy.
"""
import ast
import inspect
import json
import sys
import warnings

warnings.simplefilter("ignore")

import numpy as np
import pandas as pd
import polars as pl
import pyarrow as pa
import pyspark.sql.types as pst

from pandera import dtypes as D
from pandera.engines import engine as ENG
from pandera.engines import numpy_engine, pandas_engine, polars_engine, pyspark_engine

ENGINES = {"numpy": numpy_engine, "pandas": pandas_engine, "polars": polars_engine, "pyspark": pyspark_engine}
SERIALISING = ("numpy", "pandas", "pyspark")
RECORDS = []


def rec(clause, ok, note="", witness=None):
    RECORDS.append({"oid": f"registry/{clause}", "ok": bool(ok), "note": note, "witness": witness})


def short(x, n=90):
    if isinstance(x, D.DataType) and type(x).__module__ == "pandera.dtypes":
        return f"pandera.dtypes.{type(x).__name__}()"
    s = repr(x)
    return s if len(s) <= n else s[: n - 3] + "..."


# ---------------------------------------------------------------------------------------------
# native oracle
# ---------------------------------------------------------------------------------------------

_PL = {pl.Int8: ("int", True, 8), pl.Int16: ("int", True, 16), pl.Int32: ("int", True, 32), pl.Int64: ("int", True, 64),
       pl.UInt8: ("int", False, 8), pl.UInt16: ("int", False, 16), pl.UInt32: ("int", False, 32), pl.UInt64: ("int", False, 64),
       pl.Float32: ("float", None, 32), pl.Float64: ("float", None, 64), pl.Boolean: ("bool", None, None),
       pl.Datetime: ("datetime", None, None), pl.Date: ("date", None, None), pl.Duration: ("timedelta", None, None),
       pl.Time: ("time", None, None), pl.Decimal: ("decimal", None, None)}
_PST = {pst.ByteType: ("int", True, 8), pst.ShortType: ("int", True, 16), pst.IntegerType: ("int", True, 32), pst.LongType: ("int", True, 64),
        pst.FloatType: ("float", None, 32), pst.DoubleType: ("float", None, 64), pst.BooleanType: ("bool", None, None),
        pst.DecimalType: ("decimal", None, None), pst.DateType: ("date", None, None), pst.TimestampType: ("datetime", None, None)}
if hasattr(pst, "TimestampNTZType"):
    _PST[pst.TimestampNTZType] = ("datetime", None, None)


def np_sig(n):
    k = n.kind
    return {"b": ("bool", None, None), "i": ("int", True, n.itemsize * 8), "u": ("int", False, n.itemsize * 8),
            "f": ("float", None, n.itemsize * 8), "c": ("complex", None, n.itemsize * 8), "M": ("datetime", None, None),
            "m": ("timedelta", None, None)}.get(k)


def native_sig(t):
    """(kind, signed, bits) of the native type boxed by data type t; None when t is not a physical numeric/bool/temporal type"""
    n = getattr(t, "type", None)
    try:
        if isinstance(n, np.dtype):
            return np_sig(n)
        if isinstance(n, pd.ArrowDtype):
            p = n.pyarrow_dtype
            if pa.types.is_boolean(p):
                return ("bool", None, None)
            if pa.types.is_signed_integer(p):
                return ("int", True, p.bit_width)
            if pa.types.is_unsigned_integer(p):
                return ("int", False, p.bit_width)
            if pa.types.is_floating(p):
                return ("float", None, p.bit_width)
            if pa.types.is_timestamp(p):
                return ("datetime", None, None)
            if pa.types.is_date(p):
                return ("date", None, p.bit_width)
            if pa.types.is_duration(p):
                return ("timedelta", None, None)
            if pa.types.is_time(p):
                return ("time", None, p.bit_width)
            if pa.types.is_decimal(p):
                return ("decimal", None, None)
            return None
        if isinstance(n, pd.BooleanDtype):
            return ("bool", None, None)
        if isinstance(n, pd.DatetimeTZDtype):
            return ("datetime", None, None)
        if isinstance(n, pd.api.extensions.ExtensionDtype) and not isinstance(n, pd.StringDtype) and hasattr(n, "numpy_dtype"):
            return np_sig(np.dtype(n.numpy_dtype))
        if isinstance(n, pl.DataType) or (isinstance(n, type) and issubclass(n, pl.DataType)):
            return _PL.get(n if isinstance(n, type) else type(n))
        if isinstance(n, pst.DataType):
            return _PST.get(type(n))
    except Exception:  # pragma: no cover
        return None
    return None


PRIMITIVE_FAMILIES = (D._Number, D.String, D.Date, D.Timestamp, D.Timedelta, D.Category)


def is_primitive(t):
    """numbers, booleans, strings, object, dates and times (incl. time zones), categories, nullable / pyarrow variants"""
    if isinstance(t, PRIMITIVE_FAMILIES) or native_sig(t) is not None:
        return True
    n = getattr(t, "type", None)
    if isinstance(n, np.dtype) and n.kind in "OUS":
        return True
    if isinstance(n, pd.ArrowDtype):
        p = n.pyarrow_dtype
        return pa.types.is_string(p) or pa.types.is_large_string(p) or pa.types.is_binary(p) or pa.types.is_large_binary(p) or pa.types.is_null(p)
    return False


# ---------------------------------------------------------------------------------------------
# documented equivalence groups
# ---------------------------------------------------------------------------------------------


class _Recorder:
    def __init__(self):
        self.groups = []

    def register_dtype(self, cls=None, *, equivalents=None):
        self.groups.append((cls, list(equivalents or [])))
        return cls


def documented_groups(mod):
    """[(class, [keys], where)] for every register_dtype(..., equivalents=...) declaration of the engine module"""
    tree = ast.parse(inspect.getsource(mod))
    out = []
    helper_defs = {}
    for node in tree.body:
        if isinstance(node, ast.FunctionDef) and any(isinstance(n, ast.Attribute) and n.attr == "register_dtype" for n in ast.walk(node)):
            helper_defs[node.name] = node

    def ev(expr):
        return eval(compile(ast.Expression(expr), "<declaration>", "eval"), mod.__dict__)

    def visit(body):
        for node in body:
            if isinstance(node, ast.If):
                try:
                    taken = node.body if ev(node.test) else node.orelse
                except Exception:
                    taken = node.body + node.orelse
                visit(taken)
            elif isinstance(node, ast.ClassDef):
                for d in node.decorator_list:
                    if isinstance(d, ast.Call) and isinstance(d.func, ast.Attribute) and d.func.attr == "register_dtype":
                        for kw in d.keywords:
                            if kw.arg == "equivalents":
                                out.append((node.name, ev(kw.value), f"@register_dtype on class {node.name}"))
            elif isinstance(node, ast.Expr) and isinstance(node.value, ast.Call):
                c = node.value
                if isinstance(c.func, ast.Attribute) and c.func.attr == "register_dtype" and c.args:
                    for kw in c.keywords:
                        if kw.arg == "equivalents":
                            out.append((ast.unparse(c.args[0]), ev(kw.value), f"register_dtype({ast.unparse(c.args[0])}, ...)"))
                elif isinstance(c.func, ast.Name) and c.func.id in helper_defs:
                    r = _Recorder()
                    live = mod.Engine
                    mod.Engine = r
                    try:
                        ev(c)
                    finally:
                        mod.Engine = live
                    for cls, keys in r.groups:
                        out.append((cls, keys, f"{ast.unparse(c)[:60]}"))

    visit(tree.body)
    res = []
    for cname, keys, where in out:
        cls = cname if isinstance(cname, type) else eval(cname, mod.__dict__)
        res.append((cls, list(keys), where))
    return res


def truthy(c):
    if isinstance(c, (bool, np.bool_)):
        return bool(c)
    try:
        return bool(c)
    except Exception:
        return False


def eq_hash(a, b):
    return a == b and hash(a) == hash(b)


def close_engine(name, mod):
    E = mod.Engine
    reg = ENG.Engine._registry[E]
    tag = f"[{name}] "
    keys = list(reg.equivalents.keys())
    resolved = {}
    # --- every key resolves; resolution is idempotent ---------------------------------------------------------------
    bad = 0
    for k in keys:
        try:
            r = E.dtype(k)
        except Exception as e:
            bad += 1
            rec("every_registered_spelling_resolves", False, tag + f"{short(k)} -> {type(e).__name__}: {str(e)[:80]}")
            continue
        resolved[id(k)] = (k, r)
        if not isinstance(r, D.DataType):
            rec("every_registered_spelling_resolves", False, tag + f"{short(k)} -> not a DataType: {short(r)}")
    rec("every_registered_spelling_resolves", True, tag + f"{len(keys) - bad} of {len(keys)} keys resolve")
    n_idem = 0
    for k, r in resolved.values():
        try:
            r2 = E.dtype(r)
            ok = eq_hash(r2, r)
        except Exception as e:
            ok, r2 = False, f"{type(e).__name__}: {e}"
        n_idem += ok
        if not ok:
            rec("resolution_is_idempotent", False, tag + f"dtype({short(k)}) = {short(r)} but resolving that again gives {short(r2)}")
    rec("resolution_is_idempotent", True, tag + f"{n_idem} results resolve to an equal, equally hashed object")
    # classes registered with the engine resolve to their default instance when default-constructible
    for c in sorted(E.get_registered_dtypes(), key=lambda c: c.__qualname__):
        try:
            inst = c()
        except Exception:
            continue
        try:
            r = E.dtype(c)
            ok = type(r) is c and eq_hash(E.dtype(r), r)
        except Exception as e:
            ok, r = False, f"{type(e).__name__}: {e}"
        if not ok:
            rec("registered_class_resolves_to_its_instance", False, tag + f"{c.__qualname__} -> {short(r)}")
    rec("registered_class_resolves_to_its_instance", True, tag + "default-constructible registered classes")
    # --- documented equivalents agree ----------------------------------------------------------------------------------
    groups = documented_groups(mod)
    n_keys = 0
    for cls, gkeys, where in groups:
        first = None
        for k in gkeys:
            n_keys += 1
            try:
                r = E.dtype(k)
            except Exception as e:
                rec("documented_equivalents_agree", False, tag + f"{where}: key {short(k)} does not resolve ({type(e).__name__})")
                continue
            if not isinstance(r, cls):
                rec("documented_equivalents_agree", False,
                    tag + f"{where}: key {short(k)} is declared an equivalent of {cls.__module__.rsplit('.', 1)[-1]}.{cls.__qualname__} but resolves to {type(r).__module__.rsplit('.', 1)[-1]}.{type(r).__qualname__} ({r})")
                continue
            if first is None:
                first = (k, r)
            elif not eq_hash(r, first[1]):
                rec("documented_equivalents_agree", False, tag + f"{where}: {short(first[0])} -> {first[1]} but {short(k)} -> {r} (not equal / not equally hashed)")
    rec("documented_equivalents_agree", True, tag + f"{len(groups)} declarations, {n_keys} keys")
    # --- distinct instances -------------------------------------------------------------------------------------------
    insts = []
    for k, r in resolved.values():
        if not any(r is x for x in insts):
            insts.append(r)
    # --- equal => equal hash (all ordered pairs) -----------------------------------------------------------------------
    nbad = 0
    for a in insts:
        for b in insts:
            try:
                if a == b and hash(a) != hash(b):
                    nbad += 1
                    rec("equal_types_hash_equally", False, tag + f"{short(a)} == {short(b)} but hashes differ")
            except Exception as e:
                rec("equal_types_hash_equally", False, tag + f"{short(a)} == {short(b)} raises {type(e).__name__}")
    rec("equal_types_hash_equally", True, tag + f"{len(insts)}^2 ordered pairs")
    # --- printed name resolves back ---------------------------------------------------------------------------------------
    if name in SERIALISING:
        n = 0
        for t in insts:
            if not is_primitive(t):
                continue
            n += 1
            try:
                s = str(t)
                back = E.dtype(s)
                ok = eq_hash(back, t)
                why = f"resolves to {short(back)} ({type(back).__qualname__})"
            except Exception as e:
                ok, why = False, f"raises {type(e).__name__}: {str(e)[:70]}"
                s = locals().get("s", "?")
            if not ok:
                rec("printed_name_resolves_back", False, tag + f"{type(t).__qualname__}: str = {s!r} {why}")
        rec("printed_name_resolves_back", True, tag + f"{n} primitive types")
    # --- a resolved type recognises itself --------------------------------------------------------------------------------
    for t in insts:
        try:
            c = t.check(t)
            ok, why = truthy(c), f"check(self) = {short(c)}"
        except Exception as e:
            ok, why = False, f"check(self) raises {type(e).__name__}: {str(e)[:60]}"
        if not ok:
            rec("resolved_type_recognises_itself", False, tag + f"{type(t).__qualname__} ({t}): {why}")
    rec("resolved_type_recognises_itself", True, tag + f"{len(insts)} resolved types")
    # --- no cross-kind recognition, all ordered pairs -----------------------------------------------------------------------
    npairs = nraise = 0
    for t1 in insts:
        s1 = native_sig(t1)
        for t2 in insts:
            try:
                c = t1.check(t2)
            except Exception as e:
                nraise += 1  # raising is not recognising; reported in the note (outside C09's statement)
                continue
            if s1 is None:
                continue
            npairs += 1
            if truthy(c) and native_sig(t2) != s1:
                rec("no_cross_kind_recognition", False, tag + f"{type(t1).__qualname__} {s1} recognises {type(t2).__qualname__} {native_sig(t2)}")
    rec("no_cross_kind_recognition", True, tag + f"{npairs} ordered pairs with a physical receiver ({nraise} of all {len(insts)}^2 check() calls raised instead of answering)")
    return insts


ELEMENTWISE = (pl.Series, pd.Series, pd.Index, np.ndarray, pl.DataFrame, pd.DataFrame)  # `a == b` is an array, not a bool; unhashable
UNHASHABLE = (list, dict, set)


def value_objects(name, mod):
    """every registered data type class is a VALUE OBJECT: its (dataclass-generated) __eq__ / __hash__ compare the fields declared
    with compare=True, so each of those must be of a type whose == gives one bool and that can be hashed - decided on the class
    definitions (all instances), given that fields hold what their annotation says"""
    import dataclasses
    import typing

    tag = f"[{name}] "
    n = 0
    for c in sorted(mod.Engine.get_registered_dtypes(), key=lambda c: c.__qualname__):
        if not dataclasses.is_dataclass(c):
            continue
        eq = next((k.__dict__["__eq__"] for k in c.__mro__ if "__eq__" in k.__dict__), None)
        if getattr(getattr(eq, "__code__", None), "co_filename", "<string>") != "<string>":
            continue  # a hand-written __eq__: its own business (source under contract elsewhere)
        try:
            hints = typing.get_type_hints(c)
        except Exception:
            hints = {}
        for f in dataclasses.fields(c):
            if not f.compare:
                continue
            t = hints.get(f.name, f.type)
            parts = typing.get_args(t) if typing.get_origin(t) is typing.Union else (t,)
            bad = [p for p in parts if isinstance(p, type) and (issubclass(p, ELEMENTWISE) or issubclass(p, UNHASHABLE))]
            n += 1
            if bad:
                rec("data_types_are_value_objects", False, tag + f"{c.__qualname__}.{f.name}: {getattr(bad[0], '__name__', bad[0])} takes part in == and hash() of the data type "
                    "(comparing two such types raises or yields an array, hashing raises)")
    rec("data_types_are_value_objects", True, tag + f"{n} compared fields of registered classes are of scalar / hashable declared types")


def pyarrow_instances():
    """documented as equivalent (docs/source/dtype_validation.md): the native pyarrow instance, its '<name>[pyarrow]' alias and
    pd.ArrowDtype(instance).  A pyarrow DataType compares and hashes equal to its printed NAME ('int64', 'bool', 'string', 'float'):
    the bare instance must still resolve to the Arrow type it denotes, not to whatever the engine registered under that string."""
    PE = pandas_engine.Engine
    prims = [pa.bool_(), pa.int8(), pa.int16(), pa.int32(), pa.int64(), pa.uint8(), pa.uint16(), pa.uint32(), pa.uint64(), pa.float16(), pa.float32(),
             pa.float64(), pa.string(), pa.large_string(), pa.binary(), pa.date32(), pa.date64(), pa.null()]
    n = 0
    for p in prims:
        try:
            want = PE.dtype(pd.ArrowDtype(p))
        except Exception:
            continue  # (not a registered arrow type in this engine)
        n += 1
        try:
            got = PE.dtype(p)
            ok = eq_hash(got, want)
            note = f"dtype({p!r}) = {short(got)}, dtype(pd.ArrowDtype({p})) = {short(want)}"
        except Exception as e:
            ok, note = False, f"dtype({p!r}) raises {type(e).__name__}: {str(e)[:80]}"
        if not ok:
            rec("native_pyarrow_instance_resolves_to_its_arrow_type", False, "[pandas] " + note)
    rec("native_pyarrow_instance_resolves_to_its_arrow_type", True, f"[pandas] {n} primitive pyarrow instances resolve like their pd.ArrowDtype")


def main():
    for name, mod in ENGINES.items():
        close_engine(name, mod)
        value_objects(name, mod)
    pyarrow_instances()
    # --- the lazily imported pyarrow engine must not change what a spelling means -----------------------------------------
    PE = pandas_engine.Engine
    reg = ENG.Engine._registry[PE]
    before = {}
    for k in list(reg.equivalents):
        try:
            before[id(k)] = (k, PE.dtype(k))
        except Exception:
            pass
    assert "pandera.engines.pyarrow_engine" not in sys.modules
    try:
        PE.dtype(pd.ArrowDtype(pa.timestamp("ns")))  # a parametrised arrow dtype: triggers `import pandera.engines.pyarrow_engine`
    except Exception:
        pass
    imported = "pandera.engines.pyarrow_engine" in sys.modules
    changed = 0
    for k, r0 in before.values():
        try:
            r1 = PE.dtype(k)
            ok = eq_hash(r1, r0)
        except Exception as e:
            ok, r1 = False, f"{type(e).__name__}"
        if not ok:
            changed += 1
            if changed <= 3:
                rec("resolution_is_stable_over_time", False,
                    f"[pandas] {short(k)} resolved to {type(r0).__module__}.{type(r0).__qualname__} before and to {type(r1).__module__}.{type(r1).__qualname__} after resolving a parametrised pyarrow dtype; the two are not equal (pyarrow_engine imported: {imported}; {changed}+ keys)")
    rec("resolution_is_stable_over_time", True, f"[pandas] {len(before)} keys re-resolved after the lazy pyarrow_engine import")
    json.dump(RECORDS, sys.stdout)


if __name__ == "__main__":
    main()
