"""C04 / C03 / C06 (polars column back end): pandera.backends.polars.components:ColumnBackend.validate.

The back end is handed a LazyFrame (the API level converts a DataFrame with .lazy() and collects the result again - proved in
C04_polars_api) and has to hand a LazyFrame back, whatever happens in between: the API level decides the kind of what the caller gets
from the kind of what the caller gave.  Obligations on the real body (callees under interface contracts; every method is resolved
through the MRO of the live class, so an override is executed):

  post.returns_a_lazyframe                      kind(result) == LazyFrame on every normal exit (with and without dropped rows)
  post.callers_frame_is_not_the_result          inplace=False: the result is a different object (clone) - polars frames are immutable,
                                                the clone is what the code documents
  post.parsers_ran_once_in_order                coerce_dtype then set_default, each on the previous result
  post.checked_and_returned_the_parsed_frame    run_checks_and_handle_errors sees the parsed frame with the caller's sub-sampling options;
                                                the result is that frame (or what drop_invalid_rows makes of it)
  exit.*                                        SchemaDefinitionError only for a nameless column / drop_invalid_rows without lazy;
                                                SchemaError only eager; SchemaErrors only lazy without drop, carrying the handler's errors
"""
from pandera.api.base.error_handler import ErrorHandler
from pandera.errors import SchemaDefinitionError, SchemaError, SchemaErrorReason, SchemaErrors
from pyvc import core, types as T
from pyvc.core import PyExc, SAny, cur
from pyvc.heap import Obj
from pyvc.interp import OtherException
from pyvc.spec import Contract
from contracts.util import fld, fld0

COLP = "pandera.backends.polars.components:ColumnBackend"
SUB = ("head", "tail", "sample", "random_state")


class PFrame:
    """a polars frame: kind (LazyFrame / DataFrame) + lineage; identity only"""

    __pyvc_symbolic__ = True

    def __init__(self, kind, how, parent=None):
        self.kind, self.how, self.parent = kind, how, parent

    def pyvc_class(self):
        import polars as pl

        return pl.LazyFrame if self.kind == "LazyFrame" else pl.DataFrame

    def clone(self):
        return PFrame(self.kind, "clone", self)

    def lazy(self):
        return PFrame("LazyFrame", "lazy", self)

    def collect(self, **kw):
        return PFrame("DataFrame", "collect", self)

    def lineage(self):
        out, f = [], self
        while f is not None:
            out.append(f.how)
            f = f.parent
        return list(reversed(out))


class PolarsColumnValidate(Contract):
    target = f"{COLP}.validate"
    raises = (SchemaDefinitionError, SchemaError, SchemaErrors)
    split = {"lazy": [True, False], "drop": [True, False]}
    check_frame = False

    def setup(self, I):
        import warnings as _w

        from pandera.backends.polars.base import PolarsSchemaBackend as Base
        from pandera.backends.polars.components import ColumnBackend as B

        I.models[id(_w.warn)] = lambda I, *a, **k: None

        def parser_model(name):
            def m(I, self_obj, check_obj, schema):
                p = cur()
                p.ghost.setdefault("calls", []).append((name, check_obj))
                k = p.choose([("returns", None), ("SchemaError", None), ("SchemaErrors", None)], name)
                if k == 1:
                    e = I.make_exc(SchemaError)
                    e.attrs["reason_code"] = SchemaErrorReason.DATATYPE_COERCION
                    p.ghost.setdefault("parser_errors", []).append(e)
                    raise PyExc(e)
                if k == 2:
                    e = I.make_exc(SchemaErrors)
                    from pyvc.heap import ListObj

                    e.attrs["schema_errors"] = ListObj([SAny(name=f"{name}_error")])
                    p.ghost.setdefault("parser_errors", []).append(e)
                    raise PyExc(e)
                r = PFrame(check_obj.kind, name, check_obj)
                p.ghost["current"] = r
                return r

            return m

        I.models[id(B.coerce_dtype)] = parser_model("coerce_dtype")
        I.models[id(B.set_default)] = parser_model("set_default")

        def rcahe(I, self_obj, error_handler, schema, check_obj, **kw):
            p = cur()
            p.ghost["checked"] = (check_obj, kw)
            k = p.choose([("no_error", None), ("errors", None)], "core_checks")
            if k == 1:
                if not I.truth(fld(error_handler, "_lazy")):
                    e = I.make_exc(SchemaError)
                    raise PyExc(e)
                for a in ("_schema_errors", "_collected_errors"):
                    fld(error_handler, a).append(SAny(name="core_check_error"))
                p.ghost["core_errors"] = True
            return error_handler

        I.models[id(B.run_checks_and_handle_errors)] = rcahe

        def base_drop(I, self_obj, check_obj, error_handler):
            """PolarsSchemaBackend.drop_invalid_rows (C11): filters the rows of the frame it is given - same kind"""
            p = cur()
            p.ghost["drop_called_with"] = (check_obj, error_handler)
            r = PFrame(check_obj.kind, "drop_invalid_rows", check_obj)
            p.ghost["dropped"] = r
            return r

        I.models[id(Base.drop_invalid_rows)] = base_drop
        from contracts.C05_component_restore import install_handler_recorder

        install_handler_recorder(I)
        from pyvc.theories import pandas_lite as PL

        PL.install(I)  # validation_type(...)

    def make_args(self):
        from pandera.backends.polars.components import ColumnBackend as B

        a = {"self": T.Ref(B).fresh("self"), "check_obj": PFrame("LazyFrame", "argument"),
             "schema": T.Ref(None, drop_invalid_rows=T.Const(self.fixed.get("drop", False)), name=T.Opt(T.Label)).fresh("schema"),
             "lazy": self.arg("lazy", T.Bool), "inplace": T.fresh_value(T.Bool, "inplace")}
        for o in SUB:
            a[o] = T.fresh_value(T.Any, o)
        return a

    def call_target(self, I, fn, a):
        return I.call(fn, [a["self"], a["check_obj"], a["schema"]], {k: a[k] for k in SUB + ("lazy", "inplace")})

    def _parsed(self, check_obj):
        return cur().ghost.get("current")

    def ensures(self, result, old, self_, check_obj, schema, lazy, inplace, **kw):
        p = cur()
        drop = fld0(schema, "drop_invalid_rows")
        calls = p.ghost.get("calls", [])
        checked = p.ghost.get("checked")
        out = {"returns_a_lazyframe": isinstance(result, PFrame) and result.kind == "LazyFrame",
               "parsers_ran_once_in_order": [c[0] for c in calls] == ["coerce_dtype", "set_default"]}
        if isinstance(result, PFrame):
            core.register_model_var("returned frame", lambda m, r=result: f"{r.kind}: " + " > ".join(r.lineage()))
        # each parser received the previous parser's result (or the preprocessed argument)
        prev_ok = True
        prev = None
        for name, got in calls:
            if prev is None:
                prev_ok = prev_ok and (got is check_obj or (got.how == "clone" and got.parent is check_obj))
                first = got
            else:
                prev_ok = prev_ok and got is prev
            f = p.ghost.get("current")
            while f is not None and not (f.how == name and f.parent is got):
                f = f.parent
            prev = f if f is not None else got
        out["each_parser_gets_the_previous_result"] = prev_ok
        parsed = prev
        out["checked_the_parsed_frame_with_the_callers_subsampling"] = checked is not None and checked[0] is parsed and all(checked[1].get(o) is kw[o] for o in SUB)
        if "drop_called_with" in p.ghost:
            out["drop_only_when_requested_lazy_and_errors"] = drop is True and lazy is True
            out["dropped_from_the_parsed_frame_or_a_view_of_it"] = p.ghost["drop_called_with"][0] is parsed or getattr(p.ghost["drop_called_with"][0], "parent", None) is parsed
            out["returns_the_dropped_frame"] = result is p.ghost.get("dropped") or getattr(result, "parent", None) is p.ghost.get("dropped")
        else:
            out["returns_the_parsed_frame"] = result is parsed
        if inplace is False:
            out["callers_frame_is_not_the_result"] = result is not check_obj
        return out

    def on_raise(self, exc, old, self_, check_obj, schema, lazy, inplace, **kw):
        p = cur()
        drop = fld0(schema, "drop_invalid_rows")
        out = {}
        if exc.cls is SchemaDefinitionError:
            out["definition_error_only_for_nameless_column_or_drop_without_lazy"] = fld0(schema, "name") is None or (drop is True and lazy is False)
        elif exc.cls is SchemaError:
            out["single_error_only_when_eager"] = lazy is False
        elif exc.cls is SchemaErrors:
            out["collected_errors_only_when_lazy_and_not_dropping"] = lazy is True and drop is not True
            if "schema_errors" in exc.attrs:
                h = [o for o in p.objects if o.cls is ErrorHandler]
                out["carries_exactly_the_collected_errors"] = len(h) == 1 and exc.attrs["schema_errors"] is fld(h[0], "_schema_errors")
        return out

    def concretize(self, rec):
        def thunk():
            import warnings

            import polars as pl
            import pandera as pa
            import pandera.polars as pp

            warnings.simplefilter("ignore")
            obs, bad = {}, False
            for dropping in (True, False):
                col = pp.Column(int, pa.Check.gt(0), name="a", drop_invalid_rows=dropping)
                for mk in (pl.LazyFrame, pl.DataFrame):
                    for data in ([1, 2], [1, -2]):
                        x = mk({"a": data})
                        try:
                            out = col.validate(x, lazy=True)
                        except (pa.errors.SchemaError, pa.errors.SchemaErrors):
                            continue
                        if type(out) is not type(x):
                            bad = True
                            obs[f"Column(drop_invalid_rows={dropping}).validate({mk.__name__} a={data}, lazy=True)"] = f"returned a {type(out).__name__}"
            return bad, obs or "Column.validate returns the kind of frame it was given"

        return thunk


CONTRACTS = [PolarsColumnValidate]
