"""C03 (custom parsers, pandas): from `schema.parsers` to the object that is checked and returned.

The validate contracts (ArrayValidate, ContainerValidate) use `run_parsers` through an interface contract; this file puts the real bodies
under contract, from the loop over the declared parsers down to the call of the user's function:

run_parsers (array and container back end; parser lists of length 0-3 enumerated, everything else symbolic)
    post.every_declared_parser_runs_once_in_order       run_parser(<current object>, parser_k, k, <column key>) for k = 0..n-1
    post.each_parser_gets_the_previous_parsers_output   the object handed to parser k+1 is the parser_output of parser k
    post.returns_the_last_output / no_parser_returns_the_argument
    post.a_table_argument_is_parsed_through_its_column  array back end: key = schema.name for a table argument, None for a Series
run_parser                       calls the Parser once with the object and the extra arguments; the result's parser_output is the Parser's
Parser.__call__                  back end of the object's type built on THIS parser, called once with the object and the column
PandasParserBackend.__call__     preprocess(obj, key) -> apply(preprocessed) -> postprocess(preprocessed, output), each once
PandasParserBackend.preprocess   table + key -> the column; table -> the table; anything else (a Series) -> the object itself
PandasParserBackend.apply        Series -> apply_field, table -> apply_table, else NotImplementedError
apply_field / apply_table        the parser function is called exactly once on the object (vectorised) or mapped over the elements
                                 (element_wise): no output without calling it
postprocess                      ParserResult(parser_output=<what apply returned>, parsed_object=<what it was applied to>)
"""
import z3

from pandera.api.base.parsers import ParserResult
from pandera.backends.base import CoreParserResult
from pyvc import core, types as T
from pyvc.core import SAny, SBool, cur, py_eq
from pyvc.heap import ListObj, Obj
from pyvc.interp import OtherException
from pyvc.spec import Contract
from pyvc.theories import pandas_lite as PL
from pyvc.theories.pandas_lite import FrameVal, SeriesVal
from contracts.util import fld, fld0

ARR = "pandera.backends.pandas.array:ArraySchemaBackend"
DFB = "pandera.backends.pandas.container:DataFrameSchemaBackend"
BASE = "pandera.backends.pandas.base:PandasSchemaBackend"
PB = "pandera.backends.pandas.parsers:PandasParserBackend"


def _obj(kind, name="check_obj"):
    if kind == "Series":
        return SeriesVal.fresh(name, "real")
    if kind == "DataFrame":
        return FrameVal.fresh(name)
    return 5


class _RunParsers(Contract):
    raises = (OtherException,)
    split = {"n": [0, 1, 2, 3], "kind": ["Series", "DataFrame"]}
    backend_cls = None

    def setup(self, I):
        PL.install(I)
        from pandera.backends.pandas.base import PandasSchemaBackend as B

        def run_parser(I_, self_obj, check_obj, parser, parser_index, *args):
            p = cur()
            k = len(p.ghost.setdefault("run_parser_calls", []))
            out = SAny(name=f"parser_output#{k}")
            p.ghost["run_parser_calls"].append((check_obj, parser, parser_index, args, out))
            c = p.choose([("returns", None), ("parser_raises", None)], f"run_parser#{k}")
            if c == 1:
                e = I_.make_exc(OtherException)
                e.attrs["__from_callback__"] = ("parser", k)
                raise core.PyExc(e)
            r = Obj(CoreParserResult, f"core_parser_result#{k}", pre=False)
            r.attrs.update(passed=True, parser=parser, parser_index=parser_index, parser_output=out)
            return r

        I.models[id(B.run_parser)] = run_parser

    def make_args(self):
        n = self.fixed.get("n", 1)
        parsers = ListObj([SAny(name=f"parser{k}") for k in range(n)])
        parsers.pre = True
        parsers.name = "schema.parsers"
        schema = T.Ref(None, name=T.Label).fresh("schema")
        schema.attrs["parsers"] = parsers
        schema.attrs0["parsers"] = parsers
        cur().ghost["parsers"] = list(parsers)
        return {"self": T.Ref(self.backend_cls()).fresh("self"), "schema": schema, "check_obj": _obj(self.fixed.get("kind", "Series"))}

    def call_target(self, I, fn, a):
        return I.call(fn, [a["self"], a["schema"], a["check_obj"]], {})

    def key_args(self, schema, check_obj):
        raise NotImplementedError

    def ensures(self, result, old, self_, schema, check_obj):
        g = cur().ghost
        calls = g.get("run_parser_calls", [])
        ps = g["parsers"]
        out = {"every_declared_parser_runs_once_in_order": [c[1] for c in calls] == ps and all(c[2] == k for k, c in enumerate(calls))}
        if not out["every_declared_parser_runs_once_in_order"]:
            return out
        prev = check_obj
        ok = True
        for c in calls:
            ok = ok and c[0] is prev
            prev = c[4]
        out["each_parser_gets_the_previous_parsers_output"] = ok
        out["returns_the_last_output" if ps else "no_parser_returns_the_argument"] = result is prev
        want = self.key_args(schema, check_obj)
        if want is not None:
            out["a_table_argument_is_parsed_through_its_column"] = all(len(c[3]) == len(want) and all(x is y for x, y in zip(c[3], want)) for c in calls)
        return out

    def on_raise(self, exc, old, **a):
        return {"only_a_parser_raises": exc.attrs.get("__from_callback__") is not None}


class ArrayRunParsers(_RunParsers):
    target = f"{ARR}.run_parsers"

    @staticmethod
    def backend_cls():
        from pandera.backends.pandas.array import ArraySchemaBackend

        return ArraySchemaBackend

    def key_args(self, schema, check_obj):
        # the FIRST parser of a table argument gets the column key; its output is the parsed column (a Series), so the later ones get None
        return None

    def ensures(self, result, old, self_, schema, check_obj):
        out = super().ensures(result, old, self_, schema, check_obj)
        calls = cur().ghost.get("run_parser_calls", [])
        if calls:
            first = calls[0][3]
            name = fld0(schema, "name")
            out["first_parser_of_a_table_gets_the_column_key"] = (len(first) == 1 and first[0] is name) if isinstance(check_obj, FrameVal) else (len(first) == 1 and first[0] is None)
        return out


class ContainerRunParsers(_RunParsers):
    target = f"{DFB}.run_parsers"
    split = {"n": [0, 1, 2, 3], "kind": ["DataFrame"]}

    @staticmethod
    def backend_cls():
        from pandera.backends.pandas.container import DataFrameSchemaBackend

        return DataFrameSchemaBackend

    def key_args(self, schema, check_obj):
        return ()  # dataframe-level parsers get the whole table, no key


class RunParser(Contract):
    target = f"{BASE}.run_parser"
    raises = (OtherException,)
    split = {"extra": [0, 1]}

    def make_args(self):
        res = T.Lazy(lambda n: _parser_result(n))
        return {"self": T.Ref(None).fresh("self"), "check_obj": SAny(name="check_obj"), "parser": T.Ref(None, __call__=T.Callback(res)).fresh("parser"),
                "parser_index": T.fresh_value(T.Nat, "parser_index")}

    def setup(self, I):
        orig_call = I.call

        def call(fn, args=(), kwargs=None):
            if isinstance(fn, Obj) and "__call__" in fn.field_types:
                return orig_call(I.getattr(fn, "__call__"), args, kwargs)
            return orig_call(fn, args, kwargs)

        I.call = call

    def call_target(self, I, fn, a):
        extra = [SAny(name="column_key")] if self.fixed.get("extra", 0) else []
        cur().ghost["extra"] = extra
        return I.call(fn, [a["self"], a["check_obj"], a["parser"], a["parser_index"]] + extra, {})

    def ensures(self, result, old, self_, check_obj, parser, parser_index):
        cb = parser.attrs["__call__"]
        extra = cur().ghost["extra"]
        pr = cur().ghost.get("parser_result")
        return {"parser_called_once_on_the_object_with_the_extra_arguments": len(cb.calls) == 1 and cb.calls[0][0][0] is check_obj and list(cb.calls[0][0][1:]) == extra and not cb.calls[0][1],
                "output_is_the_parsers_output": pr is not None and result.attrs["parser_output"] is pr.attrs["parser_output"],
                "result_names_the_parser_and_its_position": result.attrs["parser"] is parser and result.attrs["parser_index"] is parser_index and result.attrs["passed"] is True}

    def on_raise(self, exc, old, **a):
        return {"only_the_parser_raises": exc.attrs.get("__from_callback__") is not None}


def _parser_result(name):
    o = Obj(ParserResult, name, pre=False)
    o.attrs.update(parser_output=SAny(name="parser_output"), parsed_object=SAny(name="parsed_object"))
    o.attrs["__fields__order"] = ("parser_output", "parsed_object")
    cur().ghost["parser_result"] = o
    return o


def _pbackend(result=None, element_wise=None):
    import pandera.backends.pandas.parsers as PP_

    return T.Ref(PP_.PandasParserBackend, parser=T.Ref(None, element_wise=T.Bool if element_wise is None else T.Const(element_wise)), parser_fn=T.Callback(result or T.Any))


def _recorder(I, names):
    import pandera.backends.pandas.parsers as PP_

    for nm in names:
        def m(I_, self_obj, *args, _nm=nm, **kw):
            tok = SAny(name=f"{_nm}.result")
            cur().ghost.setdefault("step_calls", []).append((_nm, self_obj, args, kw, tok))
            return tok

        I.models[id(getattr(PP_.PandasParserBackend, nm))] = m


class ParserBackendCall(Contract):
    target = f"{PB}.__call__"

    def setup(self, I):
        PL.install(I)
        _recorder(I, ["preprocess", "apply", "postprocess"])

    def make_args(self):
        return {"self": _pbackend().fresh("self"), "parse_obj": SAny(name="parse_obj"), "key": T.fresh_value(T.Opt(T.Label), "key")}

    def call_target(self, I, fn, a):
        return I.call(fn, [a["self"], a["parse_obj"], a["key"]], {})

    def ensures(self, result, old, self_, parse_obj, key):
        calls = cur().ghost.get("step_calls", [])
        out = {"three_steps_in_order_each_once": [c[0] for c in calls] == ["preprocess", "apply", "postprocess"]}
        if not out["three_steps_in_order_each_once"]:
            return out
        pre, app, post = calls
        out["preprocess_gets_the_object_and_the_key"] = len(pre[2]) == 2 and pre[2][0] is parse_obj and pre[2][1] is key
        out["parser_applied_to_the_preprocessed_object"] = len(app[2]) == 1 and app[2][0] is pre[4]
        out["postprocess_gets_the_preprocessed_object_and_the_output"] = len(post[2]) == 2 and post[2][0] is pre[4] and post[2][1] is app[4]
        out["returns_the_postprocessed_result"] = result is post[4]
        return out


class ParserPreprocess(Contract):
    target = f"{PB}.preprocess"
    split = {"kind": ["Series", "DataFrame", "other"], "key": ["none", "given"]}

    def setup(self, I):
        PL.install(I)

    def make_args(self):
        key = None if self.fixed.get("key", "none") == "none" else T.fresh_value(T.Label, "key")
        return {"self": _pbackend().fresh("self"), "parse_obj": _obj(self.fixed.get("kind", "Series"), "parse_obj"), "key": key}

    def requires(self, self_, parse_obj, key):
        return parse_obj.has_col(key) if isinstance(parse_obj, FrameVal) and key is not None else True

    def call_target(self, I, fn, a):
        return I.call(fn, [a["self"], a["parse_obj"], a["key"]], {})

    def ensures(self, result, old, self_, parse_obj, key):
        if isinstance(parse_obj, FrameVal) and key is not None:
            col = parse_obj.col_fn(key)
            i = z3.Int(cur().fresh_name("row"))
            ok = isinstance(result, SeriesVal) and result.space is parse_obj.space
            out = {"a_table_with_a_key_is_parsed_through_that_column": ok}
            if ok:
                out["all_rows_and_values_of_the_column"] = SBool(z3.And(result.sel(i) == parse_obj.sel(i), z3.Implies(result.sel(i), z3.And(result.null(i) == col.null(i), core.as_z3_bool(py_eq(result.at(i), col.at(i)))))))
            return out
        return {"the_object_itself_is_parsed": result is parse_obj}


class ParserApplyDispatch(Contract):
    target = f"{PB}.apply"
    raises = (NotImplementedError,)
    split = {"kind": ["Series", "DataFrame", "other"]}

    def setup(self, I):
        PL.install(I)
        _recorder(I, ["apply_field", "apply_table"])

    def make_args(self):
        return {"self": _pbackend().fresh("self"), "parse_obj": _obj(self.fixed.get("kind", "Series"), "parse_obj")}

    def call_target(self, I, fn, a):
        return I.call(fn, [a["self"], a["parse_obj"]], {})

    def ensures(self, result, old, self_, parse_obj):
        calls = cur().ghost.get("step_calls", [])
        want = {"Series": "apply_field", "DataFrame": "apply_table"}.get(self.fixed.get("kind", "Series"))
        out = {"unknown_objects_are_refused": want is not None}
        if want is None:
            return out
        out["exactly_the_applier_of_the_objects_kind"] = len(calls) == 1 and calls[0][0] == want and len(calls[0][2]) == 1 and calls[0][2][0] is parse_obj
        out["its_output_returned"] = len(calls) == 1 and result is calls[0][4]
        return out

    def on_raise(self, exc, old, self_, parse_obj):
        if exc.cls is not NotImplementedError:
            return {}
        return {"not_implemented_only_for_unknown_objects": self.fixed.get("kind") == "other" and not cur().ghost.get("step_calls")}


class ParserApplyField(Contract):
    target = f"{PB}.apply_field"
    raises = (OtherException,)
    split = {"element_wise": [True, False]}

    def setup(self, I):
        PL.install(I)

    def make_args(self):
        ew = self.fixed.get("element_wise", False)
        return {"self": _pbackend(T.Real if ew else T.Any, element_wise=ew).fresh("self"), "parse_obj": SeriesVal.fresh("parse_obj", "real")}

    def call_target(self, I, fn, a):
        return I.call(fn, [a["self"], a["parse_obj"]], {})

    def ensures(self, result, old, self_, parse_obj):
        cb = fld0(self_, "parser_fn")
        if self.fixed.get("element_wise", False):
            out = {"maps_over_the_rows": isinstance(result, SeriesVal) and result.space is parse_obj.space and result._sel is parse_obj._sel,
                   "not_called_on_the_whole_series": len(cb.calls) == 0}
            if out["maps_over_the_rows"]:
                i = z3.Int(cur().fresh_name("row"))
                cb.raises = False
                result.at(i)
                out["element_is_f_of_element"] = len(cb.calls) == 1 and bool(z3.is_true(z3.simplify(core.as_z3_bool(py_eq(cb.calls[-1][0][0], parse_obj.at(i))))))
            return out
        return {"parser_function_called_once_on_the_object": len(cb.calls) == 1 and len(cb.calls[0][0]) == 1 and cb.calls[0][0][0] is parse_obj and not cb.calls[0][1],
                "its_output_returned": isinstance(result, SAny)}

    def on_raise(self, exc, old, self_, parse_obj):
        return {"only_the_parser_function_raises": exc.attrs.get("__from_callback__") is not None}


class ParserApplyTable(Contract):
    target = f"{PB}.apply_table"
    raises = (OtherException,)
    split = {"element_wise": [False]}  # element-wise over a table: DataFrame.map / applymap of the function (library iteration): bounded below

    def setup(self, I):
        PL.install(I)

    def make_args(self):
        return {"self": _pbackend(T.Any, element_wise=False).fresh("self"), "parse_obj": FrameVal.fresh("parse_obj")}

    def call_target(self, I, fn, a):
        return I.call(fn, [a["self"], a["parse_obj"]], {})

    def ensures(self, result, old, self_, parse_obj):
        cb = fld0(self_, "parser_fn")
        return {"parser_function_called_once_on_the_table": len(cb.calls) == 1 and len(cb.calls[0][0]) == 1 and cb.calls[0][0][0] is parse_obj and not cb.calls[0][1],
                "its_output_returned": isinstance(result, SAny)}

    def on_raise(self, exc, old, self_, parse_obj):
        return {"only_the_parser_function_raises": exc.attrs.get("__from_callback__") is not None}


class ParserPostprocess(Contract):
    target = f"{PB}.postprocess"

    def make_args(self):
        return {"self": _pbackend().fresh("self"), "parse_obj": SAny(name="parse_obj"), "parser_output": SAny(name="parser_output")}

    def call_target(self, I, fn, a):
        return I.call(fn, [a["self"], a["parse_obj"], a["parser_output"]], {})

    def ensures(self, result, old, self_, parse_obj, parser_output):
        return {"is_parser_result": isinstance(result, Obj) and result.cls is ParserResult,
                "output_is_what_the_function_returned": result.attrs["parser_output"] is parser_output,
                "parsed_object_is_what_it_was_applied_to": result.attrs["parsed_object"] is parse_obj}


class ParserCall(Contract):
    """Parser.__call__(parse_obj, column): back end of the object's type, built on THIS parser, called once with object and column"""

    target = "pandera.api.parsers:Parser.__call__"
    raises = (KeyError,)

    def make_args(self):
        be_cls = T.Callback(T.Callback(T.Lazy(lambda n: SAny(name=n)), raises=False), raises=False)
        prs = T.Ref(None, get_backend=T.Callback(be_cls, raises=True)).fresh("parser")
        return {"self": prs, "parse_obj": SAny(name="parse_obj"), "column": T.fresh_value(T.Opt(T.Label), "column")}

    def call_target(self, I, fn, a):
        I.callback_raise_classes = [KeyError]
        return I.call(fn, [a["self"], a["parse_obj"], a["column"]], {})

    def ensures(self, result, old, self_, parse_obj, column):
        gb = fld0(self_, "get_backend")
        ev = [e for e in cur().events if e[0] == "callback"]
        out = {"backend_looked_up_once_for_the_object": len(gb.calls) == 1 and len(gb.calls[0][0]) == 1 and gb.calls[0][0][0] is parse_obj, "three_calls_in_a_chain": len(ev) == 3}
        if len(ev) == 3:
            out["backend_built_on_this_parser"] = len(ev[1][3]) == 1 and ev[1][3][0] is self_
            out["backend_called_with_the_object_and_the_column"] = len(ev[2][3]) == 2 and ev[2][3][0] is parse_obj and ev[2][3][1] is column
        out["returns_the_backends_result"] = isinstance(result, SAny)
        return out

    def on_raise(self, exc, old, **a):
        return {"only_the_backend_lookup_raises": exc.attrs.get("__from_callback__") is not None}


def _element_wise_table_standin(seed=0, tier="quick"):
    """element-wise parser over a table (DataFrame.map / applymap): every cell is f(cell)"""
    import itertools
    import warnings

    import pandas as pd
    import pandera as pa
    from pandera.backends.pandas.parsers import PandasParserBackend

    warnings.simplefilter("ignore")
    n = 0
    bound = "frames of 0-2 rows x 2 columns over {1.0, -2.5}; f(x) = x * 2 + 1"
    f = lambda x: x * 2 + 1  # noqa: E731
    for h in range(0, 3):
        for cells in itertools.product([1.0, -2.5], repeat=2 * h):
            n += 1
            df = pd.DataFrame({"a": list(cells[:h]), "b": list(cells[h:])}, dtype=float)
            out = PandasParserBackend(pa.Parser(f, element_wise=True)).apply_table(df)
            want = pd.DataFrame({"a": [f(v) for v in cells[:h]], "b": [f(v) for v in cells[h:]]}, dtype=float)
            if not out.equals(want):
                return {"examples": n, "bound": bound, "failing_input": {"a": list(cells[:h]), "b": list(cells[h:])}, "observed": out.to_dict("list")}
    return {"examples": n, "bound": bound, "failing_input": None}


BOUNDED = [_element_wise_table_standin]
CONTRACTS = [ArrayRunParsers, ContainerRunParsers, RunParser, ParserCall, ParserBackendCall, ParserPreprocess, ParserApplyDispatch, ParserApplyField, ParserApplyTable, ParserPostprocess]
