"""C15 - "op(S) accepts exactly the frames op(D) for frames D that S accepts": needs the semantics of `validate`
(back ends, pandas) which is outside PyVC's subset.  The obligation is therefore carried by a BOUNDED stand-in:
the same statement evaluated at run time on the real code over generated schemas / frames / operation sequences.
Labelled bounded, never counted as proof.

Bound: schemas over <= 4 columns (int >= 0 / str / float, nullable, unique, required) with optional single Index,
conforming frames of <= 5 rows x <= 4 columns, programs of <= 3 operations out of
add_columns, remove_columns, rename_columns, select_columns, update_column, set_index, reset_index.
Both directions are tested: accept(S, D) => accept(op(S), op(D)), and for the operations that are bijections on
frames (rename, select-permutation, set_index, reset_index) also reject(S, D') => reject(op(S), op(D')) where D'
breaks one check.  Configurations covered by an OPEN finding are not generated (ordered=True with reset_index,
parsers / coerce on a column that moves to the index, duplicate or empty key lists): see known_findings_C15.json.
"""
from pyvc.core import Unsupported
from pyvc.spec import Contract


def _frames_standin(seed=0, tier="quick"):
    import random

    import pandas as pd

    import pandera as pa
    from pandera.errors import SchemaError, SchemaErrors

    rng = random.Random(seed)
    n_cases = 150 if tier == "quick" else 2000
    bound = f"{n_cases} programs <= 3 ops, schemas <= 4 columns, frames <= 5 x 4"
    KINDS = {"int": (int, lambda: rng.randint(0, 9)), "str": (str, lambda: rng.choice("xyz")), "float": (float, lambda: rng.random())}

    def new_col(kind, nullable=False, unique=False):
        dt, _ = KINDS[kind]
        return pa.Column(dt, [pa.Check.ge(0)] if kind == "int" else None, nullable=nullable, unique=unique and kind == "int")

    def accepts(S, D):
        try:
            S.validate(D, lazy=True)
            return True
        except (SchemaError, SchemaErrors):
            return False

    for case in range(n_cases):
        names = rng.sample(["a", "b", "c", "d"], rng.randint(1, 4))
        kinds = {n: rng.choice(list(KINDS)) for n in names}
        nrows = rng.randint(1, 5)
        data = {}
        for n in names:
            vals = [KINDS[kinds[n]][1]() for _ in range(nrows)]
            if kinds[n] == "int":
                vals = rng.sample(range(20), nrows)  # distinct, so that unique / index use is fine
            data[n] = vals
        D = pd.DataFrame(data)
        S = pa.DataFrameSchema({n: new_col(kinds[n], unique=rng.random() < 0.3) for n in names}, strict=rng.random() < 0.5)
        if not accepts(S, D):
            return {"examples": case, "bound": bound, "failing_input": {"schema": str(S), "frame": D.to_dict()}, "observed": "generator produced a non-conforming frame"}
        # a frame that S rejects: one negative int
        ints = [n for n in names if kinds[n] == "int"]
        Dbad = None
        if ints:
            Dbad = D.copy()
            Dbad.loc[Dbad.index[0], ints[0]] = -5
        prog, bij = [], True
        for _ in range(rng.randint(1, 3)):
            cols = list(S.columns)
            idx_names = [] if S.index is None else list(S.index.names)
            ops = ["add"]
            if len(cols) > 1:
                ops += ["remove", "select", "set_index"]
            if cols:
                ops += ["rename", "update"]
            if idx_names:
                ops += ["reset_index"]
            op = rng.choice(ops)
            if op == "add":
                nm = "n%d" % len(prog)
                k = rng.choice(list(KINDS))
                vals = rng.sample(range(20), len(D)) if k == "int" else [KINDS[k][1]() for _ in range(len(D))]
                S2, f = S.add_columns({nm: new_col(k)}), (lambda X, nm=nm, vals=vals: X.assign(**{nm: vals}))
            elif op == "remove":
                rm = rng.sample(cols, rng.randint(1, len(cols) - 1))
                S2, f = S.remove_columns(rm), (lambda X, rm=rm: X.drop(columns=rm))
                bij = bij and not any(c in ints[:1] for c in rm)
            elif op == "select":
                sel = rng.sample(cols, rng.randint(1, len(cols)))
                S2, f = S.select_columns(sel), (lambda X, sel=sel: X[sel])
                bij = bij and (not ints or ints[0] in sel or ints[0] not in cols)
            elif op == "rename":
                old = rng.choice(cols)
                m = {old: old + "_r"}
                S2, f = S.rename_columns(m), (lambda X, m=m: X.rename(columns=m))
                ints = [m.get(c, c) for c in ints]
            elif op == "update":
                c = rng.choice(cols)
                S2, f = S.update_column(c, nullable=True), (lambda X: X)
            elif op == "set_index":
                cand = [c for c in cols if c in ints] or cols
                k = rng.choice(cand)
                S2, f = S.set_index([k]), (lambda X, k=k: X.set_index(k))
            else:
                S2, f = S.reset_index(), (lambda X: X.reset_index())
            prog.append(op)
            D2 = f(D)
            ok = accepts(S2, D2)
            if not ok:
                return {"examples": case + 1, "bound": bound, "failing_input": {"program": prog, "schema_before": str(S), "frame_before": D.to_dict(), "index": list(D.index)},
                        "observed": f"S accepts D but {op}(S) rejects {op}(D)"}
            if Dbad is not None and bij and ints and (ints[0] in list(S2.columns) or ints[0] in ([] if S2.index is None else list(S2.index.names))):
                D2bad = f(Dbad)
                if accepts(S2, D2bad):
                    return {"examples": case + 1, "bound": bound, "failing_input": {"program": prog, "schema_before": str(S), "frame_before": Dbad.to_dict()},
                            "observed": f"S rejects D' but {op}(S) accepts {op}(D')"}
                Dbad = D2bad
            elif Dbad is not None:
                try:
                    Dbad = f(Dbad)
                except Exception:  # noqa
                    Dbad = None
            S, D = S2, D2
    return {"examples": n_cases, "bound": bound, "failing_input": None}


class AcceptsTransformedFrames(Contract):
    """accept(S, D) => accept(op(S), op(D)) (and the converse for bijective ops) - bounded stand-in only."""

    target = "pandera.api.pandas.container:DataFrameSchema.validate"

    def make_args(self):
        raise Unsupported("the meaning of validate (back ends, pandas) is outside the verifiable subset: run-time contract (DESIGN 8, C15 B)")

    bounded_standin = staticmethod(_frames_standin)


CONTRACTS = [AcceptsTransformedFrames]
