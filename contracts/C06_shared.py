"""C06: contracts shared with other properties (exception channel + restore on exceptional exits)."""
from contracts.C03_container_validate import ContainerValidate
from contracts.C03_series_validate import SeriesSchemaValidate
from contracts.C04_field_validate import ArrayValidate, IndexValidate
from contracts.C04_polars_api import CONTRACTS as POLARS_API
from contracts.C05_component_restore import ColumnValidateRestoresSchema, RunSchemaComponentChecks
from contracts.C18_config import ConfigContext
from contracts.C20_subsample import PolarsSubsample
from contracts.C11_drop_invalid_rows import PandasDropInvalidRows, PolarsDropInvalidRows
from contracts.C03_polars_container_validate import PolarsContainerValidate
from contracts.C04_polars_column_validate import PolarsColumnValidate
from contracts.C05_multiindex_validate import MultiIndexValidate
from contracts.C05_polars_components import PolarsRunSchemaComponentChecks
from contracts.C03_polars_parsers import PolarsAddMissingColumns, PolarsSetDefault
from contracts.C02_polars_column_collect import PolarsColumnCollect
from contracts.C10_polars_failure_cases import PolarsCoerceFailureCases  # the mask of a failed coercion has one row per data row (else the report itself raises)
from contracts.C08_polars_column_checks import IsFloatDtype, PolarsCheckNullable  # is_nan only on float columns (else polars raises)
from contracts.C02_polars_report import PolarsFailureCasesReport  # building the lazy report does not raise
from contracts.C05_dtype_receivers import CONTRACTS as DTYPE_CHECKS  # exit.only_documented_exceptions of every dtype `check` override

CONTRACTS = [ContainerValidate, SeriesSchemaValidate, ArrayValidate, IndexValidate, ColumnValidateRestoresSchema, RunSchemaComponentChecks,
             ConfigContext, PolarsSubsample, PandasDropInvalidRows, PolarsDropInvalidRows, PolarsContainerValidate, PolarsColumnValidate, MultiIndexValidate, PolarsRunSchemaComponentChecks, PolarsAddMissingColumns, PolarsSetDefault, PolarsColumnCollect, PolarsCoerceFailureCases, IsFloatDtype, PolarsCheckNullable, PolarsFailureCasesReport] + list(POLARS_API) + list(DTYPE_CHECKS)

from contracts.C02_coerce_helper import CoerceDtypeHelper  # noqa: E402  (failures leave no trace: the schema's components after a coercion error, incl. the MultiIndex exit)

CONTRACTS += [CoerceDtypeHelper]

from contracts.C18_guards import CONTRACTS as _API_VALIDATE  # noqa: E402  (the public pandas validate entry points: only documented exceptions - a column named like a dask attribute, a non-dataframe argument)

CONTRACTS += list(_API_VALIDATE)
