"""C02: PandasSchemaBackend.failure_cases_metadata - the error counts of the lazy report.

  error_counts[r] == number of collected errors whose reason code is r, for every r, whatever validation depth is configured
  (the summary MESSAGE is filtered by depth; the counts are not), and the sum equals the number of errors.
Proved for every configuration and for m in {0,1,2,3} errors over a three-letter alphabet of reason codes (one SCHEMA-scoped,
two DATA-scoped): the number of errors and the alphabet are bounds of this obligation (case split over m).
"""
from collections import Counter

from pandera.errors import FailureCaseMetadata, SchemaError, SchemaErrorReason
from pyvc import core, types as T
from pyvc.core import And, Iff, Implies, Not, Or, PyExc, SAny, SBool, cur, py_eq
from pyvc.heap import DictObj, ListObj, Obj
from pyvc.spec import Contract
from pyvc.theories import pandas_lite as PL
from contracts.util import fld, fld0

CODES = [SchemaErrorReason.WRONG_DATATYPE, SchemaErrorReason.DATAFRAME_CHECK, SchemaErrorReason.DATATYPE_COERCION]


class FailureCasesMetadataCounts(Contract):
    target = "pandera.backends.pandas.base:PandasSchemaBackend.failure_cases_metadata"
    split = {"m": [0, 1, 2, 3]}
    opaque = ("pandera.backends.pandas.error_formatters:consolidate_failure_cases",)

    def setup(self, I):
        PL.install(I)
        # str(error) of a collected SchemaError: opaque text
        import builtins

    def make_args(self):
        m = self.fixed.get("m", 1)
        errs = ListObj()
        for j in range(m):
            e = Obj(SchemaError, f"err{j}", pre=True, fields=dict(schema=T.Ref(None, name=T.Const("col")), check=T.Const("some_check"), failure_cases=T.Const(None),
                                                                  reason_code=T.OneOf(*CODES), data=T.Any))
            e.attrs["args"] = ("msg",)
            errs.append(e)
        cur().ghost["errs"] = errs
        return {"self": T.Ref(None).fresh("self"), "schema_name": T.fresh_value(T.Any, "schema_name"), "schema_errors": errs}

    def call_target(self, I, fn, a):
        return I.call(fn, [a["self"], a["schema_name"], a["schema_errors"]], {})

    def modifies(self, self_, schema_name, schema_errors):
        return [(e, "data") for e in schema_errors]  # collect_error drops the data reference of a stored error (C02 CollectError)

    def ensures(self, result, old, self_, schema_name, schema_errors):
        want = Counter(fld0(e, "reason_code").name for e in schema_errors)
        counts = result.attrs["error_counts"] if isinstance(result, Obj) else None
        out = {"is_metadata_record": isinstance(result, Obj) and result.cls is FailureCaseMetadata}
        if counts is None:
            return out
        got = {k: v for k, v in dict(counts).items() if v != 0}
        out["counts_equal_errors_per_reason"] = got == dict(want)
        out["counts_sum_to_number_of_errors"] = sum(got.values()) == len(schema_errors)
        return out


CONTRACTS = [FailureCasesMetadataCounts]
