"""C04: contracts shared with C03/C05 (their frame obligations on the caller's data are the C04 statement)."""
from contracts.C03_container_validate import ContainerValidate
from contracts.C03_series_validate import SeriesSchemaValidate
from contracts.C05_component_restore import ColumnValidateRestoresSchema

from contracts.C04_polars_column_validate import PolarsColumnValidate  # noqa: F401  (own file: C04_polars_column_validate.py)

from contracts.C05_multiindex_validate import MultiIndexValidate

CONTRACTS = [ContainerValidate, SeriesSchemaValidate, ColumnValidateRestoresSchema, MultiIndexValidate]
