"""C16 - DataFrameModel.to_schema: the compiler driver (wiring, options, cache, frame).

Function under contract (real source): pandera.api.dataframe.model:DataFrameModel.to_schema, with `cls` a heap object
standing for an arbitrary model class.  Collaborators are under their own contracts and appear here as recorded calls
(S-callback: arbitrary results / exceptions, no writes): _collect_fields, _collect_check_infos, _collect_parser_infos,
_extract_checks, _extract_df_checks, _extract_parsers, _extract_df_parsers, build_schema_, _convert_extras_to_checks.

Specification (property statement): "Config options ... validate exactly like the object-API schema with the same columns,
checks and options"; "to_schema is stable (repeated calls return equal schemas)"; "a subclass never alters its parents'
schemas"; anchors: "per-class compilation results stored on the class and in a global cache".
"""
import typing

import z3

from pandera.api.dataframe import model as MODEL
from pandera.api.dataframe.model_components import CHECK_KEY, DATAFRAME_CHECK_KEY, DATAFRAME_PARSER_KEY, PARSER_KEY
from pandera.errors import SchemaInitError
from pyvc import core, types as T
from pyvc.core import And, Iff, Implies, Not, Or, SAny, SBool, cur, py_eq
from pyvc.heap import DictObj, ListObj, Obj
from pyvc.interp import OtherException
from pyvc.spec import Contract
from pyvc.theories import classmodel as CM
from pyvc.values import BoundMethod, SymCallable, SymDict, SymSeq
from contracts.util import fld, fld0

DM = "pandera.api.dataframe.model:DataFrameModel"

# The schema-wide options: every public Config option that the object API offers under the same name, i.e. that is a parameter
# of DataFrameSchema.__init__ (taken from the two public APIs, not from to_schema's own table).
def _schema_options():
    import inspect

    from pandera.api.dataframe.model_config import BaseConfig
    from pandera.api.pandas.container import DataFrameSchema

    params = set(inspect.signature(DataFrameSchema.__init__).parameters)
    return tuple(o for o in vars(BaseConfig) if not o.startswith("_") and o in params)


SCHEMA_OPTIONS = _schema_options()
COMPILED_ATTRS = ("__fields__", "__checks__", "__root_checks__", "__parsers__", "__root_parsers__", "__schema__")
COLLABORATORS = ("_collect_fields", "_collect_check_infos", "_collect_parser_infos", "_extract_checks", "_extract_df_checks",
                 "_extract_parsers", "_extract_df_parsers", "build_schema_")


class CacheMap:
    """MODEL_CACHE: a dict keyed by class objects; whether `cls` is cached at entry is symbolic"""

    __pyvc_symbolic__ = True

    def __init__(self, name):
        self.name = name
        self.cached0 = core.sym_bool("cls in MODEL_CACHE")
        core.register_model_var("cls in MODEL_CACHE", self.cached0.z)
        self.entry0 = SAny(name="MODEL_CACHE[cls]")
        self.writes = []  # (key, value)
        self.reads = []

    def _cur(self, k):
        for kk, v in reversed(self.writes):
            if kk is k:
                return True, v
        return self.cached0, self.entry0

    def pyvc_contains(self, I, x):
        return self._cur(x)[0]

    def pyvc_getitem(self, I, k):
        has, v = self._cur(k)
        if not cur().decide(has, "cached"):
            I.raise_py(KeyError, k)
        self.reads.append(k)
        return v

    def pyvc_setitem(self, I, k, v):
        self.writes.append((k, v))


def _one_list(name):
    return T.Lazy(lambda n: ListObj([SAny(name=name)]))


class ToSchema(Contract):
    target = f"{DM}.to_schema"
    raises = (SchemaInitError, OtherException)
    sym_globals = {"pandera.api.dataframe.model:MODEL_CACHE": T.Lazy(lambda n: CacheMap(n))}
    split = {"config": ["given", "None"], "extras": ["given", "None"]}

    def setup(self, I):
        CM.drop_transient_models(I)
        I.models[id(typing.cast)] = lambda I, t, v: v  # typing.cast is the identity (documented)

        def convert_extras(I, extras):
            r = ListObj([SAny(name="registered_check")])
            cur().ghost.setdefault("convert_extras_calls", []).append((extras, r))
            return r

        I.models[id(MODEL._convert_extras_to_checks)] = convert_extras

    def make_args(self):
        for k, v in self.fixed.items():
            core.register_model_var(k, lambda m, v=v: v)
        cls = Obj(MODEL.DataFrameModel, "cls", pre=True)
        annot = lambda n: (Obj(None, n + ".annotation", pre=True, fields=dict(arg=T.Any)), SAny(name=n + ".field"))
        res = {
            "_collect_fields": T.Lazy(lambda n: SymDict.fresh("fields", T.Str, T.Lazy(annot))),
            "_collect_check_infos": T.Any, "_collect_parser_infos": T.Any,
            "_extract_checks": T.Any, "_extract_parsers": T.Any,
            "_extract_df_checks": _one_list("df_check"), "_extract_df_parsers": _one_list("df_parser"),
            "build_schema_": T.Any,
        }
        for nm in COLLABORATORS:
            cb = SymCallable(nm, res[nm])
            cls.attrs[nm] = cb
            cls.attrs0[nm] = cb
        cfg = None
        if self.fixed.get("config", "given") == "given":
            cfg = Obj(None, "cls.__config__", pre=True, fields={**{o: T.Any for o in SCHEMA_OPTIONS}, "description": T.Opt(T.Any)})
        extras = SAny(name="cls.__extras__") if self.fixed.get("extras", "given") == "given" else None
        for k, v in (("__config__", cfg), ("__extras__", extras), ("__doc__", SAny(name="cls.__doc__"))):
            cls.attrs[k] = v
            cls.attrs0[k] = v
        return {"cls": cls}

    def call_target(self, I, fn, a):
        return I.call(fn, [a["cls"]], {})

    def _cache(self):
        return cur().globals_state.get(("pandera.api.dataframe.model", "MODEL_CACHE"))

    def _calls(self, cls):
        return {nm: cls.attrs0[nm].calls for nm in COLLABORATORS}

    def _foreign_writes(self, cls):
        return [(o.name, a) for o in cur().objects if o.pre and o is not cls for a in o.writes]

    def ensures(self, result, old, cls):
        cache = self._cache()
        calls = self._calls(cls)
        out = {"consults_the_cache": isinstance(cache, CacheMap)}
        if not isinstance(cache, CacheMap):
            return out
        was_cached = cur().decide(cache.cached0, "case: cached at entry")
        if was_cached:
            # stability: a compiled class returns the very same schema object and nothing is recompiled or written
            out["cached_schema_is_returned"] = result is cache.entry0
            out["nothing_recompiled"] = all(c == [] for c in calls.values()) and cur().ghost.get("convert_extras_calls", []) == []
            out["nothing_written"] = cls.writes == [] and cache.writes == [] and self._foreign_writes(cls) == []
            return out
        once = lambda nm: len(calls[nm]) == 1
        out["every_stage_runs_once"] = all(once(nm) for nm in COLLABORATORS if not nm.startswith("_collect_") or nm == "_collect_fields") \
            and len(calls["_collect_check_infos"]) == 2 and len(calls["_collect_parser_infos"]) == 2 and len(cur().ghost.get("convert_extras_calls", [])) == 1
        if not out["every_stage_runs_once"]:
            return out
        ev = {(e[1], e[2]): e for e in cur().events if e[0] == "callback"}
        rets = cur().ghost.setdefault("rets", {})

        fields = cls.attrs.get("__fields__")
        out["fields_are_the_collected_fields"] = isinstance(fields, SymDict) and fields.name == "fields"
        keys = fields.keys_seq if isinstance(fields, SymDict) else None
        # column checks: _extract_checks(<infos collected under CHECK_KEY>, field_names=<names of the collected fields>)
        (cargs, ckw) = calls["_extract_checks"][0]
        ci = calls["_collect_check_infos"]
        out["column_checks_from_check_methods"] = ci[0][0] == (CHECK_KEY,) and len(cargs) == 1 and cargs[0] is self._ret(cls, "_collect_check_infos", 0) \
            and set(ckw) == {"field_names"} and ckw["field_names"] is keys and cls.attrs.get("__checks__") is self._ret(cls, "_extract_checks", 0)
        (pargs, pkw) = calls["_extract_parsers"][0]
        pi = calls["_collect_parser_infos"]
        out["column_parsers_from_parser_methods"] = pi[0][0] == (PARSER_KEY,) and len(pargs) == 1 and pargs[0] is self._ret(cls, "_collect_parser_infos", 0) \
            and set(pkw) == {"field_names"} and pkw["field_names"] is keys and cls.attrs.get("__parsers__") is self._ret(cls, "_extract_parsers", 0)
        # dataframe-level checks: @dataframe_check methods, then the checks declared as extra Config attributes
        (dargs, dkw) = calls["_extract_df_checks"][0]
        ex_arg, ex_ret = cur().ghost["convert_extras_calls"][0]
        root = cls.attrs.get("__root_checks__")
        custom = self._ret(cls, "_extract_df_checks", 0)
        out["dataframe_checks_are_methods_then_config_extras"] = ci[1][0] == (DATAFRAME_CHECK_KEY,) and dargs == (self._ret(cls, "_collect_check_infos", 1),) and dkw == {} \
            and isinstance(root, list) and len(root) == 2 and root[0] is custom[0] and root[1] is ex_ret[0]
        e0 = cls.attrs0["__extras__"]
        out["config_extras_become_checks"] = (ex_arg is e0) if e0 is not None else (isinstance(ex_arg, dict) and len(ex_arg) == 0)
        (qargs, qkw) = calls["_extract_df_parsers"][0]
        out["dataframe_parsers_from_methods"] = pi[1][0] == (DATAFRAME_PARSER_KEY,) and qargs == (self._ret(cls, "_collect_parser_infos", 1),) \
            and cls.attrs.get("__root_parsers__") is self._ret(cls, "_extract_df_parsers", 0)
        # options
        (bargs, bkw) = calls["build_schema_"][0]
        cfg = cls.attrs0["__config__"]
        if cfg is None:
            out["no_config_no_options"] = bargs == () and bkw == {}
        else:
            out["only_schema_options_are_forwarded"] = bargs == () and set(bkw) <= set(SCHEMA_OPTIONS)
            for o in SCHEMA_OPTIONS:
                if o != "description":
                    out[f"option_{o}_has_the_config_value"] = o in bkw and bkw.get(o) is fld0(cfg, o)
            d = fld0(cfg, "description")
            if d is None:
                out["description_defaults_to_the_docstring"] = bkw.get("description") is cls.attrs0["__doc__"]
            else:
                out["description_defaults_to_the_docstring"] = Implies(Not(d.truth()), bkw.get("description") is cls.attrs0["__doc__"])
                out["description_option_wins"] = Implies(d.truth(), bkw.get("description") is d)
        # result, cache, frame
        schema = self._ret(cls, "build_schema_", 0)
        out["returns_the_built_schema"] = result is schema and cls.attrs.get("__schema__") is schema
        out["schema_is_cached_for_this_class_only"] = len(cache.writes) == 1 and cache.writes[0][0] is cls and cache.writes[0][1] is schema
        out["writes_only_the_compiled_attributes_of_this_class"] = set(cls.writes) == set(COMPILED_ATTRS) and self._foreign_writes(cls) == []
        out["stages_run_before_the_schema_is_built"] = self._order_ok(cls)
        return out

    def _ret(self, cls, nm, idx):
        """the value the idx-th call of collaborator nm returned (re-created values are memoised by the callback event order)"""
        store = cur().ghost.get("cb_returns", {})
        return store.get((nm, idx))

    def _order_ok(self, cls):
        order = [(e[1], e[2]) for e in cur().events if e[0] == "callback"]
        return order.index(("build_schema_", 0)) == len(order) - 1

    def on_raise(self, exc, old, cls):
        cache = self._cache()
        out = {"a_failed_compilation_is_not_cached": not isinstance(cache, CacheMap) or cache.writes == []}
        if exc.cls is SchemaInitError:
            out["init_error_only_for_generic_dtype"] = len(cls.attrs0["_collect_fields"].calls) == 1 and cls.attrs0["build_schema_"].calls == []
        else:
            out["only_collaborators_raise"] = exc.attrs.get("__from_callback__") is not None
        out["no_foreign_writes"] = self._foreign_writes(cls) == []
        return out


def _install_return_recording():
    """remember what each collaborator call returned (SymCallable results are fresh values; contracts compare by identity)"""
    from pyvc.interp import Interp

    if getattr(Interp, "_c16_records_returns", False):
        return
    orig = Interp.call_callback

    def call_callback(self, cb, args, kwargs):
        idx = len(cb.calls)
        r = orig(self, cb, args, kwargs)
        cur().ghost.setdefault("cb_returns", {})[(cb.name, idx)] = r
        return r

    Interp.call_callback = call_callback
    Interp._c16_records_returns = True


_install_return_recording()

CONTRACTS = [ToSchema]
