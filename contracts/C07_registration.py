"""C07 (first use from several threads): the lazy registration of the back ends.

`schema.get_backend(obj)` first calls `register_default_backends(type(obj))` -> `register_pandas_backends(fqn)` /
`register_polars_backends(fqn)` and then reads `BACKEND_REGISTRY`.  Two threads whose first validations overlap both go through
this.  The outcome of each call is independent of the interleaving if (sufficient condition, decided here on the real body):

  publish.nothing_shared_is_written_before_the_last_registration
      the registration function writes NO shared state (module global, module-level container, pre-existing object) before its
      last `register_backend` call: whatever another thread can observe of it other than registry entries - in particular any
      "already registered" marker - exists only once every entry is in place.  (functools.lru_cache satisfies this by
      construction: it memoises completed calls only; the decorator is not part of the verified body, `<unwrap>`.)
  post.every_declared_type_gets_its_backends
      on normal return a back end has been offered to the registry for every data type `get_backend_types` declares, for each
      schema class that validates that kind of data, and a check / parser back end for every check type.
  each registry write is `register_backend` itself, whose body is proved to be an idempotent publish
      (`if key not in R: R[key] = backend`: an entry, once present, is never replaced).

A refuted publish obligation is replayed with a forced schedule in a fresh interpreter: thread A is suspended (sys.settrace) at
its first register_backend call, thread B validates meanwhile; B's outcome is compared with its solo outcome.
"""
import inspect
import subprocess
import sys
import textwrap

from pandera.errors import BackendNotFoundError
from pyvc import core, types as T
from pyvc.core import PyExc, SAny, cur
from pyvc.heap import Obj
from pyvc.interp import OtherException
from pyvc.spec import Contract

SHARED_EVENTS = ("global_write", "shared_container_write", "container_write", "write")


def _registration_contract(target, fqns, expected, replay_lib):
    class Registration(Contract):
        raises = (BackendNotFoundError, AssertionError)
        split = {"fqn": list(fqns)}
        check_frame = False

        def setup(self, I):
            from pandera.api.base.checks import BaseCheck
            from pandera.api.base.parsers import BaseParser
            from pandera.api.base.schema import BaseSchema

            def register_backend(I, cls, type_, backend):
                p = cur()
                p.ghost.setdefault("registered", []).append((cls, type_, backend))
                p.event("register_backend", getattr(cls, "__name__", str(cls)), getattr(type_, "__name__", str(type_)))
                return None

            for base in (BaseSchema, BaseCheck, BaseParser):
                I.models[id(base.register_backend.__func__)] = register_backend
            import importlib

            import pandera.api.pandas.types as pt

            def get_backend_types(I, fqn):
                try:
                    return pt.get_backend_types(fqn)  # pure function of a concrete string (its own lru_cache aside): run natively
                except BackendNotFoundError as e:
                    raise PyExc(I.make_exc(BackendNotFoundError, *e.args))

            I.models[id(pt.get_backend_types)] = get_backend_types
            pn = importlib.import_module("pandera._patch_numpy2")  # (the package attribute of that name is the function itself)
            I.models[id(inspect.unwrap(pn._patch_numpy2))] = lambda I: None
            I.models[id(pn._patch_numpy2)] = lambda I: None  # numpy compatibility shim: import-time idempotent patch, no pandera state

        def make_args(self):
            return {"check_cls_fqn": self.fixed.get("fqn", fqns[0])}

        def call_target(self, I, fn, a):
            return I.call(fn, [a["check_cls_fqn"]], {})

        def _shared_writes_before_last_registration(self):
            evs = cur().events
            regs = [i for i, e in enumerate(evs) if e[0] == "register_backend"]
            last = regs[-1] if regs else -1
            early = []
            for i, e in enumerate(evs[: max(last, 0)]):
                if e[0] in ("global_write", "shared_container_write"):
                    early.append(f"{e[0]} {e[1]}")
                elif e[0] == "container_write" and getattr(e[1], "pre", False):
                    early.append(f"container_write {getattr(e[1], 'name', '?')}")
                elif e[0] == "write" and getattr(e[1], "pre", False) and not str(e[2]).startswith("__"):
                    early.append(f"write {e[1].name}.{e[2]}")
            return early, len(regs)

        def ensures(self, result, old, check_cls_fqn):
            p = cur()
            early, nregs = self._shared_writes_before_last_registration()
            if early:
                core.register_model_var("shared writes before the last register_backend call", lambda m, e=tuple(early): list(e))
            reg = {(getattr(c, "__name__", str(c)), t) for c, t, _ in p.ghost.get("registered", [])}
            exp = expected(check_cls_fqn)
            missing = sorted(f"{c}/{getattr(t, '__name__', t)}" for c, t in exp if (c, t) not in reg)
            out = {"nothing_shared_is_written_before_the_last_registration": not early,
                   "every_declared_type_gets_its_backends": nregs > 0 and not missing}
            # p.check under the publish.* id so that the violation names the obligation of the docstring
            return {"publish." + k if k.startswith("nothing") else k: v for k, v in out.items()}

        def on_raise(self, exc, old, check_cls_fqn):
            early, nregs = self._shared_writes_before_last_registration()
            return {"nothing_registered_when_the_type_is_refused": nregs == 0,
                    "publish.nothing_shared_is_written_before_the_last_registration": not early}

        def concretize(self, rec):
            def thunk():
                code = textwrap.dedent(replay_lib)
                p = subprocess.run([sys.executable, "-c", code], capture_output=True, text=True, timeout=300)
                out = (p.stdout + p.stderr).strip().splitlines()
                return p.returncode == 1, {"forced schedule (A suspended inside registration, B validates)": out[-3:]}

            return thunk

    Registration.target = target
    Registration.__name__ = "Registration_" + target.rsplit(":", 1)[1].split(".")[0]
    return Registration


def _pandas_expected(fqn):
    from pandera.api.pandas.types import get_backend_types

    bt = get_backend_types(fqn)
    exp = set()
    for t in bt.check_backend_types:
        exp |= {("Check", t), ("Hypothesis", t), ("Parser", t)}
    for t in bt.dataframe_datatypes:
        exp |= {("DataFrameSchema", t), ("Column", t), ("MultiIndex", t), ("Index", t)}
    for t in bt.series_datatypes:
        exp |= {("SeriesSchema", t), ("Column", t), ("Index", t)}
    for t in bt.index_datatypes:
        exp |= {("Index", t)}
    for t in bt.multiindex_datatypes:
        exp |= {("MultiIndex", t)}
    return exp


def _polars_expected(fqn):
    import polars as pl

    # pandera.polars validates a DataFrame as a LazyFrame (api level: check_obj.lazy()), so LazyFrame is the only registered type
    return {("DataFrameSchema", pl.LazyFrame), ("Column", pl.LazyFrame), ("Check", pl.LazyFrame)}


_SCHEDULE = '''
import sys, threading, warnings
warnings.simplefilter("ignore")
{imports}
solo_ok = None
gate, resume = threading.Event(), threading.Event()
result = {{}}

def tracer(frame, event, arg):
    # suspend thread A at its first call of a pandera register_backend class method
    if event == "call" and frame.f_code.co_name == "register_backend" and "pandera" in frame.f_code.co_filename and not gate.is_set():
        gate.set()
        resume.wait(20)
    return None

def a():
    sys.settrace(tracer)
    try:
        {validate}
        result["A"] = "accepted"
    except Exception as e:
        result["A"] = type(e).__name__
    finally:
        sys.settrace(None)

def b():
    try:
        {validate}
        result["B"] = "accepted"
    except Exception as e:
        result["B"] = type(e).__name__

ta = threading.Thread(target=a); ta.start()
if not gate.wait(20):
    print("registration was not entered (already registered?)"); resume.set(); ta.join(); sys.exit(0)
tb = threading.Thread(target=b); tb.start(); tb.join(20)
resume.set(); ta.join(20)
print(result)
sys.exit(1 if result.get("B") != "accepted" or result.get("A") != "accepted" else 0)
'''

PANDAS_REPLAY = _SCHEDULE.format(imports="import pandas as pd, pandera as pa\nschema = pa.DataFrameSchema({'a': pa.Column(int)})\ndf = pd.DataFrame({'a': [1]})",
                                 validate="schema.validate(df)")
POLARS_REPLAY = _SCHEDULE.format(imports="import polars as pl, pandera.polars as pa\nschema = pa.DataFrameSchema({'a': pa.Column(int)})\ndf = pl.DataFrame({'a': [1]})",
                                 validate="schema.validate(df)")

PANDAS_FQNS = ["pandas.core.frame.DataFrame", "pandas.core.series.Series", "pandas.core.indexes.base.Index", "pandas.core.indexes.multi.MultiIndex",
               "builtins.int"]
POLARS_FQNS = ["polars.lazyframe.frame.LazyFrame"]


class RegisterBackendIsIdempotentPublish(Contract):
    """BaseSchema.register_backend: an entry that is present is never replaced; an absent one is set to the offered back end;
    no other key is touched."""

    target = "pandera.api.base.schema:BaseSchema.register_backend"
    check_frame = False

    def make_args(self):
        # the registry key is (cls, type_): two opaque class objects (equality = identity); back ends are arbitrary values
        class SchemaCls:
            BACKEND_REGISTRY = {}

        class DataCls:
            pass

        class OtherDataCls:
            pass

        k = cur().choose([("absent", None), ("present", None)], "key")
        old = SAny(name="old_backend")
        other_key, other_val = (SchemaCls, OtherDataCls), SAny(name="other_backend")
        reg = SchemaCls.BACKEND_REGISTRY
        reg[other_key] = other_val
        if k == 1:
            reg[(SchemaCls, DataCls)] = old
        cur().ghost["reg"] = (reg, k == 1, old, other_key, other_val)
        return {"cls": SchemaCls, "type_": DataCls, "backend": SAny(name="backend")}

    def call_target(self, I, fn, a):
        return I.call(fn, [a["cls"], a["type_"], a["backend"]], {})

    def ensures(self, result, old, cls, type_, backend):
        reg, present, oldv, ok, ov = cur().ghost["reg"]
        now = dict.get(reg, (cls, type_))
        return {"present_entry_is_never_replaced": (now is oldv) if present else True,
                "absent_entry_is_set_to_the_offered_backend": (now is backend) if not present else True,
                "other_entries_untouched": dict.get(reg, ok) is ov and len(reg) == 2,
                "registry_object_not_rebound": cls.BACKEND_REGISTRY is reg}


class CheckRegisterBackendIsIdempotentPublish(RegisterBackendIsIdempotentPublish):
    target = "pandera.api.base.checks:BaseCheck.register_backend"


CONTRACTS = [
    _registration_contract("pandera.backends.pandas.register:register_pandas_backends.<unwrap>", PANDAS_FQNS, _pandas_expected, PANDAS_REPLAY),
    _registration_contract("pandera.backends.polars.register:register_polars_backends.<unwrap>", POLARS_FQNS, _polars_expected, POLARS_REPLAY),
    RegisterBackendIsIdempotentPublish, CheckRegisterBackendIsIdempotentPublish,
]
