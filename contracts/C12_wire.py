"""C12 / C14 (io entry points): the text that is written is the serialised form itself, and the form that is read is what the text holds.

to_yaml / to_json dump EXACTLY the mapping serialize_schema returns (no re-keying, no re-typing pass in between: the mapping's keys are
the column labels, a conversion applied to "the document" changes which columns the schema declares), with the order of the keys kept;
from_yaml / from_json hand EXACTLY what the loader parsed to deserialize_schema.  For a target / source that is a path, a stream or
None / text:

    post.dumps_the_serialised_schema_itself     the object given to yaml.safe_dump / json.dump(s) is serialize_schema's result
    post.keys_are_not_sorted                    sort_keys=False
    post.reads_what_the_loader_parsed           the argument of deserialize_schema is the loader's result
    post.returns_the_deserialised_schema
"""
from pyvc import core, types as T
from pyvc.core import PyExc, SAny, cur
from pyvc.heap import DictObj
from pyvc.spec import Contract

IO = "pandera.io.pandas_io"


class _File:
    __pyvc_symbolic__ = True

    def __enter__(self):
        return self

    def __exit__(self, *a):
        return False


class _Path:
    __pyvc_symbolic__ = True

    def __init__(self, exists):
        self.exists = exists

    def open(self, *a, **k):
        if not self.exists:
            cur().ghost["interp"].raise_py(OSError, "no such file")
        f = _File()
        cur().ghost["opened"] = f
        return f


class _Wire(Contract):
    check_frame = False
    raises = ()
    split = {"where": ["text_or_none", "path", "stream"]}

    def setup(self, I):
        import json
        import pathlib

        import yaml
        import pandera.io.pandas_io as M

        where = self.fixed.get("where", "text_or_none")

        def path(I_, x=None, *a):
            if x is None or where == "stream":
                I_.raise_py(TypeError, "expected str, bytes or os.PathLike object")
            return _Path(exists=(where == "path"))

        I.models[id(pathlib.Path)] = path

        def serialize(I_, schema):
            r = DictObj({"columns": DictObj({0: SAny(name="column_0"), "b": SAny(name="column_b")})})
            cur().ghost["serialised"] = r
            return r

        def deserialize(I_, doc):
            cur().ghost["deserialised_from"] = doc
            r = SAny(name="schema")
            cur().ghost["schema"] = r
            return r

        I.models[id(M.serialize_schema)] = serialize
        I.models[id(M.deserialize_schema)] = deserialize

        def dump(name):
            def m(I_, obj, *a, **k):
                cur().ghost.setdefault("dumped", []).append((name, obj, a, k))
                return SAny(name="text")

            return m

        def load(name):
            def m(I_, *a, **k):
                if name == "json.loads" and where == "path":
                    I_.raise_py(json.decoder.JSONDecodeError, "Expecting value", "", 0)
                r = DictObj({"columns": DictObj({"0": SAny(name="column_0")})})
                cur().ghost.setdefault("loaded", []).append((name, r))
                return r

            return m

        I.models[id(yaml.safe_dump)] = dump("yaml.safe_dump")
        I.models[id(json.dumps)] = dump("json.dumps")
        I.models[id(json.dump)] = dump("json.dump")
        I.models[id(yaml.safe_load)] = load("yaml.safe_load")
        I.models[id(json.loads)] = load("json.loads")
        I.models[id(json.load)] = load("json.load")

    def _target(self):
        where = self.fixed.get("where", "text_or_none")
        return None if where == "text_or_none" else ("some/path" if where == "path" else _File())


class _Writes(_Wire):
    def ensures(self, result, old, **a):
        g = cur().ghost
        d = g.get("dumped", [])
        out = {"dumps_once": len(d) == 1}
        if len(d) == 1:
            name, obj, args, kw = d[0]
            out["dumps_the_serialised_schema_itself"] = obj is g.get("serialised")
            out["keys_are_not_sorted"] = kw.get("sort_keys") is False
        return out


class ToYamlWire(_Writes):
    target = f"{IO}:to_yaml"

    def make_args(self):
        return {"dataframe_schema": SAny(name="schema"), "stream": self._target()}

    def call_target(self, I, fn, a):
        return I.call(fn, [a["dataframe_schema"], a["stream"]], {})


class ToJsonWire(_Writes):
    target = f"{IO}:to_json"

    def make_args(self):
        return {"dataframe_schema": SAny(name="schema"), "target": self._target()}

    def call_target(self, I, fn, a):
        return I.call(fn, [a["dataframe_schema"], a["target"]], {})


class _Reads(_Wire):
    def ensures(self, result, old, **a):
        g = cur().ghost
        loaded = g.get("loaded", [])
        return {"loads_once": len(loaded) == 1, "reads_what_the_loader_parsed": len(loaded) == 1 and g.get("deserialised_from") is loaded[0][1],
                "returns_the_deserialised_schema": result is g.get("schema")}


class FromYamlWire(_Reads):
    target = f"{IO}:from_yaml"

    def make_args(self):
        where = self.fixed.get("where", "text_or_none")
        return {"yaml_schema": "columns: {}" if where == "text_or_none" else self._target()}

    def call_target(self, I, fn, a):
        return I.call(fn, [a["yaml_schema"]], {})


class FromJsonWire(_Reads):
    target = f"{IO}:from_json"

    def make_args(self):
        where = self.fixed.get("where", "text_or_none")
        return {"source": "{}" if where == "text_or_none" else self._target()}

    def call_target(self, I, fn, a):
        return I.call(fn, [a["source"]], {})

    def concretize(self, rec):
        def thunk():
            """column names that are digit strings survive the JSON round trip as strings"""
            import warnings

            import pandera as pa
            from pandera import io

            warnings.simplefilter("ignore")
            s = pa.DataFrameSchema({"2019": pa.Column(int), "x": pa.Column(str)})
            back = io.from_json(s.to_json())
            return back != s, {"column keys written": list(s.columns), "column keys read back": list(back.columns)}

        return thunk


def _to_yaml_replay(self, rec):
    def thunk():
        """non-text column labels survive the YAML round trip as they are"""
        import warnings

        import pandera as pa
        from pandera import io

        warnings.simplefilter("ignore")
        s = pa.DataFrameSchema({0: pa.Column(int), 1: pa.Column(str)})
        back = io.from_yaml(s.to_yaml())
        return back != s, {"column keys written": list(s.columns), "column keys read back": list(back.columns)}

    return thunk


ToYamlWire.concretize = _to_yaml_replay

CONTRACTS = [ToYamlWire, ToJsonWire, FromYamlWire, FromJsonWire]
