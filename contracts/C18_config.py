"""C18 - configuration is scoped and honoured; validation depth only removes checks.

Oracle: docs/source/configuration.md + the property statement.
"""
import z3

from pandera import config as pcfg
from pandera.config import PanderaConfig, ValidationDepth, ValidationScope
from pandera.backends.base import CoreCheckResult
from pyvc import core, types as T
from pyvc.core import And, Iff, Implies, Not, Or, PyExc, SBool, cur, ite, py_eq
from pyvc.heap import Obj
from pyvc.interp import OtherException
from pyvc.spec import Contract, Lemma, LoopSpec

CFG = dict(
    validation_enabled=T.Bool,
    validation_depth=T.Opt(T.EnumOf(ValidationDepth)),
    cache_dataframe=T.Bool,
    keep_cached_dataframe=T.Bool,
)
CFG_FIELDS = list(CFG)


def cfg_ref():
    return T.Ref(PanderaConfig, strict=True, **CFG)


GLOBALS = {"pandera.config:_CONTEXT_CONFIG": cfg_ref(), "pandera.config:CONFIG": cfg_ref()}


def field(o, f):
    """current value of config field f of object o (materialising if needed)"""
    from pyvc import heap

    if f in o.attrs:
        return o.attrs[f]
    return heap.materialise(o, f)


def field0(o, f):
    from pyvc import heap

    if f in o.attrs0:
        return o.attrs0[f]
    if f in o.attrs and f not in o.writes:
        return o.attrs[f]
    return heap.materialise(o, f)


class EnvParsing(Contract):
    """_config_from_env_vars: documented meaning of the four environment variables."""

    target = "pandera.config:_config_from_env_vars"
    raises = (ValueError,)  # ValidationDepth(<bad string>)

    def ensures(self, result, old):
        env = cur().ghost.get("environ", {})

        def e(k):
            return env.get(k, "<unread>")

        en = e("PANDERA_VALIDATION_ENABLED")
        out = {}
        ve = result.attrs["validation_enabled"]
        if isinstance(en, str) and en == "<unread>":
            out["validation_enabled_reads_env"] = False
        elif en is None:
            out["validation_enabled_default_true"] = py_eq(ve, True)
        else:
            out["validation_enabled_False_disables"] = Implies(en == "False", py_eq(ve, False))
            out["validation_enabled_True_enables"] = Implies(en == "True", py_eq(ve, True))
        for key, f in (("PANDERA_CACHE_DATAFRAME", "cache_dataframe"), ("PANDERA_KEEP_CACHED_DATAFRAME", "keep_cached_dataframe")):
            v = e(key)
            r = result.attrs[f]
            if v is None:
                out[f + "_default_false"] = py_eq(r, False)
            elif isinstance(v, str):
                out[f + "_reads_env"] = False
            else:
                out[f + "_True_enables"] = Iff(v == "True", py_eq(r, True))
        d = e("PANDERA_VALIDATION_DEPTH")
        r = result.attrs["validation_depth"]
        if d is None:
            out["depth_default_none"] = r is None
        elif isinstance(d, str):
            out["depth_reads_env"] = False
        else:
            out["depth_is_named_member"] = isinstance(r, ValidationDepth) and py_eq(d, r.value)
        return out

    def on_raise(self, exc, old):
        env = cur().ghost.get("environ", {})
        d = env.get("PANDERA_VALIDATION_DEPTH")
        # ValueError only for a depth string that names no member
        if d is None or isinstance(d, str):
            return {"value_error_only_for_bad_depth": False}
        return {"value_error_only_for_bad_depth": And(*[Not(d == m.value) for m in ValidationDepth])}

    def concretize(self, rec):
        import os
        import subprocess
        import sys

        path = " ; ".join(rec.get("path") or ())
        model = rec.get("model") or {}
        envs = {}
        for k in ("PANDERA_VALIDATION_ENABLED", "PANDERA_VALIDATION_DEPTH", "PANDERA_CACHE_DATAFRAME", "PANDERA_KEEP_CACHED_DATAFRAME"):
            v = model.get(f"env[{k}]")
            if v is not None and v != "None":
                envs[k] = v.strip('"')
        oid = rec["oid"]

        def thunk():
            env = dict(os.environ)
            for k in list(env):
                if k.startswith("PANDERA_"):
                    del env[k]
            env.update(envs)
            code = "import pandera.config as c, json; g=c.get_config_global(); print(json.dumps([g.validation_enabled, str(g.validation_depth), g.cache_dataframe, g.keep_cached_dataframe]))"
            p = subprocess.run([sys.executable, "-c", code], env=env, capture_output=True, text=True)
            obs = p.stdout.strip() or p.stderr[-300:]
            bad = False
            try:
                import json

                ve, vd, cd, kc = json.loads(obs)
                if envs.get("PANDERA_VALIDATION_ENABLED") == "False" and ve is not False:
                    bad = True
                if envs.get("PANDERA_VALIDATION_ENABLED") in (None, "True") and ve is not True and "validation_enabled" in oid:
                    bad = True
                if "cache_dataframe" in oid and (envs.get("PANDERA_CACHE_DATAFRAME") == "True") != cd:
                    bad = True
                if "keep_cached" in oid and (envs.get("PANDERA_KEEP_CACHED_DATAFRAME") == "True") != kc:
                    bad = True
                if "depth" in oid and envs.get("PANDERA_VALIDATION_DEPTH") and not vd.endswith(envs["PANDERA_VALIDATION_DEPTH"]):
                    bad = True
            except Exception:
                bad = "depth" not in oid
            return bad, {"env": envs, "fresh_interpreter_config": obs}

        return thunk


class GetConfigContext(Contract):
    """get_config_context returns a *copy* (fresh object) with the default depth filled in."""

    target = "pandera.config:get_config_context"
    params = dict(validation_depth_default=T.Opt(T.EnumOf(ValidationDepth)))
    sym_globals = GLOBALS
    result = cfg_ref()

    def ensures(self, result, old, validation_depth_default):
        ctx = cur().globals_state[("pandera.config", "_CONTEXT_CONFIG")]
        out = {"fresh_copy": result is not ctx and isinstance(result, Obj)}
        for f in CFG_FIELDS:
            if f == "validation_depth":
                d0 = field0(ctx, f)
                exp = d0 if (d0 is not None or not validation_depth_default) else validation_depth_default
                out["depth_default_applied"] = field(result, f) is exp
            else:
                out[f"copies_{f}"] = py_eq(field(result, f), field0(ctx, f))
        return out


class ResetConfigContext(Contract):
    target = "pandera.config:reset_config_context"
    params = dict(conf=T.Opt(cfg_ref()))
    sym_globals = GLOBALS

    def modifies(self, conf):
        return [("global", ("pandera.config", "_CONTEXT_CONFIG"))]

    def ensures(self, result, old, conf):
        p = cur()
        new = p.globals_state[("pandera.config", "_CONTEXT_CONFIG")]
        # `conf or CONFIG`
        src = conf if conf is not None else p.globals_state.get(("pandera.config", "CONFIG"))
        out = {"context_is_a_copy_not_an_alias": new is not src and new is not conf}
        for f in CFG_FIELDS:
            out[f"takes_{f}"] = py_eq(field(new, f), field0(src, f)) if f != "validation_depth" else (field(new, f) is field0(src, f))
        return out


class ConfigContext(Contract):
    """config_context (one-yield generator context manager, split at the yield):
    inside the body each non-None argument is in force and each None argument inherits;
    on EVERY exit of the body (normal or exceptional, after an arbitrary body that may itself have
    replaced the context configuration) the configuration equals the one at entry."""

    target = "pandera.config:config_context.__wrapped__"
    params = dict(
        validation_enabled=T.Opt(T.Bool),
        validation_depth=T.Opt(T.EnumOf(ValidationDepth)),
        cache_dataframe=T.Opt(T.Bool),
        keep_cached_dataframe=T.Opt(T.Bool),
    )
    sym_globals = GLOBALS
    raises = (OtherException,)  # only what the body raised

    def setup(self, I):
        def at_yield(I, fr, value):
            p = cur()
            key = ("pandera.config", "_CONTEXT_CONFIG")
            ctx = p.globals_state[key]
            a = p.ghost["cc_args"]
            ent = p.ghost["cc_entry"]
            for f in CFG_FIELDS:
                want = a[f] if a[f] is not None else ent[f]
                got = field(ctx, f)
                p.check(py_eq(got, want) if f != "validation_depth" else (got is want), f"{self.target}/body.{f}_in_force")
            # the body: arbitrary code.  It may rebind / rewrite the context config (nested contexts do)
            p.globals_state[key] = T.fresh_value(cfg_ref(), "ctx_after_body")
            k = p.choose([("body_returns", None), ("body_raises", None)], "with-body")
            p.ghost["cc_body_raised"] = k == 1
            if k == 1:
                raise PyExc(I.make_exc(OtherException))
            return None

        I.yield_hook = at_yield

    def make_args(self):
        args = super().make_args()
        p = cur()
        p.ghost["cc_args"] = args
        return args

    def call_target(self, I, fn, args):
        p = cur()
        key = ("pandera.config", "_CONTEXT_CONFIG")
        ctx = I.lookup_global("_CONTEXT_CONFIG", fn)
        p.ghost["cc_entry"] = {f: field(ctx, f) for f in CFG_FIELDS}
        return I.call(fn, [], dict(args))

    def modifies(self, **a):
        # the context object in force at entry is written and then *replaced* by a copy of the saved
        # configuration: nobody else holds it (get_config_context hands out copies - proved above), so the
        # property is about the value of the configuration in force, stated in _restored()
        ctx0 = cur().ghost["globals0"][("pandera.config", "_CONTEXT_CONFIG")]
        return [("global", ("pandera.config", "_CONTEXT_CONFIG"))] + [(ctx0, f) for f in CFG_FIELDS]

    def _restored(self):
        p = cur()
        ctx = p.globals_state[("pandera.config", "_CONTEXT_CONFIG")]
        ent = p.ghost["cc_entry"]
        out = {}
        for f in CFG_FIELDS:
            got = field(ctx, f)
            out[f"restored_{f}"] = py_eq(got, ent[f]) if f != "validation_depth" else (got is ent[f])
        return out

    def ensures(self, result, old, **a):
        out = self._restored()
        out["normal_exit_only_if_body_returned"] = not cur().ghost.get("cc_body_raised", False)
        return out

    def on_raise(self, exc, old, **a):
        out = self._restored()
        out["propagates_body_exception"] = cur().ghost.get("cc_body_raised", False) and exc.cls is OtherException
        return out

    def concretize(self, rec):
        def thunk():
            import pandera.config as c

            before = c.get_config_context(validation_depth_default=None)
            try:
                with c.config_context(validation_enabled=False, validation_depth=ValidationDepth.DATA_ONLY, cache_dataframe=True):
                    with c.config_context(validation_depth=ValidationDepth.SCHEMA_ONLY):
                        pass
                    raise KeyError("body")
            except KeyError:
                pass
            after = c.get_config_context(validation_depth_default=None)
            return before != after, {"before": str(before), "after": str(after)}

        return thunk


class GlobalConfigUntouched(Contract):
    """get_config_global returns CONFIG itself and never changes it."""

    target = "pandera.config:get_config_global"
    sym_globals = GLOBALS

    def ensures(self, result, old):
        return {"returns_global": result is cur().globals_state.get(("pandera.config", "CONFIG"))}


# ---------------------------------------------------------------------------------------
# validate_scope: the wrapper produced for a SCHEMA-scoped and for a DATA-scoped core check
# ---------------------------------------------------------------------------------------


def _scope_contract(scope, live_wrapper_path):
    class ScopeWrapper(Contract):
        target = live_wrapper_path
        params = dict(self=T.Ref(None), check_obj=T.Any)
        sym_globals = GLOBALS
        raises = (OtherException,)

        def setup(self, I):
            # the wrapped core check itself is replaced by a callback (its own contract is C01's business)
            from pyvc.values import SymCallable
            from pyvc.spec import resolve_target

            w = resolve_target(live_wrapper_path)
            inner = dict(zip(w.__code__.co_freevars, w.__closure__))["func"].cell_contents
            self.cb = None

            def inner_model(I, *args, **kw):
                cb = cur().ghost.get("inner_cb")
                if cb is None:
                    cb = SymCallable("wrapped_core_check", T.Any, True)
                    cur().ghost["inner_cb"] = cb
                return I.call(cb, list(args), kw)

            I.models[id(inner)] = inner_model

        def make_args(self):
            a = super().make_args()
            from pyvc.interp import OpaqueStar

            a["__star__"] = OpaqueStar("args")
            return a

        def call_target(self, I, fn, args):
            star = args.pop("__star__")
            self_ = args["self"]
            return I.call(fn, [self_, args["check_obj"], star], {})

        def _depth(self):
            ctx = cur().globals_state[("pandera.config", "_CONTEXT_CONFIG")]
            d = field0(ctx, "validation_depth")
            return d if d is not None else ValidationDepth.SCHEMA_AND_DATA

        def _skip(self):
            d = self._depth()
            return (scope == ValidationScope.SCHEMA and d == ValidationDepth.DATA_ONLY) or (
                scope == ValidationScope.DATA and d == ValidationDepth.SCHEMA_ONLY
            )

        def ensures(self, result, old, **a):
            cb = cur().ghost.get("inner_cb")
            ncalls = len(cb.calls) if cb else 0
            out = {}
            if self._skip():
                out["skipped_check_not_run"] = ncalls == 0
                out["skipped_check_passes"] = isinstance(result, Obj) and result.cls is CoreCheckResult and result.attrs.get("passed") is True
            else:
                out["runs_wrapped_check_once"] = ncalls == 1
                if ncalls == 1:
                    cargs = cb.calls[0][0]
                    out["forwards_self_and_object"] = cargs[0] is a["self_"] and cargs[1] is a["check_obj"]
                    out["forwards_rest"] = len(cargs) == 3 and getattr(cargs[2], "name", None) == "args"
                evs = [e for e in cur().events if e[0] == "callback"]
                out["returns_wrapped_result"] = result is not None and not isinstance(result, Obj)
            return out

        def on_raise(self, exc, old, **a):
            return {"only_from_wrapped_check": not self._skip() and exc.attrs.get("__from_callback__") is not None}

    ScopeWrapper.__name__ = f"ScopeWrapper_{scope.name}"
    return ScopeWrapper


ScopeSchema = _scope_contract(ValidationScope.SCHEMA, "pandera.backends.pandas.array:ArraySchemaBackend.check_dtype")
ScopeData = _scope_contract(ValidationScope.DATA, "pandera.backends.pandas.array:ArraySchemaBackend.check_unique")


class InvalidReasonCode(Contract):
    """ErrorHandler.invalid_reason_code(category): an error category is *excluded* from the report
    exactly when its scope was switched off by the validation depth."""

    target = "pandera.api.base.error_handler:ErrorHandler.invalid_reason_code"
    params = dict(self=T.Ref(None), category=T.OneOf("DATA", "SCHEMA"))
    sym_globals = GLOBALS

    def ensures(self, result, old, self_, category):
        ctx = cur().globals_state[("pandera.config", "_CONTEXT_CONFIG")]
        d = field0(ctx, "validation_depth") or ValidationDepth.SCHEMA_AND_DATA
        excluded = (d == ValidationDepth.SCHEMA_ONLY and category == "DATA") or (d == ValidationDepth.DATA_ONLY and category == "SCHEMA")
        return {"excluded_iff_scope_off": result is excluded}

    def call_target(self, I, fn, args):
        return I.call(fn, [args["self"], args["category"]], {})


class PolarsDepthDefault(Contract):
    """get_validation_depth: context value if set, else global if set, else SCHEMA_ONLY for a LazyFrame
    and SCHEMA_AND_DATA for a DataFrame."""

    target = "pandera.api.polars.utils:get_validation_depth"
    sym_globals = GLOBALS

    def make_args(self):
        import polars as pl

        k = cur().choose([("DataFrame", None), ("LazyFrame", None)], "kind(check_obj)")
        core.register_model_var("kind(check_obj)", lambda m, k=k: ["DataFrame", "LazyFrame"][k])
        return {"check_obj": pl.DataFrame({"a": [1]}) if k == 0 else pl.LazyFrame({"a": [1]})}

    def ensures(self, result, old, check_obj):
        import polars as pl

        p = cur()
        ctx = p.globals_state[("pandera.config", "_CONTEXT_CONFIG")]
        glob = p.globals_state[("pandera.config", "CONFIG")]
        c = field0(ctx, "validation_depth")
        g = field0(glob, "validation_depth")
        if c is not None:
            exp = c
        elif g is not None:
            exp = g
        elif isinstance(check_obj, pl.LazyFrame):
            exp = ValidationDepth.SCHEMA_ONLY
        else:
            exp = ValidationDepth.SCHEMA_AND_DATA
        return {"depth_resolution_order": result is exp}


CONTRACTS = [EnvParsing, GetConfigContext, ResetConfigContext, ConfigContext, GlobalConfigUntouched, ScopeSchema, ScopeData, InvalidReasonCode, PolarsDepthDefault]


def _config_context_standin(seed=0, tier="quick"):
    """run-time contract on the real config_context (bounded): with-form and decorator form, nesting / re-entrance depth 1-3, every
    option, body returning or raising: the context configuration after leaving equals the one before entering"""
    import itertools

    from pandera import config as C
    from pandera.config import ValidationDepth, config_context, get_config_context

    def snap():
        c = get_config_context(validation_depth_default=None)
        return (c.validation_enabled, c.validation_depth, c.cache_dataframe, c.keep_cached_dataframe)

    options = [{"validation_enabled": False}, {"validation_depth": ValidationDepth.SCHEMA_AND_DATA}, {"validation_depth": ValidationDepth.DATA_ONLY},
               {"cache_dataframe": True}, {"keep_cached_dataframe": True}]
    n = 0
    bound = "5 option settings x with / decorator form x depth 1-3 x body returns / raises"
    for kw, form, depth, raises in itertools.product(options, ("with", "decorator"), (1, 2, 3), (False, True)):
        n += 1
        before = snap()

        class Boom(Exception):
            pass

        try:
            if form == "with":
                def go(k):
                    with config_context(**kw):
                        if k > 1:
                            go(k - 1)
                        elif raises:
                            raise Boom()

                go(depth)
            else:
                @config_context(**kw)
                def rec(k):
                    if k > 1:
                        rec(k - 1)
                    elif raises:
                        raise Boom()

                rec(depth)
        except Boom:
            pass
        after = snap()
        if after != before:
            C.reset_config_context()
            return {"examples": n, "bound": bound, "failing_input": {"options": {k: str(v) for k, v in kw.items()}, "form": form, "depth": depth, "body_raises": raises},
                    "observed": {"context before": [str(x) for x in before], "after": [str(x) for x in after]}}
    return {"examples": n, "bound": bound, "failing_input": None}


ConfigContext.bounded_standin = staticmethod(_config_context_standin)
