"""C18 - the documented environment variables take effect in the configuration that is IN FORCE, not only in the global one.

`_config_from_env_vars` is proved for all values (EnvParsing).  What the process then starts with is decided by module-level
statements of pandera/config.py that run once at import (`CONFIG = _config_from_env_vars()`, `_CONTEXT_CONFIG = copy(CONFIG)`):
no function contract can see them.  The space is finite, so it is enumerated exhaustively (back end `enumeration`), each point in
a FRESH interpreter, because the variables are read at import:

    PANDERA_VALIDATION_ENABLED in {unset, True, False}  x  PANDERA_VALIDATION_DEPTH in {unset, SCHEMA_ONLY, DATA_ONLY, SCHEMA_AND_DATA}
    x  PANDERA_CACHE_DATAFRAME in {unset, True}  x  PANDERA_KEEP_CACHED_DATAFRAME in {unset, True}          (48 interpreters)

Obligations per point (oracle: docs/source/configuration.md):
    structural.env_matrix/global_config_is_the_documented_one     get_config_global() has exactly the documented values
    structural.env_matrix/context_config_starts_as_the_global_one get_config_context(validation_depth_default=None) == get_config_global()
                                                                  field by field (so every reader of the context sees the environment)
    structural.env_matrix/context_is_a_copy                       and is not the same object (a context override never writes the global)
"""
import concurrent.futures as cf
import itertools
import json
import os
import subprocess
import sys

CODE = (
    "import json, warnings; warnings.simplefilter('ignore'); import pandera.config as c\n"
    "g = c.get_config_global(); x = c.get_config_context(validation_depth_default=None)\n"
    "f = lambda o: [o.validation_enabled, getattr(o.validation_depth, 'name', None), o.cache_dataframe, o.keep_cached_dataframe]\n"
    "print(json.dumps({'global': f(g), 'context': f(x), 'same_object': c._CONTEXT_CONFIG is c.CONFIG}))\n"
)


def _run(point):
    env = {k: v for k, v in os.environ.items() if not k.startswith("PANDERA_") or k == "PANDERA_REPO"}
    env.update({k: v for k, v in point.items() if v is not None})
    p = subprocess.run([sys.executable, "-c", CODE], env=env, capture_output=True, text=True, timeout=300)
    try:
        return point, json.loads(p.stdout.strip().splitlines()[-1])
    except Exception:  # noqa: BLE001
        return point, {"error": (p.stdout + p.stderr)[-300:]}


def environment_reaches_the_configuration_in_force():
    keys = ["PANDERA_VALIDATION_ENABLED", "PANDERA_VALIDATION_DEPTH", "PANDERA_CACHE_DATAFRAME", "PANDERA_KEEP_CACHED_DATAFRAME"]
    doms = [[None, "True", "False"], [None, "SCHEMA_ONLY", "DATA_ONLY", "SCHEMA_AND_DATA"], [None, "True"], [None, "True"]]
    points = [dict(zip(keys, vals)) for vals in itertools.product(*doms)]
    with cf.ThreadPoolExecutor(max_workers=16) as ex:
        results = list(ex.map(_run, points))
    bad = {"global_config_is_the_documented_one": [], "context_config_starts_as_the_global_one": [], "context_is_a_copy": []}
    for point, r in results:
        tag = {k.replace("PANDERA_", ""): v for k, v in point.items() if v is not None}
        if "error" in r:
            for k in bad:
                bad[k].append({"env": tag, "observed": r["error"]})
            continue
        want = [point[keys[0]] != "False", point[keys[1]], point[keys[2]] == "True", point[keys[3]] == "True"]
        if r["global"] != want:
            bad["global_config_is_the_documented_one"].append({"env": tag, "documented": want, "global": r["global"]})
        if r["context"] != r["global"]:
            bad["context_config_starts_as_the_global_one"].append({"env": tag, "global": r["global"], "context in force": r["context"]})
        if r["same_object"]:
            bad["context_is_a_copy"].append({"env": tag})
    return [{"oid": f"structural.env_matrix/{k}", "ok": not v, "note": f"{len(points)} fresh interpreters (all documented settings); failing points: {len(v)}",
             "witness": {"failing_points": v[:4]}} for k, v in bad.items()]


def _replay(rec):
    def thunk():
        w = (rec.get("model") or {}).get("failing_points") or []
        if not w:
            return False, "no failing point recorded"
        point = {"PANDERA_" + k: v for k, v in w[0]["env"].items()}
        _, r = _run(point)
        want = [point.get("PANDERA_VALIDATION_ENABLED") != "False", point.get("PANDERA_VALIDATION_DEPTH"), point.get("PANDERA_CACHE_DATAFRAME") == "True",
                point.get("PANDERA_KEEP_CACHED_DATAFRAME") == "True"]
        bad = ("error" in r) or r.get("context") != r.get("global") or r.get("same_object", False) or r.get("global") != want
        return bad, {"env": w[0]["env"], "documented": want, "fresh interpreter": r}

    return thunk


environment_reaches_the_configuration_in_force.concretize = _replay

STRUCTURAL = [environment_reaches_the_configuration_in_force]
