"""C16 - pandas DataFrameModel._build_columns_index / _build_schema_index / build_schema_: from parsed fields to Column / Index objects.

For every field (attribute name k, annotation info, FieldInfo with public name `field.name` - the alias when one is given):

    column-like annotation (plain type / Annotated / Series[T] / accepted by the engine as it is)
        post.one_column_per_column_field_under_its_public_name        columns[field.name] = Column(**field.column_properties(...))
        post.column_gets_dtype_required_checks_parsers_name           dtype as selected below, required = not Optional, the checks and
                                                                      parsers collected FOR THIS FIELD (looked up by attribute name),
                                                                      name = the public name
    index-like annotation (Index[T])
        post.one_index_per_index_field_in_order                       Index(**field.index_properties(dtype, checks=..., name=...))
        post.single_default_index_is_unnamed                          name None iff check_name is False, or check_name is None and it is the
                                                                      only index
    dtype selection   annotation.default_dtype if the annotation class has one; else the raw annotation if the engine accepts it; else
                      the annotation's argument; typing.Any means "no dtype"
    exits             Optional Index, check_name=False on a column, an unusable annotation -> SchemaInitError; nothing else
    post.returns_columns_and_the_index_built_from_the_indices        (_build_schema_index: none -> None, one -> it, several -> MultiIndex(indices, **multiindex_* options))

Shapes: 1-2 fields, each one of {plain, Series, Index, Optional plain, Optional Index, other generic}; check_name in {None, True, False};
default_dtype present or not; the engine accepts the raw annotation or not; alias or not.  Annotated[...] metadata (get_dtype_kwargs) is the
bounded generator's part (C16_equivalence).
"""
import itertools
import typing

from pandera.api.dataframe.model_components import FieldInfo
from pandera.errors import SchemaInitError
from pyvc import core, types as T
from pyvc.core import PyExc, SAny, cur
from pyvc.heap import DictObj, ListObj, Obj
from pyvc.spec import Contract
from contracts.util import fld, fld0

PM = "pandera.api.pandas.model"
KINDS = ["plain", "series", "index", "optional_plain", "optional_index", "other_generic"]


class SeriesType:
    __module__ = "c16_standins"


class IndexType:
    __module__ = "c16_standins"


class OtherGeneric:
    __module__ = "c16_standins"


def _shapes():
    one = [(k,) for k in KINDS]
    two = [("plain", "index"), ("index", "index"), ("series", "plain"), ("index", "plain")]
    return one + two


class BuildColumnsIndex(Contract):
    target = f"{PM}:DataFrameModel._build_columns_index"
    raises = (SchemaInitError,)
    split = {"shape": list(range(len(_shapes())))}
    max_paths = 20000

    def setup(self, I):
        import pandera.api.pandas.model as M
        from pandera.api.pandas.components import Column, Index

        I.models[id(M.get_index_types)] = lambda I_: {IndexType}
        I.models[id(M.get_series_types)] = lambda I_: {SeriesType}

        def engine_dtype(I_, cls_, x):
            ok = cur().ghost["engine_accepts"].get(id(x))
            if ok is None:
                ok = cur().ghost["engine_accepts"][id(x)] = cur().choose([("accepted", None), ("TypeError", None)], "Engine.dtype(raw annotation)") == 0
            if not ok:
                raise PyExc(I_.make_exc(TypeError, "not understood"))
            return SAny(name="engine_dtype")

        f = M.Engine.__dict__.get("dtype")
        I.models[id(f.__func__ if hasattr(f, "__func__") else f)] = engine_dtype

        def ctor(kind):
            def m(I_, *a, **kw):
                o = Obj(None, f"{kind}#{len(cur().ghost.setdefault('built', []))}", pre=False)
                o.attrs["__kind__"] = kind
                o.attrs["__kwargs__"] = dict(kw)
                o.attrs["__args__"] = tuple(a)
                cur().ghost["built"].append(o)
                return o

            return m

        I.models[id(Column)] = ctor("Column")
        I.models[id(Index)] = ctor("Index")

        def schema_index(I_, indices, **kw):
            cur().ghost["schema_index_call"] = (list(indices), dict(kw))
            return SAny(name="schema_index")

        I.models[id(M._build_schema_index)] = schema_index

    def make_args(self):
        from pandera.api.pandas.model import DataFrameModel

        kinds = _shapes()[self.fixed.get("shape", 0)]
        p = cur()
        p.ghost["engine_accepts"] = {}
        fields, checks, parsers = DictObj(), DictObj(), DictObj()
        meta = []
        for k, kind in enumerate(kinds):
            attr = f"f{k}"
            alias = p.choose([("no_alias", None), ("alias", None)], f"alias({attr})") == 1
            public = f"public_{attr}" if alias else attr
            raw = Obj(None, f"{attr}.raw_annotation", pre=True)  # (opaque annotation objects with identity: never one of the generic classes)
            arg = Obj(None, f"{attr}.arg", pre=True)
            has_default = p.choose([("no_default_dtype", None), ("default_dtype", None)], f"default_dtype({attr})") == 1
            dflt = Obj(None, f"{attr}.default_dtype", pre=True) if has_default else None  # (a dtype class / instance: truthy)
            origin = {"plain": None, "optional_plain": None, "series": SeriesType, "index": IndexType, "optional_index": IndexType, "other_generic": OtherGeneric}[kind]
            ann = Obj(None, f"{attr}.annotation", pre=True)
            for a, v in (("origin", origin), ("raw_annotation", raw), ("arg", arg), ("metadata", None), ("default_dtype", dflt), ("optional", kind.startswith("optional")),
                         ("is_annotated_type", False)):
                ann.attrs[a] = v
                ann.attrs0[a] = v
            cn = [None, True, False][p.choose([("check_name=None", None), ("check_name=True", None), ("check_name=False", None)], f"check_name({attr})")]
            fi = T.Ref(FieldInfo, column_properties=T.Callback(T.Lazy(lambda n: DictObj({"props_of": n})), raises=False),
                       index_properties=T.Callback(T.Lazy(lambda n: DictObj({"props_of": n})), raises=False)).fresh(f"{attr}.field")
            for a, v in (("name", public), ("check_name", cn), ("dtype_kwargs", None)):
                fi.attrs[a] = v
                fi.attrs0[a] = v
            dict.__setitem__(fields, attr, (ann, fi))
            has_checks = p.choose([("no_checks", None), ("checks", None)], f"checks({attr})") == 1
            if has_checks:
                dict.__setitem__(checks, attr, ListObj([SAny(name=f"check_of_{attr}")]))
                dict.__setitem__(parsers, attr, ListObj([SAny(name=f"parser_of_{attr}")]))
            meta.append(dict(attr=attr, public=public, kind=kind, ann=ann, field=fi, raw=raw, arg=arg, default=dflt, check_name=cn, has_checks=has_checks))
        for d in (fields, checks, parsers):
            d.pre = True
        p.ghost["meta"] = meta
        self._mi = {"coerce": SAny(name="multiindex_coerce")}
        return {"cls": Obj(DataFrameModel, "cls", pre=True), "fields": fields, "checks": checks, "parsers": parsers}

    def call_target(self, I, fn, a):
        return I.call(fn, [a["cls"], a["fields"], a["checks"], a["parsers"]], dict(self._mi))

    # ---- the specification
    def _expected_dtype(self, m):
        if m["default"] is not None:
            return m["default"]
        acc = cur().ghost["engine_accepts"].get(id(m["raw"]))
        return m["raw"] if acc else m["arg"]

    def _column_like(self, m):
        acc = cur().ghost["engine_accepts"].get(id(m["raw"]))
        return m["kind"] in ("plain", "optional_plain", "series") or (m["default"] is None and acc is True)

    def _invalid(self, meta):
        n_index = sum(1 for m in meta if m["kind"] in ("index", "optional_index"))
        for m in meta:
            if self._column_like(m):
                if m["check_name"] is False:
                    return True
            elif m["kind"] in ("index", "optional_index"):
                if m["kind"] == "optional_index":
                    return True
            else:
                return True
        return False

    def ensures(self, result, old, cls, fields, checks, parsers):
        g = cur().ghost
        meta = g["meta"]
        out = {"returns_only_for_usable_fields": not self._invalid(meta)}
        if not (isinstance(result, tuple) and len(result) == 2):
            out["returns_columns_and_index"] = False
            return out
        columns, index = result
        built = g.get("built", [])
        col_meta = [m for m in meta if self._column_like(m)]
        idx_meta = [m for m in meta if not self._column_like(m) and m["kind"] == "index"]
        out["one_column_per_column_field_under_its_public_name"] = isinstance(columns, dict) and list(columns) == [m["public"] for m in col_meta] \
            and all(getattr(columns[m["public"]], "attrs", {}).get("__kind__") == "Column" for m in col_meta)
        n_index = sum(1 for m in meta if m["kind"] in ("index", "optional_index"))
        ok_cols, ok_idx, unnamed_ok = True, True, True
        for m in col_meta:
            cb = fld0(m["field"], "column_properties")
            ok = len(cb.calls) == 1
            if ok:
                (args, kw) = cb.calls[0]
                want_checks = dict.get(checks, m["attr"])
                ok = len(args) == 1 and args[0] is self._expected_dtype(m) and kw.get("required") is (not m["kind"].startswith("optional")) and kw.get("name") == m["public"] \
                    and ((kw.get("checks") is want_checks) if m["has_checks"] else (list(kw.get("checks")) == [])) \
                    and ((kw.get("parsers") is dict.get(parsers, m["attr"])) if m["has_checks"] else (list(kw.get("parsers")) == []))
                col = columns.get(m["public"]) if isinstance(columns, dict) else None
                ok = ok and isinstance(col, Obj) and col.attrs.get("__kwargs__", {}).get("props_of") is not None and not col.attrs.get("__args__")
            ok_cols = ok_cols and ok
        idx_objs = [b for b in built if b.attrs["__kind__"] == "Index"]
        for k, m in enumerate(idx_meta):
            cb = fld0(m["field"], "index_properties")
            ok = len(cb.calls) == 1
            if ok:
                (args, kw) = cb.calls[0]
                unnamed = m["check_name"] is False or (m["check_name"] is None and n_index == 1)
                unnamed_ok = unnamed_ok and ((kw.get("name") is None) == unnamed)
                ok = len(args) == 1 and args[0] is self._expected_dtype(m) and (kw.get("name") is None or kw.get("name") == m["public"]) \
                    and ((kw.get("checks") is dict.get(checks, m["attr"])) if m["has_checks"] else (list(kw.get("checks")) == []))
            ok_idx = ok_idx and ok
        out["column_gets_dtype_required_checks_parsers_name"] = ok_cols
        out["one_index_per_index_field_in_order"] = ok_idx and len(idx_objs) == len(idx_meta)
        out["single_default_index_is_unnamed"] = unnamed_ok
        sic = g.get("schema_index_call")
        out["returns_columns_and_the_index_built_from_the_indices"] = sic is not None and sic[0] == idx_objs and all(sic[1].get(k) is v for k, v in self._mi.items()) and set(sic[1]) == set(self._mi)
        return out

    def on_raise(self, exc, old, cls, fields, checks, parsers):
        return {"init_error_only_for_an_unusable_field": self._invalid(cur().ghost["meta"])}


class BuildSchemaIndex(Contract):
    target = f"{PM}:_build_schema_index"
    split = {"n": [0, 1, 2, 3]}

    def setup(self, I):
        from pandera.api.pandas.components import MultiIndex

        def mi(I_, indexes=None, **kw):
            o = Obj(None, "multiindex", pre=False)
            o.attrs.update(indexes=indexes, kwargs=dict(kw))
            cur().ghost["multiindex"] = o
            return o

        I.models[id(MultiIndex)] = mi

    def make_args(self):
        self._kw = {"coerce": SAny(name="coerce"), "strict": SAny(name="strict")}
        return {"indices": ListObj([SAny(name=f"index{k}") for k in range(self.fixed.get("n", 0))])}

    def call_target(self, I, fn, a):
        return I.call(fn, [a["indices"]], dict(self._kw))

    def ensures(self, result, old, indices):
        n = len(indices)
        if n == 0:
            return {"no_index_field_no_index": result is None}
        if n == 1:
            return {"a_single_index_field_is_the_index": result is indices[0]}
        m = cur().ghost.get("multiindex")
        return {"several_index_fields_make_a_multiindex_of_them_in_order_with_the_multiindex_options": m is not None and result is m and m.attrs["indexes"] is indices
                and set(m.attrs["kwargs"]) == set(self._kw) and all(m.attrs["kwargs"][k] is v for k, v in self._kw.items())}


CONTRACTS = [BuildColumnsIndex, BuildSchemaIndex]


# ---------------------------------------------------------------------------------------------------------
# polars twin
# ---------------------------------------------------------------------------------------------------------
class PolarsBuildColumns(Contract):
    """pandera.polars DataFrameModel._build_columns: one Column per field under its public name, built from
    field.column_properties(dtype, required=not Optional, checks=<the checks collected for this field>, name=<public name>);
    dtype: the raw annotation if it is a pandera polars DataType class the engine accepts, else the native type the engine resolves it
    to, else (engine rejects) the annotation's default_dtype / argument.  check_name=False on a column is a SchemaInitError."""

    target = "pandera.api.polars.model:DataFrameModel._build_columns"
    raises = (SchemaInitError,)
    split = {"n": [1, 2], "engine": ["accepts_pandera_class", "accepts_other", "TypeError", "ValueError"]}

    def setup(self, I):
        import inspect

        import pandera.api.polars.model as M
        from pandera.api.polars.components import Column

        how = self.fixed.get("engine", "accepts_other")

        def engine_dtype(I_, cls_, x):
            if how in ("TypeError", "ValueError"):
                raise PyExc(I_.make_exc(TypeError if how == "TypeError" else ValueError, "not understood"))
            r = Obj(None, "engine_dtype", pre=True)
            nt = Obj(None, f"native_type_of({getattr(x, 'name', x)})", pre=True)
            r.attrs["type"] = nt
            r.attrs0["type"] = nt
            cur().ghost.setdefault("resolved", {})[id(x)] = nt
            return r

        f = M.pe.Engine.__dict__.get("dtype")
        I.models[id(f.__func__ if hasattr(f, "__func__") else f)] = engine_dtype
        # `inspect.isclass(raw) and issubclass(raw, pe.DataType)`: decided by the case
        I.models[id(inspect.isclass)] = lambda I_, x: how == "accepts_pandera_class"
        import builtins

        orig_issub = I.models.get(id(builtins.issubclass))
        I.models[id(builtins.issubclass)] = lambda I_, a, b: True if isinstance(a, Obj) else (orig_issub(I_, a, b) if orig_issub else issubclass(a, b))

        def ctor(I_, *a, **kw):
            o = Obj(None, f"Column#{len(cur().ghost.setdefault('built', []))}", pre=False)
            o.attrs["__kwargs__"] = dict(kw)
            o.attrs["__args__"] = tuple(a)
            cur().ghost["built"].append(o)
            return o

        I.models[id(Column)] = ctor

    def make_args(self):
        from pandera.api.polars.model import DataFrameModel

        p = cur()
        fields, checks = DictObj(), DictObj()
        meta = []
        for k in range(self.fixed.get("n", 1)):
            attr = f"f{k}"
            alias = p.choose([("no_alias", None), ("alias", None)], f"alias({attr})") == 1
            public = f"public_{attr}" if alias else attr
            raw = Obj(None, f"{attr}.raw_annotation", pre=True)
            arg = Obj(None, f"{attr}.arg", pre=True)
            has_default = p.choose([("no_default_dtype", None), ("default_dtype", None)], f"default_dtype({attr})") == 1
            dflt = Obj(None, f"{attr}.default_dtype", pre=True) if has_default else None
            optional = p.choose([("required", None), ("optional", None)], f"optional({attr})") == 1
            ann = Obj(None, f"{attr}.annotation", pre=True)
            for a, v in (("origin", None), ("raw_annotation", raw), ("arg", arg), ("metadata", None), ("default_dtype", dflt), ("optional", optional)):
                ann.attrs[a] = v
                ann.attrs0[a] = v
            cn = [None, True, False][p.choose([("check_name=None", None), ("check_name=True", None), ("check_name=False", None)], f"check_name({attr})")]
            fi = T.Ref(FieldInfo, column_properties=T.Callback(T.Lazy(lambda n: DictObj({"props_of": n})), raises=False)).fresh(f"{attr}.field")
            for a, v in (("name", public), ("check_name", cn), ("dtype_kwargs", None)):
                fi.attrs[a] = v
                fi.attrs0[a] = v
            dict.__setitem__(fields, attr, (ann, fi))
            has_checks = p.choose([("no_checks", None), ("checks", None)], f"checks({attr})") == 1
            if has_checks:
                dict.__setitem__(checks, attr, ListObj([SAny(name=f"check_of_{attr}")]))
            meta.append(dict(attr=attr, public=public, field=fi, raw=raw, arg=arg, default=dflt, check_name=cn, has_checks=has_checks, optional=optional))
        fields.pre = checks.pre = True
        p.ghost["meta"] = meta
        return {"cls": Obj(DataFrameModel, "cls", pre=True), "fields": fields, "checks": checks}

    def call_target(self, I, fn, a):
        return I.call(fn, [a["cls"], a["fields"], a["checks"]], {})

    def _dtype(self, m):
        how = self.fixed.get("engine", "accepts_other")
        if how == "accepts_pandera_class":
            return m["raw"]
        if how == "accepts_other":
            return cur().ghost.get("resolved", {}).get(id(m["raw"]))
        return m["default"] if m["default"] is not None else m["arg"]

    def ensures(self, result, old, cls, fields, checks):
        meta = cur().ghost["meta"]
        out = {"returns_only_when_no_column_forbids_its_name_check": all(m["check_name"] is not False for m in meta)}
        out["one_column_per_field_under_its_public_name_in_order"] = isinstance(result, dict) and list(result) == [m["public"] for m in meta]
        ok = True
        for m in meta:
            cb = fld0(m["field"], "column_properties")
            good = len(cb.calls) == 1
            if good:
                (args, kw) = cb.calls[0]
                good = len(args) == 1 and args[0] is self._dtype(m) and kw.get("required") is (not m["optional"]) and kw.get("name") == m["public"] \
                    and ((kw.get("checks") is dict.get(checks, m["attr"])) if m["has_checks"] else (list(kw.get("checks")) == []))
                col = result.get(m["public"]) if isinstance(result, dict) else None
                good = good and isinstance(col, Obj) and col.attrs.get("__kwargs__", {}).get("props_of") is not None and not col.attrs.get("__args__")
            ok = ok and good
        out["column_gets_dtype_required_checks_name"] = ok
        return out

    def on_raise(self, exc, old, cls, fields, checks):
        return {"init_error_only_for_check_name_false": any(m["check_name"] is False for m in cur().ghost["meta"])}


CONTRACTS.append(PolarsBuildColumns)
