"""C01: composition-level contracts shared with C02/C06 (every failing core result is reported, none invented)."""
from contracts.C06_run_checks import ArrayCollect, ArrayCollectPrefix, ArrayRunChecks, ColumnRunChecks, ContainerRunChecks
from contracts.C19_check_options import PostprocessField, PreprocessField, RunCheck

CONTRACTS = [ArrayCollect, ArrayCollectPrefix, ArrayRunChecks, ColumnRunChecks, ContainerRunChecks, PreprocessField, PostprocessField, RunCheck]
