"""C01: composition-level contracts shared with C02/C06 (every failing core result is reported, none invented)."""
from contracts.C06_run_checks import ArrayCollect, ArrayCollectPrefix, ArrayRunChecks, ColumnRunChecks, ContainerRunChecks
from contracts.C19_check_options import ApplyField, PostprocessField, PreprocessField, RunCheck
from contracts.C03_container_validate import ContainerValidate  # every parser and the whole core-check pipeline run on every validate
from contracts.C04_field_validate import ArrayValidate, IndexValidate  # the index is judged as the series of its own values AND dtype

CONTRACTS = [ArrayCollect, ArrayCollectPrefix, ArrayRunChecks, ColumnRunChecks, ContainerRunChecks, PreprocessField, ApplyField, PostprocessField, RunCheck, ContainerValidate, ArrayValidate, IndexValidate]

from contracts.C08_container_twins import ContainerTwins  # noqa: E402  (strict / ordered / column presence over layouts incl. regex columns: the pandas verdict against the spec)

CONTRACTS += [ContainerTwins]
