"""C09 (part 1) - the abstract data types of pandera/dtypes.py: `check`, `__eq__`, the class predicates.

Oracle: the property statement ("a numeric, boolean or temporal type never recognises a type of another kind,
signedness or bit width"; "a resolved type recognises itself"), DataType.check's docstring ("Check that pandera
DataType are equivalent") and the one-line docstrings of the `is_*` helpers.

All contracts run the LIVE source of the method on a receiver whose `bit_width` / `signed` are *symbolic* (so the
result does not depend on the eight registered widths) against an argument that ranges over EVERY class of the
abstract lattice read from the live module (finite case split, one fork per class).
"""
import inspect

import z3

import pandera.dtypes as D
from pyvc import core, types as T
from pyvc.core import And, Iff, Implies, Not, Or, SBool, cur, py_eq
from pyvc.heap import Obj
from pyvc.spec import Contract, Lemma
from pyvc.theories import dtype_lite as DL
from contracts.util import fld, fld0

MOD = "pandera.dtypes"

# every abstract data type class defined in pandera/dtypes.py (live)
LATTICE = [c for _, c in sorted(vars(D).items()) if inspect.isclass(c) and issubclass(c, D.DataType) and c.__module__ == MOD]
LATTICE = list(dict.fromkeys(LATTICE))

NUM_FIELDS = dict(bit_width=T.Int, signed=T.Bool, exact=T.Opt(T.Bool), _base_name=T.Opt(T.Str), continuous=T.Opt(T.Bool))


def fields_of(c):
    """symbolic instance state of an abstract dtype class (the dataclass fields it really has)"""
    import dataclasses

    names = {f.name for f in dataclasses.fields(c)} if dataclasses.is_dataclass(c) else set()
    out = {}
    for n in names:
        if n in NUM_FIELDS:
            out[n] = NUM_FIELDS[n]
        elif n == "categories":
            out[n] = T.Opt(T.Any)
        elif n == "ordered":
            out[n] = T.Bool
        elif n in ("precision", "scale"):
            out[n] = T.Int
        elif n == "rounding":
            out[n] = T.Opt(T.Str)
        else:
            out[n] = T.Any
    return out


def any_dtype(name_filter=None):
    cs = [c for c in LATTICE if c is not D.DataType and (name_filter is None or name_filter(c))]
    return T.ClassOneOf(*[T.Ref(c, **fields_of(c)) for c in cs])


def truth(r):
    """truth value of a check()/__eq__ result as used by callers (`if dtype.check(x)`; NotImplemented handled by ==)"""
    if r is NotImplemented:
        return False
    if isinstance(r, (bool, SBool)):
        return r
    if isinstance(r, core.Sym):
        return r.truth()
    return bool(r)


class _DtypeContract(Contract):
    raises = ()

    def setup(self, I):
        DL.install(I)

    def call_target(self, I, fn, a):
        return I.call(fn, [a["self"], a["pandera_dtype"]], {})


def _physical_check(kind_cls, with_sign):
    class C(_DtypeContract):
        __doc__ = f"""{kind_cls.__name__}.check(other) is True exactly when `other` is a {kind_cls.__name__} of the same
        {'signedness and ' if with_sign else ''}bit width - for EVERY width, and every class of the lattice as `other`."""
        target = f"{MOD}:{kind_cls.__name__}.check"
        params = dict(self=T.Ref(kind_cls, **fields_of(kind_cls)), pandera_dtype=any_dtype())

        def ensures(self, result, old, self_, pandera_dtype):
            same_kind = issubclass(pandera_dtype.cls, kind_cls)
            if not same_kind:
                return {"never_recognises_another_kind": Not(truth(result)), "returns_a_bool": isinstance(result, (bool, SBool))}
            conj = [py_eq(fld0(self_, "bit_width"), fld0(pandera_dtype, "bit_width"))]
            if with_sign:
                conj.append(py_eq(fld0(self_, "signed"), fld0(pandera_dtype, "signed")))
            out = {"recognises_iff_same_width" + ("_and_signedness" if with_sign else ""): Iff(truth(result), And(*conj)),
                   "returns_a_bool": isinstance(result, (bool, SBool))}
            return out

    C.__name__ = f"{kind_cls.__name__}Check"
    return C


IntCheck = _physical_check(D.Int, True)
FloatCheck = _physical_check(D.Float, False)
ComplexCheck = _physical_check(D.Complex, False)


def same_class_same_fields(I_eq, a: Obj, b: Obj):
    """dataclass equality: the oracle for `==` of two abstract dtypes that are not physical numbers"""
    import dataclasses

    if a.cls is not b.cls:
        return False
    return And(*[py_eq(fld0(a, f.name), fld0(b, f.name)) for f in dataclasses.fields(a.cls) if f.compare] or [True])


class PhysicalNumberEq(_DtypeContract):
    """_PhysicalNumber.__eq__: two physical numbers compare equal iff the argument is of the receiver's class (or a
    subclass) and has the same bit width; anything else is not equal (NotImplemented -> `==` is False).
    Consequence used by the registry: `Int() == Int64()` and never `Int32() == Int64()`."""

    target = f"{MOD}:_PhysicalNumber.__eq__"
    params = dict(self=T.ClassOneOf(*[T.Ref(c, **fields_of(c)) for c in LATTICE if issubclass(c, D._PhysicalNumber)]), obj=any_dtype())

    def call_target(self, I, fn, a):
        return I.call(fn, [a["self"], a["obj"]], {})

    def ensures(self, result, old, self_, obj):
        sub = issubclass(obj.cls, self_.cls)
        if sub:
            return {"equal_iff_same_bit_width": Iff(truth(result), py_eq(fld0(self_, "bit_width"), fld0(obj, "bit_width")))}
        return {"unrelated_class_is_not_equal": Not(truth(result))}


class NumberCheck(_DtypeContract):
    """_Number.check: the bare `_Number` accepts every number; every subclass that does not override `check`
    (Bool, Decimal) recognises exactly what it is equal to."""

    target = f"{MOD}:_Number.check"
    params = dict(self=T.ClassOneOf(*[T.Ref(c, **fields_of(c)) for c in (D._Number, D.Bool, D.Decimal)]), pandera_dtype=any_dtype())

    def ensures(self, result, old, self_, pandera_dtype):
        if self_.cls is D._Number:
            return {"bare_number_accepts_numbers_only": Iff(truth(result), issubclass(pandera_dtype.cls, D._Number))}
        out = {"recognises_only_its_own_class": Implies(truth(result), pandera_dtype.cls is self_.cls),
               "recognises_iff_equal": Iff(truth(result), same_class_same_fields(None, self_, pandera_dtype))}
        return out


class DataTypeCheck(_DtypeContract):
    """DataType.check (inherited by String, Date, Timestamp, Timedelta, Binary): recognises exactly equal types, so
    a temporal type never recognises another kind (class identity is part of dataclass equality)."""

    target = f"{MOD}:DataType.check"
    params = dict(self=T.ClassOneOf(*[T.Ref(c, **fields_of(c)) for c in (D.String, D.Date, D.Timestamp, D.Timedelta, D.Binary)]), pandera_dtype=any_dtype())

    def ensures(self, result, old, self_, pandera_dtype):
        return {"recognises_iff_same_class_and_fields": Iff(truth(result), same_class_same_fields(None, self_, pandera_dtype)),
                "never_recognises_another_kind": Implies(truth(result), pandera_dtype.cls is self_.cls)}


class CategoryCheck(_DtypeContract):
    """Category.check: a Category without categories is a superset of any Category (docstring in the body);
    otherwise equality; never recognises a non-category."""

    target = f"{MOD}:Category.check"
    params = dict(self=T.Ref(D.Category, **fields_of(D.Category)), pandera_dtype=any_dtype())

    def ensures(self, result, old, self_, pandera_dtype):
        if not issubclass(pandera_dtype.cls, D.Category):
            return {"never_recognises_a_non_category": Not(truth(result))}
        c1, c2 = fld0(self_, "categories"), fld0(pandera_dtype, "categories")
        if c1 is None or c2 is None:
            return {"unspecified_categories_match_any_category": truth(result)}
        return {"otherwise_equality": Iff(truth(result), same_class_same_fields(None, self_, pandera_dtype))}


# ---------------------------------------------------------------------------------------------
# class predicates
# ---------------------------------------------------------------------------------------------

# written from the docstrings ("Return True if DataType is an integer" ...), not from the bodies
IS_TABLE = {
    "is_int": D.Int, "is_uint": D.UInt, "is_float": D.Float, "is_complex": D.Complex, "is_numeric": D._Number, "is_bool": D.Bool,
    "is_string": D.String, "is_category": D.Category, "is_datetime": D.Timestamp, "is_timedelta": D.Timedelta, "is_binary": D.Binary,
}


class _ClassOrInstance(T.TypeDesc):
    """either a class of the lattice (concrete) or an instance of one (heap object)"""

    def fresh(self, name):
        cs = [c for c in LATTICE if c is not D.DataType]
        k = cur().choose([(c.__name__, None) for c in cs], f"class({name})")
        as_class = cur().choose([("class", None), ("instance", None)], f"{name} is a") == 0
        core.register_model_var(name, lambda m, c=cs[k], a=as_class: c.__name__ + ("" if a else "()"))
        return cs[k] if as_class else T.Ref(cs[k], **fields_of(cs[k])).fresh(name)


def cls_of(v):
    return v.cls if isinstance(v, Obj) else v


class IsSubdtype(Contract):
    """is_subdtype(a, b): "True if first argument is lower/equal in DataType hierarchy", classes or instances."""

    target = f"{MOD}:is_subdtype"
    params = dict(arg1=_ClassOrInstance(), arg2=_ClassOrInstance())
    max_paths = 20000

    def setup(self, I):
        DL.install(I)

    def call_target(self, I, fn, a):
        return I.call(fn, [a["arg1"], a["arg2"]], {})

    def ensures(self, result, old, arg1, arg2):
        return {"is_the_subclass_relation": result is issubclass(cls_of(arg1), cls_of(arg2))}


def _is_helper(name, kind):
    class C(Contract):
        __doc__ = f"{name}(x) is True exactly for classes/instances in the {kind.__name__} family"
        target = f"{MOD}:{name}"
        params = dict(pandera_dtype=_ClassOrInstance())

        def setup(self, I):
            DL.install(I)

        def call_target(self, I, fn, a):
            return I.call(fn, [a["pandera_dtype"]], {})

        def ensures(self, result, old, pandera_dtype):
            return {"true_exactly_for_its_family": result is issubclass(cls_of(pandera_dtype), kind)}

    C.__name__ = "Helper_" + name
    return C


HELPERS = [_is_helper(n, k) for n, k in IS_TABLE.items()]


# ---------------------------------------------------------------------------------------------
# lemma: the three check contracts give the property's clause
# ---------------------------------------------------------------------------------------------


class NoCrossKind(Lemma):
    """From the posts of Int/Float/Complex.check alone: for physical t1, t1.check(t2) implies
    (kind, signedness, bit width)(t1) == (kind, signedness, bit width)(t2).  kinds: 0 int, 1 float, 2 complex, 3 other."""

    params = dict(k1=T.Int, s1=T.Bool, b1=T.Int, k2=T.Int, s2=T.Bool, b2=T.Int)

    def statement(self, k1, s1, b1, k2, s2, b2):
        physical = And(k1 >= 0, k1 <= 2)
        # the contracts: check(t1, t2) <=> same family and same width (and same sign for ints)
        recognises = And(physical, k2 == k1, b1 == b2, Implies(k1 == 0, Iff(s1, s2)))
        # signedness is only meaningful for integers: normalise it for the other kinds
        sign = lambda k, s: core.ite(k == 0, s, False)
        return {"recognition_implies_same_kind_sign_width": Implies(recognises, And(k1 == k2, b1 == b2, Iff(sign(k1, s1), sign(k2, s2)))),
                "recognition_is_reflexive": Implies(physical, And(physical, k1 == k1, b1 == b1, Implies(k1 == 0, Iff(s1, s1))))}


CONTRACTS = [IntCheck, FloatCheck, ComplexCheck, PhysicalNumberEq, NumberCheck, DataTypeCheck, CategoryCheck, IsSubdtype] + HELPERS
LEMMAS = [NoCrossKind]
