"""C07 / C08 (built-in check dispatch): Dispatcher.__call__ only READS the process-wide dispatcher.

Every built-in check name (Check.ge, Check.isin, ...) is backed by ONE Dispatcher object, shared by the pandas and the polars back
end, by every schema and every thread.  A call resolves the implementation registered for the type of the data container and applies
it.  For the outcome to be independent of what other threads dispatch meanwhile, the call must not write the dispatcher at all
(no memo of the last resolution, no lazily added registry entries):

    strict_frame.no_write_to_shared_state / frame.preexisting_objects_unchanged
    post.applies_the_implementation_registered_for_the_containers_type   with exactly the caller's arguments, returns its result
    exit.unregistered_container_type_is_a_key_error
"""
from pyvc import core, types as T
from pyvc.core import PyExc, SAny, cur
from pyvc.heap import DictObj, Obj
from pyvc.interp import OtherException
from pyvc.spec import Contract
from pyvc.values import SymCallable


class PandasLike:
    pass


class PolarsLike:
    pass


class Unregistered:
    pass


class DispatcherCall(Contract):
    target = "pandera.api.function_dispatch:Dispatcher.__call__"
    raises = (KeyError, OtherException)
    strict_frame = True
    split = {"container": ["pandas", "polars", "unregistered"]}

    def make_args(self):
        from pandera.api.function_dispatch import Dispatcher

        d = Obj(Dispatcher, "dispatcher", pre=True, fields={})
        reg = DictObj()
        impls = {PandasLike: SymCallable("pandas_impl", T.Any, True), PolarsLike: SymCallable("polars_impl", T.Any, True)}
        for k, v in impls.items():
            dict.__setitem__(reg, k, v)
        reg.pre = True
        reg.name = "dispatcher._function_registry"
        d.attrs.update(_function_registry=reg, _name="greater_than")
        d.attrs0.update(d.attrs)
        cls = {"pandas": PandasLike, "polars": PolarsLike, "unregistered": Unregistered}[self.fixed.get("container", "pandas")]
        data = cls()
        cur().ghost.update(impls=impls, cls=cls)
        return {"self": d, "data": data, "arg": SAny(name="min_value")}

    def call_target(self, I, fn, a):
        return I.call(fn, [a["self"], a["data"], a["arg"]], {})

    def ensures(self, result, old, self_, data, arg):
        g = cur().ghost
        impl = g["impls"].get(g["cls"])
        out = {"registered_type_only": impl is not None}
        if impl is None:
            return out
        others = [v for k, v in g["impls"].items() if k is not g["cls"]]
        out["applies_the_implementation_registered_for_the_containers_type"] = len(impl.calls) == 1 and impl.calls[0][0] == (data, arg) and impl.calls[0][1] == {}
        out["no_other_implementation_is_called"] = all(len(o.calls) == 0 for o in others)
        return out

    def on_raise(self, exc, old, self_, data, arg):
        g = cur().ghost
        if exc.cls is KeyError:
            return {"unregistered_container_type_is_a_key_error": g["impls"].get(g["cls"]) is None}
        return {"only_the_implementation_raises": exc.attrs.get("__from_callback__") is not None}

    def concretize(self, rec):
        def thunk():
            """forced schedule in a fresh interpreter: a pandas validation is suspended inside Dispatcher.__call__ while a polars validation
            of an unrelated schema with the same built-in check runs to completion; outcomes are compared with the solo outcomes"""
            import subprocess
            import sys
            import textwrap

            code = textwrap.dedent('''
                import sys, threading, warnings
                warnings.simplefilter("ignore")
                import pandas as pd, polars as pl, pandera as pa, pandera.polars as pp
                ps = pa.DataFrameSchema({"a": pa.Column(int, pa.Check.ge(0))}); pdf = pd.DataFrame({"a": [1, 2]})
                ls = pp.DataFrameSchema({"a": pp.Column(int, pa.Check.ge(0))}); ldf = pl.DataFrame({"a": [1, 2]})
                ps.validate(pdf); ls.validate(ldf)      # solo: both accept (and every lazy registration is done)
                stops = {"n": 0}; result = {}
                gate, resume = threading.Event(), threading.Event()
                def tracer(frame, event, arg):
                    if frame.f_code.co_filename.endswith("function_dispatch.py") and frame.f_code.co_name == "__call__":
                        def local(frame, event, arg):
                            if event == "line" and stops["n"] == stops["at"]:
                                stops["n"] += 1; gate.set(); resume.wait(20)
                            elif event == "line":
                                stops["n"] += 1
                            return local
                        return local
                    return None
                bad = []
                for at in range(0, 8):
                    stops.update(n=0, at=at); gate.clear(); resume.clear(); result.clear()
                    def a():
                        sys.settrace(tracer)
                        try: ps.validate(pdf); result["pandas"] = "accepted"
                        except Exception as e: result["pandas"] = type(e).__name__
                        finally: sys.settrace(None)
                    ta = threading.Thread(target=a); ta.start()
                    if gate.wait(5):
                        try: ls.validate(ldf); result["polars"] = "accepted"
                        except Exception as e: result["polars"] = type(e).__name__
                    resume.set(); ta.join(20)
                    if any(v != "accepted" for v in result.values()):
                        bad.append((at, dict(result)))
                print(bad[:3])
                sys.exit(1 if bad else 0)
            ''')
            p = subprocess.run([sys.executable, "-c", code], capture_output=True, text=True, timeout=600)
            return p.returncode == 1, {"schedules (line stop inside Dispatcher.__call__, outcomes)": (p.stdout + p.stderr).strip()[-400:]}

        return thunk


CONTRACTS = [DispatcherCall]
