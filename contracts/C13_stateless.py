"""C13 - strategy builders are functions of their arguments: they keep no state between calls.

"every draw conforms to the schema that produced it" is a statement about ONE schema; it holds for every HISTORY of strategy
constructions only if building a strategy for one schema cannot influence the strategy built for another.  A memo table keyed on
checks is exactly such an influence: `Check.__eq__` / `__hash__` identify a check function by its bytecode, so two checks that
differ only in constants or closure values collide and the second schema draws from the first one's strategy.

structural.strategy_builders_keep_no_state (exhaustive over the live modules pandera.strategies.pandas_strategies and
pandera.strategies.base_strategies, decided on the AST of every function in them):
    /no_function_writes_module_level_state     no `global` statement; no item / attribute assignment, augmented assignment, `del`, or
                                               mutating method call (append, extend, update, setdefault, pop, clear, add, insert,
                                               remove, discard, popitem) whose receiver is a module-level name of the strategies
                                               modules; no functools.lru_cache / cache decorator
    /module_level_containers_are_the_documented_registries    the only mutable containers bound at module level are the documented
                                               registry STRATEGY_DISPATCHER (written by pandera.api.extensions.register_check_strategy)
Bounded stand-in of column_strategy (the body leaves the subset when `checks` is iterated): a bounded HISTORY on the real function -
strategies for several checks that share their bytecode but not their constants are built one after the other, 8 draws of each
must satisfy their own check.
"""
import ast
import inspect
import textwrap

MODS = ("pandera.strategies.pandas_strategies", "pandera.strategies.base_strategies")
MUTATORS = {"append", "extend", "update", "setdefault", "pop", "clear", "add", "insert", "remove", "discard", "popitem", "__setitem__", "__delitem__"}
DOCUMENTED_REGISTRIES = {("pandera.strategies.base_strategies", "STRATEGY_DISPATCHER")}


def _root_name(node):
    while isinstance(node, (ast.Attribute, ast.Subscript)):
        node = node.value
    return node.id if isinstance(node, ast.Name) else None


def strategy_builders_keep_no_state():
    import importlib

    bad_writes, containers, functions = [], [], 0
    for mn in MODS:
        mod = importlib.import_module(mn)
        tree = ast.parse(inspect.getsource(mod))
        module_names = set()
        for n in tree.body:
            if isinstance(n, ast.Assign):
                module_names |= {t.id for t in n.targets if isinstance(t, ast.Name)}
            elif isinstance(n, ast.AnnAssign) and isinstance(n.target, ast.Name):
                module_names.add(n.target.id)
        for name in sorted(module_names):
            v = getattr(mod, name, None)
            if isinstance(v, (dict, list, set, bytearray)) and (mn, name) not in DOCUMENTED_REGISTRIES:
                containers.append({"module": mn, "name": name, "type": type(v).__name__})
        for fn in ast.walk(tree):
            if not isinstance(fn, (ast.FunctionDef, ast.AsyncFunctionDef)):
                continue
            functions += 1
            local = {a.arg for a in fn.args.args + fn.args.kwonlyargs + fn.args.posonlyargs}
            for n in ast.walk(fn):
                if isinstance(n, ast.Assign):
                    local |= {t.id for t in n.targets if isinstance(t, ast.Name)}
            for d in fn.decorator_list:
                txt = ast.unparse(d)
                if "lru_cache" in txt or txt.split("(")[0].endswith("cache"):
                    bad_writes.append({"module": mn, "function": fn.name, "line": d.lineno, "what": f"memoising decorator @{txt}"})
            for n in ast.walk(fn):
                what = None
                if isinstance(n, (ast.Global, ast.Nonlocal)) and isinstance(n, ast.Global):
                    what = f"global {', '.join(n.names)}"
                elif isinstance(n, (ast.Assign, ast.AugAssign, ast.AnnAssign, ast.Delete)):
                    targets = n.targets if isinstance(n, (ast.Assign, ast.Delete)) else [n.target]
                    for t in targets:
                        if isinstance(t, (ast.Subscript, ast.Attribute)):
                            r = _root_name(t)
                            if r in module_names and r not in local:
                                what = f"write to module-level {ast.unparse(t)}"
                elif isinstance(n, ast.Call) and isinstance(n.func, ast.Attribute) and n.func.attr in MUTATORS:
                    r = _root_name(n.func.value)
                    if r in module_names and r not in local:
                        what = f"{ast.unparse(n.func)}(...) on module-level state"
                if what:
                    bad_writes.append({"module": mn, "function": fn.name, "line": getattr(n, "lineno", 0), "what": what})
    return [
        {"oid": "structural.strategy_builders_keep_no_state/no_function_writes_module_level_state", "ok": not bad_writes,
         "note": f"{functions} functions of {len(MODS)} strategy modules; offending writes: {len(bad_writes)}", "witness": {"writes": bad_writes[:6]}},
        {"oid": "structural.strategy_builders_keep_no_state/module_level_containers_are_the_documented_registries", "ok": not containers,
         "note": f"undocumented module-level containers: {len(containers)}", "witness": {"containers": containers[:6]}},
    ]


def _history_probe():
    """strategies for checks that share bytecode but not constants, built one after the other: every draw satisfies its own check"""
    import warnings

    import pandas as pd
    import pandera as pa
    from hypothesis import strategies as st
    from pandera.engines import pandas_engine
    from pandera.strategies import pandas_strategies as PS

    warnings.simplefilter("ignore")

    def at_least(k):
        return pa.Check(lambda x: x >= k, element_wise=True)

    obs, bad, n = {}, False, 0
    for dtype in (int, float):
        dt = pandas_engine.Engine.dtype(dtype)
        for k in (0, 1000, -5, 10**6):
            chk = at_least(k)
            col = PS.column_strategy(dt, checks=[chk], name="c")
            for _ in range(8):
                n += 1
                v = col.elements.example()
                if not (v >= k):
                    bad = True
                    obs[f"{dtype.__name__}: Check(lambda x: x >= {k}) built after the same lambda with other constants"] = f"drew {v!r}"
                    break
    return bad, obs, n


def _column_strategy_standin(seed=0, tier="quick"):
    bad, obs, n = _history_probe()
    bound = "history of 8 column_strategy constructions (2 dtypes x 4 constants of one check lambda), 8 draws each"
    return {"examples": n, "bound": bound, "failing_input": obs if bad else None, "observed": obs if bad else None}


def _replay(rec):
    def thunk():
        bad, obs, _ = _history_probe()
        return bad, obs or "every draw satisfied the check of the schema it was built for"

    return thunk


strategy_builders_keep_no_state.concretize = _replay

STRUCTURAL = [strategy_builders_keep_no_state]

from contracts.C13_containers import ColumnStrategy  # noqa: E402

ColumnStrategy.bounded_standin = staticmethod(_column_strategy_standin)


def _series_strategy_standin(seed=0, tier="quick"):
    """run-time contract on the real series_strategy: several vectorised custom checks WITHOUT a strategy (honoured by filtering whole
    draws) - every drawn Series satisfies EVERY one of them, whichever comes last"""
    import warnings

    import pandera as pa
    from pandera.engines import pandas_engine
    from pandera.strategies import pandas_strategies as PS

    warnings.simplefilter("ignore")
    import pandas as pd

    pa.SeriesSchema(int).validate(pd.Series([1]))  # (registers the pandas check back ends, as any first validation does)
    n, obs = 0, {}
    preds = {"all >= -50": lambda s: bool((s >= -50).all()), "sum >= 0": lambda s: bool(s.sum() >= 0), "max <= 60": lambda s: bool(s.max() <= 60) if len(s) else True}
    orders = [["all >= -50", "sum >= 0"], ["sum >= 0", "all >= -50"], ["max <= 60", "sum >= 0", "all >= -50"]]
    for order in orders:
        checks = [pa.Check((lambda f: (lambda s: f(s)))(preds[k]), name=k) for k in order]
        strat = PS.series_strategy(pandas_engine.Engine.dtype(int), checks=[pa.Check.in_range(-100, 100)] + checks, size=4)
        for _ in range(6):
            n += 1
            s = strat.example()
            bad = [k for k in order if not preds[k](s)]
            if bad:
                return {"examples": n, "bound": "3 orders of 2-3 vectorised custom checks, 6 draws each", "failing_input": {"checks in order": order, "drawn": s.tolist()},
                        "observed": f"the draw violates {bad}"}
    return {"examples": n, "bound": "3 orders of 2-3 vectorised custom checks, 6 draws each", "failing_input": None}


from contracts.C13_containers import SeriesStrategy  # noqa: E402

SeriesStrategy.bounded_standin = staticmethod(_series_strategy_standin)
