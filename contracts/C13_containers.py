"""C13 (container level, what is provable): every flag of the schema reaches the assembly call.

* series_strategy / index_strategy / column_strategy: the drawn container is assembled from the element strategy that
  field_element_strategy returns for (dtype, checks) [its support is characterised by FieldElementStrategy], with the requested
  size, the unique flag, the name, the numpy dtype, the conversion to the pandera dtype, nulls only when nullable, and a whole-series
  filter for every vectorised check that has no strategy (loop invariant over the symbolic check list).
* ArraySchema.strategy, Column.strategy, Column.strategy_component, Index.strategy, Index.strategy_component,
  DataFrameSchema.strategy, MultiIndex.strategy: forward exactly the schema's own fields.
* registry wiring (STRUCTURAL): STRATEGY_DISPATCHER maps each built-in check name to the strategy function whose leaf contract
  uses that check's C01 spec, for pd.Series and pd.DataFrame; Check.<name>(...).statistics are exactly the keyword-only parameters
  of that function; built-in checks carry no strategy of their own (so the dispatcher decides).
* dataframe_strategy / multiindex_strategy and everything hypothesis / numpy do at draw time: run-time contract
  `schema.validate(draw)` over generated schemas (bounded stand-in, never counted as proof).
"""
import z3

from pyvc import core, types as T
from pyvc.core import And, Iff, Implies, Not, Or, PyExc, SAny, SBool, SNum, cur, ite, py_eq
from pyvc.heap import DictObj, ListObj, Obj
from pyvc.spec import Contract, LoopSpec, resolve_target
from pyvc.theories import hypothesis_lite as H
from pyvc.theories import pandas_lite as PL
from pyvc.theories.hypothesis_lite import ColumnSpec, SeriesDraw, StratVal
from pyvc.values import SymCallable, SymSeq
from contracts.util import fld, fld0
from contracts.C13_strategies import (KIND, LEAVES, MOD, SORT, CheckName, DispatcherModel, install_common, pandera_dtype)

PS = MOD


def schema_definition_error():
    from pandera.errors import SchemaDefinitionError

    return SchemaDefinitionError


def install_element_recorder(I):
    """field_element_strategy is under its own contract (FieldElementStrategy): here its result is an opaque strategy and the
    call is recorded, so that 'the container is built from the elements of (dtype, strategy, checks)' can be stated."""
    fes = resolve_target(f"{PS}:field_element_strategy")

    def model(I, pandera_dtype, strategy=None, *, checks=None):
        e = StratVal(lambda: (SAny(name="element"), True), "field_element_strategy(...)")
        cur().ghost.setdefault("fes_calls", []).append(((pandera_dtype, strategy, checks), e))
        return e

    I.models[id(fes)] = model


def container_checks(name="checks"):
    """checks as the container strategies see them: strategy (None or some), dispatcher entry or not, element_wise flag, callable"""
    n = core.sym_int(f"len({name})")
    cur().assume(n >= 0)

    def elem(i):
        p = cur()
        iz = i.z if isinstance(i, SNum) else z3.IntVal(i)
        k = p.choose([("own_strategy", None), ("dispatched", None), ("no_strategy", None)], f"kind({name}[{iz}])")
        o = Obj(None, f"{name}[{iz}]", pre=True, fields={"__call__": T.Callback(T.Ref(None, check_passed=T.Bool), raises=False)})
        o.attrs.update(strategy=(SAny(name="own_strategy") if k == 0 else None), name=CheckName(object() if k == 1 else None),
                       element_wise=core.sym_bool("element_wise"))
        o.attrs0.update(o.attrs)
        o.c13_kind = k
        return o

    return SymSeq(name, n, elem)


def call_objects_through_dunder_call(I):
    orig_call = I.call

    def call(fn, args=(), kwargs=None):
        if isinstance(fn, Obj) and "__call__" in fn.field_types:
            return orig_call(I.getattr(fn, "__call__"), args, kwargs)
        return orig_call(fn, args, kwargs)

    I.call = call


def root_of(s):
    while isinstance(s, StratVal) and s.op == "loop-filtered":
        s = s.base
    return s


def filters_loop_spec(strategy_local="strategy"):
    """loop over checks that may only add whole-container filters for vectorised checks without strategy"""

    def havoc(I, fr, k, old):
        def d(old=old):
            v, c = old.draw()
            return v, And(c, core.sym_bool("earlier_filters"))

        s = StratVal(d, "strategy_after_k_checks", op="loop-filtered", base=old)
        cur().ghost["c13_before"] = s
        return s

    def invariant(I, fr, k, phase):
        if phase != "keep":
            return {"container_strategy_exists": isinstance(fr.locals[strategy_local], StratVal)} if phase == "init" else {}
        p = cur()
        new, before, check = fr.locals[strategy_local], p.ghost["c13_before"], fr.locals["check"]
        undefined = And(check.c13_kind == 2, Not(fld0(check, "element_wise")))
        if p.decide(undefined, "vectorised check without strategy"):
            ok = isinstance(new, StratVal) and new.op == "filter" and new.base is before
            out = {"vectorised_check_without_strategy_filters_the_whole_container": ok}
            if ok:
                token = SAny(name="drawn_container")
                cb = fld0(check, "__call__")
                n0 = len(cb.calls)
                r = I.call(new.arg, [token])
                res = [o for o in p.objects if o.name.startswith(cb.name + "#")]
                out["filter_is_the_check_verdict_on_the_container"] = (len(cb.calls) == n0 + 1 and cb.calls[-1][0][:1] == (token,) and len(res) >= 1
                                                                       and r is res[-1].attrs.get("check_passed"))
            return out
        return {"checks_with_element_strategies_add_no_container_filter": new is before}

    return LoopSpec(invariant=invariant, havoc={strategy_local: havoc})


class _Container(Contract):
    sym_globals = {f"{PS}:STRATEGY_DISPATCHER": T.Lazy(lambda n: DispatcherModel())}

    def setup(self, I):
        install_common(I)
        install_element_recorder(I)
        call_objects_through_dunder_call(I)
        H.install_composite_function(I, resolve_target(f"{PS}:null_field_masks"))

    def common_args(self):
        tag = self.fixed.get("dtype", "int")
        p = cur()
        p.labels.append(f"dtype={tag}")
        p.ghost["c13_tag"] = tag
        return tag

    def elements_ok(self, v, pandera_dtype, strategy, checks):
        calls = cur().ghost.get("fes_calls", [])
        return (len(calls) == 1 and calls[0][0][0] is pandera_dtype and calls[0][0][1] is strategy and calls[0][0][2] is checks
                and v.elements is calls[0][1])

    def np_dtype_of(self, pandera_dtype):
        from pandera.strategies.pandas_strategies import to_numpy_dtype

        return to_numpy_dtype(pandera_dtype)


class SeriesStrategy(_Container):
    target = f"{PS}:series_strategy"
    split = {"dtype": ["int", "float", "str"], "checks": ["None", "some"]}
    raises = ()

    def make_args(self):
        tag = self.common_args()
        return {"pandera_dtype": pandera_dtype(tag), "strategy": None,
                "checks": container_checks() if self.fixed.get("checks", "some") == "some" else None,
                "nullable": T.fresh_value(T.Bool, "nullable"), "unique": T.fresh_value(T.Bool, "unique"),
                "name": T.fresh_value(T.Opt(T.Any), "name"), "size": T.fresh_value(T.Opt(T.Nat), "size")}

    def call_target(self, I, fn, a):
        return I.call(fn, [a["pandera_dtype"], a["strategy"]], {k: a[k] for k in ("checks", "nullable", "unique", "name", "size")})

    loops = {0: filters_loop_spec()}

    def ensures(self, result, old, pandera_dtype, strategy, checks, nullable, unique, name, size):
        out = {"returns_a_strategy": isinstance(result, StratVal)}
        if not out["returns_a_strategy"]:
            return out
        v, c = result.draw()
        out["draws_a_series"] = isinstance(v, SeriesDraw) and v.container == "series"
        if not out["draws_a_series"]:
            return out
        out["elements_come_from_field_element_strategy_of_dtype_and_checks"] = self.elements_ok(v, pandera_dtype, strategy, checks)
        out["numpy_dtype_of_the_schema_dtype"] = v.np_dtype == self.np_dtype_of(pandera_dtype)
        out["never_empty"] = Implies(c, v.n > 0)
        if size is not None:
            out["requested_size"] = Implies(And(c, size > 0), py_eq(v.n, size))
        out["unique_flag_reaches_assembly"] = Iff(v.unique, unique)
        out["name_is_the_schema_name"] = v.name is name
        out["converted_to_the_schema_dtype_last"] = len([s for s in v.steps if s[0] == "astype"]) >= 1 and \
            [s for s in v.steps if s[0] == "astype"][-1][1] is pandera_dtype.type
        out["nulls_only_when_nullable"] = Implies(v.may_null, nullable) if not isinstance(v.may_null, bool) else (Implies(True, nullable) if v.may_null else True)
        return out


class IndexStrategy(_Container):
    target = f"{PS}:index_strategy"
    split = {"dtype": ["int", "float", "str", "None"]}
    raises = (schema_definition_error(),)

    def make_args(self):
        tag = self.common_args()
        return {"pandera_dtype": None if tag == "None" else pandera_dtype(tag), "strategy": None, "checks": T.fresh_value(T.Opt(T.Any), "checks"),
                "nullable": T.fresh_value(T.Bool, "nullable"), "unique": T.fresh_value(T.Bool, "unique"),
                "name": T.fresh_value(T.Opt(T.Any), "name"), "size": T.fresh_value(T.Opt(T.Nat), "size")}

    def call_target(self, I, fn, a):
        return I.call(fn, [a["pandera_dtype"], a["strategy"]], {k: a[k] for k in ("checks", "nullable", "unique", "name", "size")})

    def ensures(self, result, old, pandera_dtype, strategy, checks, nullable, unique, name, size):
        out = {"dtype_required": pandera_dtype is not None, "returns_a_strategy": isinstance(result, StratVal)}
        if not out["returns_a_strategy"] or pandera_dtype is None:
            return out
        v, c = result.draw()
        out["draws_an_index"] = isinstance(v, SeriesDraw) and v.container == "index"
        if not out["draws_an_index"]:
            return out
        out["elements_come_from_field_element_strategy_of_dtype_and_checks"] = self.elements_ok(v, pandera_dtype, strategy, checks)
        out["numpy_dtype_of_the_schema_dtype"] = v.np_dtype == self.np_dtype_of(pandera_dtype)
        if size is not None:
            out["requested_size"] = Implies(c, py_eq(v.n, size))
        out["unique_flag_reaches_assembly"] = Iff(v.unique, unique)
        out["name_is_the_schema_name"] = (v.name is name) if name is not None else v.name is None
        ast = [s for s in v.steps if s[0] == "astype"]
        out["converted_to_the_schema_dtype"] = len(ast) >= 1 and ast[0][1] is pandera_dtype.type
        out["nulls_only_when_nullable"] = (Implies(True, nullable) if v.may_null else True)
        return out

    def on_raise(self, exc, old, pandera_dtype, **a):
        return {"only_a_missing_dtype_is_reported": exc.cls is schema_definition_error() and pandera_dtype is None}


class ColumnStrategy(_Container):
    target = f"{PS}:column_strategy"
    split = {"dtype": ["int", "float", "str", "None"]}
    raises = (schema_definition_error(),)

    def make_args(self):
        tag = self.common_args()
        return {"pandera_dtype": None if tag == "None" else pandera_dtype(tag), "strategy": None, "checks": T.fresh_value(T.Opt(T.Any), "checks"),
                "unique": T.fresh_value(T.Bool, "unique"), "name": T.fresh_value(T.Opt(T.Any), "name")}

    def call_target(self, I, fn, a):
        return I.call(fn, [a["pandera_dtype"], a["strategy"]], {k: a[k] for k in ("checks", "unique", "name")})

    def ensures(self, result, old, pandera_dtype, strategy, checks, unique, name):
        out = {"dtype_required": pandera_dtype is not None, "returns_a_column_spec": isinstance(result, ColumnSpec)}
        if not out["returns_a_column_spec"] or pandera_dtype is None:
            return out
        out["elements_come_from_field_element_strategy_of_dtype_and_checks"] = self.elements_ok(result, pandera_dtype, strategy, checks)
        out["numpy_dtype_of_the_schema_dtype"] = result.dtype == self.np_dtype_of(pandera_dtype)
        out["unique_flag_reaches_assembly"] = result.unique is unique
        out["name_is_the_schema_name"] = result.name is name
        return out

    def on_raise(self, exc, old, pandera_dtype, **a):
        return {"only_a_missing_dtype_is_reported": exc.cls is schema_definition_error() and pandera_dtype is None}


# ---------------------------------------------------------------------------------------
# schema methods: forward the schema's own fields
# ---------------------------------------------------------------------------------------


def _forwarder(cls_name, target, callee, fields, extra_params=(), positional=("dtype",), via_super=False, passthrough=()):
    class F(Contract):
        raises = ()

        def setup(self, I):
            install_common(I)
            fn = resolve_target(f"{PS}:{callee}")

            def rec(I, *args, **kw):
                tok = StratVal(lambda: (SAny(name="container"), True), callee)
                cur().ghost.setdefault("fw_calls", []).append((args, kw, tok))
                return tok

            I.models[id(fn)] = rec
            for o in self.opaque_methods:
                I.models[id(resolve_target(o))] = lambda I, *a, **k: None

        def make_args(self):
            modname, qual = target.split(":")
            cls = getattr(__import__(modname, fromlist=["x"]), qual.split(".")[0])
            a = {"self": T.Ref(cls, **{f: T.Any for f in fields}).fresh("self")}
            for p in extra_params:
                a[p] = T.fresh_value(T.Opt(T.Any), p)
            return a

        def call_target(self, I, fn, a):
            return I.call(fn, [a["self"]], {p: a[p] for p in extra_params})

        def ensures(self, result, old, self_, **extra):
            calls = cur().ghost.get("fw_calls", [])
            out = {"assembly_function_called_once": len(calls) == 1}
            if len(calls) != 1:
                return out
            args, kw, tok = calls[0]
            pos_ok = len(args) == len(positional) and all(x is fld0(self_, f) for x, f in zip(args, positional))
            out["dtype_forwarded"] = pos_ok
            want = {f: fld0(self_, f) for f in fields if f not in positional}
            want.update(extra)
            out["exactly_the_schema_fields_and_arguments_forwarded"] = set(kw) == set(want) and all(kw[k] is want[k] for k in want if k in kw)
            if passthrough:
                out["result_is_the_assembly_strategy"] = result is tok
            return out

    F.target = target
    F.__name__ = cls_name
    F.opaque_methods = ()
    return F


ArraySchemaStrategy = _forwarder("ArraySchema_strategy", "pandera.api.pandas.array:ArraySchema.strategy.__wrapped__", "series_strategy",
                                 ("dtype", "checks", "nullable", "unique", "name"), extra_params=("size",), passthrough=True)
ArraySchemaStrategy.opaque_methods = ("pandera.api.pandas.array:ArraySchema.register_default_backends",)
IndexStrategyMethod = _forwarder("Index_strategy", "pandera.api.pandas.components:Index.strategy.__wrapped__", "index_strategy",
                                 ("dtype", "checks", "nullable", "unique", "name"), extra_params=("size",), passthrough=True)
ColumnComponent = _forwarder("Column_strategy_component", "pandera.api.pandas.components:Column.strategy_component.__wrapped__", "column_strategy",
                             ("dtype", "checks", "unique", "name"), passthrough=True)
IndexComponent = _forwarder("Index_strategy_component", "pandera.api.pandas.components:Index.strategy_component.__wrapped__", "column_strategy",
                            ("dtype", "checks", "unique", "name"), passthrough=True)
DataFrameSchemaStrategy = _forwarder("DataFrameSchema_strategy", "pandera.api.pandas.container:DataFrameSchema.strategy.__wrapped__", "dataframe_strategy",
                                     ("dtype", "columns", "checks", "unique", "index"), extra_params=("size", "n_regex_columns"), passthrough=True)
DataFrameSchemaStrategy.opaque_methods = ("pandera.api.pandas.container:DataFrameSchema.register_default_backends",)
MultiIndexStrategy = _forwarder("MultiIndex_strategy", "pandera.api.pandas.components:MultiIndex.strategy.__wrapped__", "multiindex_strategy",
                                ("indexes",), extra_params=("size",), positional=(), passthrough=True)

CONTRACTS = [SeriesStrategy, IndexStrategy, ColumnStrategy, ArraySchemaStrategy, IndexStrategyMethod, ColumnComponent, IndexComponent,
             DataFrameSchemaStrategy, MultiIndexStrategy]
