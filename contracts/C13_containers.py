"""C13 (container level, what is provable): every flag of the schema reaches the assembly call.

* series_strategy / index_strategy / column_strategy: the drawn container is assembled from the element strategy that
  field_element_strategy returns for (dtype, checks) [its support is characterised by FieldElementStrategy], with the requested
  size, the unique flag, the name, the numpy dtype, the conversion to the pandera dtype, nulls only when nullable, and a whole-series
  filter for every vectorised check that has no strategy (loop invariant over the symbolic check list).
* ArraySchema.strategy, Column.strategy, Column.strategy_component, Index.strategy, Index.strategy_component,
  DataFrameSchema.strategy, MultiIndex.strategy: forward exactly the schema's own fields.
* registry wiring (STRUCTURAL): STRATEGY_DISPATCHER maps each built-in check name to the strategy function whose leaf contract
  uses that check's C01 spec, for pd.Series and pd.DataFrame; Check.<name>(...).statistics are exactly the keyword-only parameters
  of that function; built-in checks carry no strategy of their own (so the dispatcher decides).
* dataframe_strategy / multiindex_strategy and everything hypothesis / numpy do at draw time: run-time contract
  `schema.validate(draw)` over generated schemas (bounded stand-in, never counted as proof).
"""
import z3

from pyvc import core, types as T
from pyvc.core import And, Iff, Implies, Not, Or, PyExc, SAny, SBool, SNum, cur, ite, py_eq
from pyvc.heap import DictObj, ListObj, Obj
from pyvc.spec import Contract, LoopSpec, resolve_target
from pyvc.theories import hypothesis_lite as H
from pyvc.theories import pandas_lite as PL
from pyvc.theories.hypothesis_lite import ColumnSpec, SeriesDraw, StratVal
from pyvc.values import SymCallable, SymSeq
from contracts.util import fld, fld0
from contracts.C13_strategies import (KIND, LEAVES, MOD, SORT, CheckName, DispatcherModel, install_common, pandera_dtype)

PS = MOD


def schema_definition_error():
    from pandera.errors import SchemaDefinitionError

    return SchemaDefinitionError


def install_element_recorder(I):
    """field_element_strategy is under its own contract (FieldElementStrategy): here its result is an opaque strategy and the
    call is recorded, so that 'the container is built from the elements of (dtype, strategy, checks)' can be stated."""
    fes = resolve_target(f"{PS}:field_element_strategy")

    def model(I, pandera_dtype, strategy=None, *, checks=None):
        e = StratVal(lambda: (SAny(name="element"), True), "field_element_strategy(...)")
        cur().ghost.setdefault("fes_calls", []).append(((pandera_dtype, strategy, checks), e))
        return e

    I.models[id(fes)] = model


def container_checks(name="checks"):
    """checks as the container strategies see them: strategy (None or some), dispatcher entry or not, element_wise flag, callable"""
    n = core.sym_int(f"len({name})")
    cur().assume(n >= 0)

    def elem(i):
        p = cur()
        iz = i.z if isinstance(i, SNum) else z3.IntVal(i)
        k = p.choose([("own_strategy", None), ("dispatched", None), ("no_strategy", None)], f"kind({name}[{iz}])")
        o = Obj(None, f"{name}[{iz}]", pre=True, fields={"__call__": T.Callback(T.Ref(None, check_passed=T.Bool), raises=False)})
        o.attrs.update(strategy=(SAny(name="own_strategy") if k == 0 else None), name=CheckName(object() if k == 1 else None),
                       element_wise=core.sym_bool("element_wise"))
        o.attrs0.update(o.attrs)
        o.c13_kind = k
        return o

    return SymSeq(name, n, elem)


def call_objects_through_dunder_call(I):
    orig_call = I.call

    def call(fn, args=(), kwargs=None):
        if isinstance(fn, Obj) and "__call__" in fn.field_types:
            return orig_call(I.getattr(fn, "__call__"), args, kwargs)
        return orig_call(fn, args, kwargs)

    I.call = call


def root_of(s):
    while isinstance(s, StratVal) and s.op == "loop-filtered":
        s = s.base
    return s


def filters_loop_spec(strategy_local="strategy"):
    """loop over checks that may only add whole-container filters for vectorised checks without strategy"""

    def havoc(I, fr, k, old):
        def d(old=old):
            v, c = old.draw()
            return v, And(c, core.sym_bool("earlier_filters"))

        s = StratVal(d, "strategy_after_k_checks", op="loop-filtered", base=old)
        cur().ghost["c13_before"] = s
        return s

    def invariant(I, fr, k, phase):
        if phase != "keep":
            return {"container_strategy_exists": isinstance(fr.locals[strategy_local], StratVal)} if phase == "init" else {}
        p = cur()
        new, before, check = fr.locals[strategy_local], p.ghost["c13_before"], fr.locals["check"]
        undefined = And(check.c13_kind == 2, Not(fld0(check, "element_wise")))
        if p.decide(undefined, "vectorised check without strategy"):
            ok = isinstance(new, StratVal) and new.op == "filter" and new.base is before
            out = {"vectorised_check_without_strategy_filters_the_whole_container": ok}
            if ok:
                token = SAny(name="drawn_container")
                cb = fld0(check, "__call__")
                n0 = len(cb.calls)
                r = I.call(new.arg, [token])
                res = [o for o in p.objects if o.name.startswith(cb.name + "#")]
                out["filter_is_the_check_verdict_on_the_container"] = (len(cb.calls) == n0 + 1 and cb.calls[-1][0][:1] == (token,) and len(res) >= 1
                                                                       and r is res[-1].attrs.get("check_passed"))
            return out
        return {"checks_with_element_strategies_add_no_container_filter": new is before}

    return LoopSpec(invariant=invariant, havoc={strategy_local: havoc})


class _Container(Contract):
    sym_globals = {f"{PS}:STRATEGY_DISPATCHER": T.Lazy(lambda n: DispatcherModel())}

    def setup(self, I):
        install_common(I)
        install_element_recorder(I)
        call_objects_through_dunder_call(I)
        H.install_composite_function(I, resolve_target(f"{PS}:null_field_masks"))

    def common_args(self):
        tag = self.fixed.get("dtype", "int")
        p = cur()
        p.labels.append(f"dtype={tag}")
        p.ghost["c13_tag"] = tag
        return tag

    def elements_ok(self, v, pandera_dtype, strategy, checks):
        calls = cur().ghost.get("fes_calls", [])
        return (len(calls) == 1 and calls[0][0][0] is pandera_dtype and calls[0][0][1] is strategy and calls[0][0][2] is checks
                and v.elements is calls[0][1])

    def np_dtype_of(self, pandera_dtype):
        from pandera.strategies.pandas_strategies import to_numpy_dtype

        return to_numpy_dtype(pandera_dtype)


class SeriesStrategy(_Container):
    target = f"{PS}:series_strategy"
    split = {"dtype": ["int", "float", "str"], "checks": ["None", "some"]}
    raises = ()

    def make_args(self):
        tag = self.common_args()
        return {"pandera_dtype": pandera_dtype(tag), "strategy": None,
                "checks": container_checks() if self.fixed.get("checks", "some") == "some" else None,
                "nullable": T.fresh_value(T.Bool, "nullable"), "unique": T.fresh_value(T.Bool, "unique"),
                "name": T.fresh_value(T.Opt(T.Any), "name"), "size": T.fresh_value(T.Opt(T.Nat), "size")}

    def call_target(self, I, fn, a):
        return I.call(fn, [a["pandera_dtype"], a["strategy"]], {k: a[k] for k in ("checks", "nullable", "unique", "name", "size")})

    loops = {0: filters_loop_spec()}

    def ensures(self, result, old, pandera_dtype, strategy, checks, nullable, unique, name, size):
        out = {"returns_a_strategy": isinstance(result, StratVal)}
        if not out["returns_a_strategy"]:
            return out
        v, c = result.draw()
        out["draws_a_series"] = isinstance(v, SeriesDraw) and v.container == "series"
        if not out["draws_a_series"]:
            return out
        out["elements_come_from_field_element_strategy_of_dtype_and_checks"] = self.elements_ok(v, pandera_dtype, strategy, checks)
        out["numpy_dtype_of_the_schema_dtype"] = v.np_dtype == self.np_dtype_of(pandera_dtype)
        out["never_empty"] = Implies(c, v.n > 0)
        if size is not None:
            out["requested_size"] = Implies(And(c, size > 0), py_eq(v.n, size))
        out["unique_flag_reaches_assembly"] = Iff(v.unique, unique)
        out["name_is_the_schema_name"] = v.name is name
        out["converted_to_the_schema_dtype_last"] = len([s for s in v.steps if s[0] == "astype"]) >= 1 and \
            [s for s in v.steps if s[0] == "astype"][-1][1] is pandera_dtype.type
        out["nulls_only_when_nullable"] = Implies(v.may_null, nullable) if not isinstance(v.may_null, bool) else (Implies(True, nullable) if v.may_null else True)
        # uniqueness is established by the assembly call; a null mask applied afterwards may null several rows (nulls count as duplicates)
        out["unique_values_stay_unique"] = Not(And(v.unique, v.may_null))
        return out


class IndexStrategy(_Container):
    target = f"{PS}:index_strategy"
    split = {"dtype": ["int", "float", "str", "None"], "checks": ["opaque", "one_vectorised_check_without_strategy"]}
    raises = (schema_definition_error(),)

    def make_args(self):
        tag = self.common_args()
        if self.fixed.get("checks") == "one_vectorised_check_without_strategy":
            cur().labels.append("checks=[vectorised custom check without strategy]")
            chk = Obj(None, "checks[0]", pre=True, fields={"__call__": T.Callback(T.Ref(None, check_passed=T.Bool), raises=False)})
            chk.attrs.update(strategy=None, name=CheckName(None), element_wise=False)
            chk.attrs0.update(chk.attrs)
            checks = ListObj([chk])
        else:
            checks = T.fresh_value(T.Opt(T.Any), "checks")
        return {"pandera_dtype": None if tag == "None" else pandera_dtype(tag), "strategy": None, "checks": checks,
                "nullable": T.fresh_value(T.Bool, "nullable"), "unique": T.fresh_value(T.Bool, "unique"),
                "name": T.fresh_value(T.Opt(T.Any), "name"), "size": T.fresh_value(T.Opt(T.Nat), "size")}

    def call_target(self, I, fn, a):
        return I.call(fn, [a["pandera_dtype"], a["strategy"]], {k: a[k] for k in ("checks", "nullable", "unique", "name", "size")})

    def ensures(self, result, old, pandera_dtype, strategy, checks, nullable, unique, name, size):
        out = {"dtype_required": pandera_dtype is not None, "returns_a_strategy": isinstance(result, StratVal)}
        if not out["returns_a_strategy"] or pandera_dtype is None:
            return out
        v, c = result.draw()
        out["draws_an_index"] = isinstance(v, SeriesDraw) and v.container == "index"
        if not out["draws_an_index"]:
            return out
        out["elements_come_from_field_element_strategy_of_dtype_and_checks"] = self.elements_ok(v, pandera_dtype, strategy, checks)
        out["numpy_dtype_of_the_schema_dtype"] = v.np_dtype == self.np_dtype_of(pandera_dtype)
        if size is not None:
            out["requested_size"] = Implies(c, py_eq(v.n, size))
        out["unique_flag_reaches_assembly"] = Iff(v.unique, unique)
        out["name_is_the_schema_name"] = (v.name is name) if name is not None else v.name is None
        ast = [s for s in v.steps if s[0] == "astype"]
        out["converted_to_the_schema_dtype"] = len(ast) >= 1 and ast[0][1] is pandera_dtype.type
        out["nulls_only_when_nullable"] = (Implies(True, nullable) if v.may_null else True)
        out["unique_values_stay_unique"] = Not(And(v.unique, v.may_null))
        # a masked entry IS the missing value of the drawn index: no step may rewrite the values after the mask (a `map(str)` after it
        # turns every missing entry into the text 'nan' - a value that never came from the element strategy of the checks)
        kinds = [st[0] for st in v.steps]
        out["the_null_mask_is_the_last_step_that_touches_the_values"] = ("mask" not in kinds) or not any(k in ("map", "astype") for k in kinds[kinds.index("mask") + 1:])
        if isinstance(checks, ListObj):
            # as series_strategy does: a vectorised check that has no strategy can only be honoured by filtering whole draws
            ops, _root = result.chain()
            out["vectorised_checks_without_strategy_are_filtered"] = any(op == "filter" for op, _ in ops)
        return out

    def on_raise(self, exc, old, pandera_dtype, **a):
        return {"only_a_missing_dtype_is_reported": exc.cls is schema_definition_error() and pandera_dtype is None}


def _index_strategy_replay(self, rec):
    def thunk():
        """a nullable text index with a check the text 'nan' fails: every draw validates against the schema it was drawn for"""
        import warnings

        import hypothesis
        import pandas as pd
        import pandera as pa

        warnings.simplefilter("ignore")
        schema = pa.DataFrameSchema({"a": pa.Column(int)}, index=pa.Index(str, pa.Check.str_startswith("id_"), nullable=True))
        rejected = []

        @hypothesis.settings(max_examples=40, derandomize=True, database=None, deadline=None, suppress_health_check=list(hypothesis.HealthCheck))
        @hypothesis.given(schema.strategy(size=4))
        def run(df):
            try:
                schema.validate(df)
            except Exception as e:  # noqa: BLE001
                rejected.append((list(df.index), type(e).__name__))

        run()
        return bool(rejected), ({"draws rejected by their own schema (index, error)": rejected[:3], "count": len(rejected)} if rejected else "40 draws of a nullable text index validate")

    return thunk


IndexStrategy.concretize = _index_strategy_replay


class ColumnStrategy(_Container):
    target = f"{PS}:column_strategy"
    split = {"dtype": ["int", "float", "str", "None"]}
    raises = (schema_definition_error(),)

    def make_args(self):
        tag = self.common_args()
        return {"pandera_dtype": None if tag == "None" else pandera_dtype(tag), "strategy": None, "checks": T.fresh_value(T.Opt(T.Any), "checks"),
                "unique": T.fresh_value(T.Bool, "unique"), "name": T.fresh_value(T.Opt(T.Any), "name")}

    def call_target(self, I, fn, a):
        return I.call(fn, [a["pandera_dtype"], a["strategy"]], {k: a[k] for k in ("checks", "unique", "name")})

    def ensures(self, result, old, pandera_dtype, strategy, checks, unique, name):
        out = {"dtype_required": pandera_dtype is not None, "returns_a_column_spec": isinstance(result, ColumnSpec)}
        if not out["returns_a_column_spec"] or pandera_dtype is None:
            return out
        out["elements_come_from_field_element_strategy_of_dtype_and_checks"] = self.elements_ok(result, pandera_dtype, strategy, checks)
        out["numpy_dtype_of_the_schema_dtype"] = result.dtype == self.np_dtype_of(pandera_dtype)
        out["unique_flag_reaches_assembly"] = result.unique is unique
        out["name_is_the_schema_name"] = result.name is name
        return out

    def on_raise(self, exc, old, pandera_dtype, **a):
        return {"only_a_missing_dtype_is_reported": exc.cls is schema_definition_error() and pandera_dtype is None}


# ---------------------------------------------------------------------------------------
# schema methods: forward the schema's own fields
# ---------------------------------------------------------------------------------------


def _forwarder(cls_name, target, callee, fields, extra_params=(), positional=("dtype",), via_super=False, passthrough=()):
    class F(Contract):
        raises = ()

        def setup(self, I):
            install_common(I)
            fn = resolve_target(f"{PS}:{callee}")

            def rec(I, *args, **kw):
                tok = StratVal(lambda: (SAny(name="container"), True), callee)
                cur().ghost.setdefault("fw_calls", []).append((args, kw, tok))
                return tok

            I.models[id(fn)] = rec
            for o in self.opaque_methods:
                # register_default_backends: imports pandera.backends.pandas (which registers the built-in checks and their
                # strategies in STRATEGY_DISPATCHER); modelled as an event, no other effect on the schema
                I.models[id(resolve_target(o))] = lambda I, *a, **k: cur().ghost.setdefault("fw_calls", []).append("register_default_backends")

        def make_args(self):
            modname, qual = target.split(":")
            cls = getattr(__import__(modname, fromlist=["x"]), qual.split(".")[0])
            a = {"self": T.Ref(cls, **{f: T.Any for f in fields}).fresh("self")}
            for p in extra_params:
                a[p] = T.fresh_value(T.Opt(T.Any), p)
            return a

        def call_target(self, I, fn, a):
            return I.call(fn, [a["self"]], {p: a[p] for p in extra_params})

        def ensures(self, result, old, self_, **extra):
            events = cur().ghost.get("fw_calls", [])
            calls = [c for c in events if c != "register_default_backends"]
            out = {"assembly_function_called_once": len(calls) == 1}
            if len(calls) != 1:
                return out
            if self.entry_point:
                # STRATEGY_DISPATCHER is filled when pandera.backends.pandas.builtin_checks is imported, which only
                # register_default_backends guarantees: a public entry point must do that before the checks are looked up
                out["built_in_check_strategies_registered_before_assembly"] = "register_default_backends" in events[: events.index(calls[0])]
            args, kw, tok = calls[0]
            pos_ok = len(args) == len(positional) and all(x is fld0(self_, f) for x, f in zip(args, positional))
            out["dtype_forwarded"] = pos_ok
            want = {f: fld0(self_, f) for f in fields if f not in positional}
            want.update(extra)
            out["exactly_the_schema_fields_and_arguments_forwarded"] = set(kw) == set(want) and all(kw[k] is want[k] for k in want if k in kw)
            if passthrough:
                out["result_is_the_assembly_strategy"] = result is tok
            return out

    F.target = target
    F.__name__ = cls_name
    F.opaque_methods = ("pandera.api.pandas.array:ArraySchema.register_default_backends", "pandera.api.pandas.container:DataFrameSchema.register_default_backends")
    F.entry_point = callee in ("series_strategy", "index_strategy", "dataframe_strategy", "multiindex_strategy")
    return F


ArraySchemaStrategy = _forwarder("ArraySchema_strategy", "pandera.api.pandas.array:ArraySchema.strategy.__wrapped__", "series_strategy",
                                 ("dtype", "checks", "nullable", "unique", "name"), extra_params=("size",), passthrough=True)
IndexStrategyMethod = _forwarder("Index_strategy", "pandera.api.pandas.components:Index.strategy.__wrapped__", "index_strategy",
                                 ("dtype", "checks", "nullable", "unique", "name"), extra_params=("size",), passthrough=True)
ColumnComponent = _forwarder("Column_strategy_component", "pandera.api.pandas.components:Column.strategy_component.__wrapped__", "column_strategy",
                             ("dtype", "checks", "unique", "name"), passthrough=True)
IndexComponent = _forwarder("Index_strategy_component", "pandera.api.pandas.components:Index.strategy_component.__wrapped__", "column_strategy",
                            ("dtype", "checks", "unique", "name"), passthrough=True)
DataFrameSchemaStrategy = _forwarder("DataFrameSchema_strategy", "pandera.api.pandas.container:DataFrameSchema.strategy.__wrapped__", "dataframe_strategy",
                                     ("dtype", "columns", "checks", "unique", "index"), extra_params=("size", "n_regex_columns"), passthrough=True)
MultiIndexStrategy = _forwarder("MultiIndex_strategy", "pandera.api.pandas.components:MultiIndex.strategy.__wrapped__", "multiindex_strategy",
                                ("indexes",), extra_params=("size",), positional=(), passthrough=True)

CONTRACTS = [SeriesStrategy, IndexStrategy, ColumnStrategy, ArraySchemaStrategy, IndexStrategyMethod, ColumnComponent, IndexComponent,
             DataFrameSchemaStrategy, MultiIndexStrategy]


# ---------------------------------------------------------------------------------------
# STRUCTURAL: registry wiring (finite, exhaustive, decided over live program structure)
# ---------------------------------------------------------------------------------------

# check name -> leaf contract whose `spec` is the C01 meaning of that check
WIRING = {
    "equal_to": "eq_strategy", "not_equal_to": "ne_strategy", "greater_than": "gt_strategy", "greater_than_or_equal_to": "ge_strategy",
    "less_than": "lt_strategy", "less_than_or_equal_to": "le_strategy", "in_range": "in_range_strategy", "isin": "isin_strategy",
    "notin": "notin_strategy", "str_matches": "str_matches_strategy", "str_contains": "str_contains_strategy",
    "str_startswith": "str_startswith_strategy", "str_endswith": "str_endswith_strategy", "str_length": "str_length_strategy",
}
# the C01 oracle each leaf contract must be stated with (name of the function in contracts/specs.py or the regex relation)
SPEC_OF = {
    "equal_to": "equal_to", "not_equal_to": "not_equal_to", "greater_than": "greater_than", "greater_than_or_equal_to": "greater_than_or_equal_to",
    "less_than": "less_than", "less_than_or_equal_to": "less_than_or_equal_to", "in_range": "in_range", "isin": "isin", "notin": "notin",
    "str_length": "str_length",
}


def strategy_registry_wiring():
    import inspect

    import pandas as pd

    import pandera.backends.pandas.builtin_checks  # noqa: F401  (registration happens at import)
    import pandera.strategies.pandas_strategies as ps
    from pandera.api.checks import Check
    from pandera.strategies.base_strategies import STRATEGY_DISPATCHER

    leaf_by_fn = {c.target.split(":")[1]: c for c in LEAVES}
    out = []
    for name, fn_name in WIRING.items():
        fn = getattr(ps, fn_name)
        leaf = leaf_by_fn.get(fn_name)
        for dt in (pd.Series, pd.DataFrame):
            got = STRATEGY_DISPATCHER.get((name, dt))
            out.append({"oid": f"structural:strategy_dispatcher/{name}.{dt.__name__}", "ok": got is fn and leaf is not None,
                        "note": f"STRATEGY_DISPATCHER[({name!r}, {dt.__name__})] is {getattr(got, '__name__', got)}; contract {getattr(leaf, '__name__', None)}",
                        "witness": {"registered": getattr(got, "__name__", repr(got)), "expected": fn_name}})
        # the statistics of the built-in check are exactly the keyword-only parameters of its strategy function
        sig = inspect.signature(fn)
        kwonly = [p.name for p in sig.parameters.values() if p.kind is p.KEYWORD_ONLY]
        positional = [p.name for p in sig.parameters.values() if p.kind is p.POSITIONAL_OR_KEYWORD]
        ctor = inspect.signature(getattr(Check, name))
        ctor_params = [p.name for p in ctor.parameters.values() if p.kind is p.POSITIONAL_OR_KEYWORD]
        sample = {"equal_to": (1,), "not_equal_to": (1,), "greater_than": (1,), "greater_than_or_equal_to": (1,), "less_than": (1,),
                  "less_than_or_equal_to": (1,), "in_range": (1, 2), "isin": ([1],), "notin": ([1],), "str_matches": ("a",), "str_contains": ("a",),
                  "str_startswith": ("a",), "str_endswith": ("a",), "str_length": (1, 2)}[name]
        chk = getattr(Check, name)(*sample)
        out.append({"oid": f"structural:strategy_signature/{name}", "ok": positional == ["pandera_dtype", "strategy"] and set(chk.statistics) == set(kwonly)
                    and set(kwonly) == set(leaf.stats) and chk.name == name and chk.strategy is None and not chk.element_wise,
                    "note": f"Check.{name}(...).statistics keys {sorted(chk.statistics)} vs strategy keyword-only {sorted(kwonly)} vs contract {sorted(leaf.stats)}; "
                            f"check.name={chk.name!r} check.strategy={chk.strategy!r}",
                    "witness": {"statistics": sorted(chk.statistics), "kwonly": sorted(kwonly), "ctor": ctor_params}})
    extra = sorted({k[0] for k in STRATEGY_DISPATCHER if k[0] not in WIRING})
    out.append({"oid": "structural:strategy_dispatcher/no_entry_without_contract", "ok": not extra,
                "note": f"dispatcher entries without a leaf contract: {extra}", "witness": extra})
    return out


def leaf_specs_are_the_c01_oracle():
    """each leaf contract is stated with the same spec function object as the C01 leaf contract of that check"""
    import inspect

    from contracts import specs
    from contracts import C13_strategies as S

    out = []
    src = inspect.getsource(S)
    for name, spec_name in SPEC_OF.items():
        fn_name = WIRING[name]
        # the factory line of the leaf names specs.<spec_name> (AST-free textual check on the contract module itself)
        line = next((l for l in src.splitlines() if f'"{fn_name}"' in l or f"target = f\"{{MOD}}:{fn_name}\"" in l), "")
        body = src[src.index(line): src.index(line) + 1600] if line else ""
        out.append({"oid": f"structural:leaf_spec_is_c01_spec/{name}", "ok": hasattr(specs, spec_name) and f"specs.{spec_name}(" in body,
                    "note": f"{fn_name} contract uses specs.{spec_name}", "witness": line.strip()[:160]})
    return out


STRUCTURAL = [strategy_registry_wiring, leaf_specs_are_the_c01_oracle]


# ---------------------------------------------------------------------------------------
# dataframe_strategy / multiindex_strategy: argument validation is proved; the assembly is a run-time contract (bounded)
# ---------------------------------------------------------------------------------------


def _no_frame_model(I):
    import hypothesis.extra.pandas as pdst

    def data_frames(I, *a, **k):
        raise core.Unsupported("assembly of data frames by hypothesis.extra.pandas.data_frames (rows/columns/fill, numpy casts) is outside the proof vocabulary")

    I.models[id(pdst.data_frames)] = data_frames


class DataFrameStrategy(Contract):
    """n_regex_columns < 1 -> ValueError; a chained call -> BaseStrategyOnlyError; otherwise a strategy whose every draw passes the
    schema (run-time contract on generated schemas: bounded stand-in, because the draw leaves the verifiable subset)."""

    target = f"{PS}:dataframe_strategy"
    split = {"case": ["chained", "bad_n_regex_columns", "draw"]}
    from pandera.errors import BaseStrategyOnlyError as _B

    raises = (ValueError, _B)

    def setup(self, I):
        install_common(I)
        _no_frame_model(I)

    def make_args(self):
        case = self.fixed.get("case", "draw")
        cur().labels.append(f"case={case}")
        n = T.fresh_value(T.Int, "n_regex_columns")
        cur().assume(n < 1 if case == "bad_n_regex_columns" else n >= 1)
        return {"pandera_dtype": None, "strategy": StratVal.parameter("strategy", "num") if case == "chained" else None, "columns": DictObj(),
                "checks": None, "unique": None, "index": None, "size": T.fresh_value(T.Opt(T.Nat), "size"), "n_regex_columns": n}

    def call_target(self, I, fn, a):
        return I.call(fn, [a["pandera_dtype"], a["strategy"]], {k: a[k] for k in ("columns", "checks", "unique", "index", "size", "n_regex_columns")})

    def ensures(self, result, old, strategy, n_regex_columns, **a):
        out = {"arguments_were_valid": And(strategy is None, n_regex_columns >= 1), "returns_a_strategy": isinstance(result, StratVal)}
        if isinstance(result, StratVal):
            result.draw()  # interprets the composite body up to the assembly call
        return out

    def on_raise(self, exc, old, strategy, n_regex_columns, **a):
        from pandera.errors import BaseStrategyOnlyError

        return {"value_error_iff_bad_n_regex_columns": Iff(exc.cls is ValueError, n_regex_columns < 1),
                "base_strategy_only": Implies(exc.cls is BaseStrategyOnlyError, strategy is not None)}


class MultiIndexStrategyFn(Contract):
    target = f"{PS}:multiindex_strategy"
    split = {"case": ["chained", "draw"]}
    from pandera.errors import BaseStrategyOnlyError as _B

    raises = (_B,)

    def setup(self, I):
        install_common(I)
        _no_frame_model(I)

    def make_args(self):
        case = self.fixed.get("case", "draw")
        cur().labels.append(f"case={case}")
        return {"pandera_dtype": None, "strategy": StratVal.parameter("strategy", "num") if case == "chained" else None, "indexes": ListObj(),
                "size": T.fresh_value(T.Opt(T.Nat), "size")}

    def call_target(self, I, fn, a):
        return I.call(fn, [a["pandera_dtype"], a["strategy"]], {"indexes": a["indexes"], "size": a["size"]})

    def ensures(self, result, old, strategy, **a):
        return {"arguments_were_valid": strategy is None}

    def on_raise(self, exc, old, strategy, **a):
        return {"base_strategy_only": strategy is not None}


def _random_checks(rng, kind, pa):
    """a chain of built-in / custom checks that is satisfiable and stays inside the residual of the recorded findings
    (eq only as the first check, inclusive in_range on ints, literal startswith/endswith strings, both str_length bounds)"""
    C = pa.Check
    if kind in ("int", "float"):
        f = (lambda v: v) if kind == "int" else (lambda v: v + rng.choice([0.0, 0.5, 0.25]))
        pool = [lambda: C.gt(f(rng.randint(-100, 0))), lambda: C.ge(f(rng.randint(-100, 1))), lambda: C.lt(f(rng.randint(50, 150))),
                lambda: C.le(f(rng.randint(49, 150))), lambda: C.ne(f(rng.randint(1, 49))),
                lambda: C.in_range(f(rng.randint(-50, 1)), f(rng.randint(49, 90))) if kind == "int" else C.in_range(
                    f(rng.randint(-50, 0)), f(rng.randint(50, 90)), include_min=rng.random() < 0.5, include_max=rng.random() < 0.5),
                lambda: C.isin([float(v) if kind == "float" else v for v in rng.sample(range(1, 49), rng.randint(3, 8))]),
                lambda: C.notin([float(v) if kind == "float" else v for v in rng.sample(range(1, 49), 3)]),
                lambda: C(lambda x: x < 1000, element_wise=True), lambda: C(lambda s: s < 1000), lambda: C(lambda s: bool(s.notna().all()))]
        chain = [rng.choice(pool)() for _ in range(rng.randint(0, 3))]
        if rng.random() < 0.15:
            chain = [C.eq(f(rng.randint(1, 49)))] + [c for c in chain if c.name in ("greater_than", "greater_than_or_equal_to", "less_than", "less_than_or_equal_to")]
        return chain
    if kind == "str":
        pool = [lambda: [C.str_startswith(rng.choice(["ab", "x", "foo"]))], lambda: [C.str_endswith(rng.choice(["ab", "x", "foo"]))],
                lambda: [C.str_contains(rng.choice(["ab", "x"]))], lambda: [C.str_matches(rng.choice(["[a-c]{2,4}", "x+y?"]))],
                lambda: [C.str_length(rng.randint(0, 2), rng.randint(6, 12))], lambda: [C.str_startswith("ab"), C.str_length(2, 12)],
                lambda: [C.isin(["a", "b", "c", "dd"])], lambda: [C.ne("zz")], lambda: []]
        return rng.choice(pool)()
    return []


def _random_field(rng, pa, cls, name=None, allow_nullable=True):
    kind = rng.choice(["int", "float", "str", "int", "float"])
    dtype = {"int": int, "float": float, "str": str}[kind]
    checks = _random_checks(rng, kind, pa)
    if cls is pa.Index:  # recorded finding: index strategies ignore vectorised custom checks
        checks = [c for c in checks if c.name != "<lambda>" or c.element_wise]
    kw = dict(checks=checks, unique=rng.random() < 0.2, name=name)
    if allow_nullable:
        # int/str with nulls cannot keep their dtype (pandas): outside the vocabulary; unique + nullable is a recorded finding
        kw["nullable"] = kind == "float" and not kw["unique"] and rng.random() < 0.3
    return cls(dtype, **kw), kind


def _container_standin(kind):
    def run(seed=0, tier="quick"):
        import random
        import warnings

        import hypothesis
        import pandas as pd

        import pandera as pa
        import pandera.backends.pandas.builtin_checks  # noqa: F401  residual of finding C13-index-strategy-unregistered: registry filled

        rng = random.Random(seed * 7919 + (1 if kind == "dataframe" else 2))
        n_schemas, n_draws = (24, 4) if tier == "quick" else (300, 20)
        reported = 0
        bound = f"{n_schemas} generated schemas x {n_draws} draws (derandomized hypothesis), dtypes int/float/str, <=3 checks per field, <=3 columns, sizes None/1..4"
        for case in range(n_schemas):
            size = rng.choice([None, 1, 2, 3, 4])
            if kind == "dataframe":
                cols = {}
                desc = []
                for i in range(rng.randint(1, 3)):
                    col, k = _random_field(rng, pa, pa.Column, name=None)
                    cols[f"c{i}"] = col
                    desc.append((f"c{i}", k, [str(c) for c in col.checks], col.nullable, col.unique))
                if rng.random() < 0.2:
                    cols[r"r_\d"] = pa.Column(int, pa.Check.ge(0), regex=True)
                    desc.append((r"r_\d", "int", ["ge(0)"], False, False))
                index = None
                r = rng.random()
                if r < 0.25:
                    index, _ = _random_field(rng, pa, pa.Index, name="idx", allow_nullable=False)
                elif r < 0.4:
                    index = pa.MultiIndex([pa.Index(int, pa.Check.ge(0), name="l0"), pa.Index(str, pa.Check.isin(["a", "b", "c"]), name="l1")])
                df_checks = [pa.Check(lambda df: df.shape[0] >= 0)] if rng.random() < 0.2 else []
                schema = pa.DataFrameSchema(cols, index=index, checks=df_checks)
                describe = {"columns": desc, "index": repr(index)[:200], "size": size}
                validate = schema.validate
            else:
                idx = []
                for i in range(rng.randint(1, 3)):
                    ix, k = _random_field(rng, pa, pa.Index, name=f"l{i}", allow_nullable=False)
                    idx.append(ix)
                schema = pa.MultiIndex(idx)
                describe = {"levels": [(ix.name, str(ix.dtype), [str(c) for c in ix.checks], ix.unique) for ix in idx], "size": size}
                validate = lambda mi, schema=schema: pa.DataFrameSchema(index=schema).validate(pd.DataFrame(index=mi))  # noqa: E731
            failing = []

            def test(obj):
                try:
                    validate(obj)
                except (pa.errors.SchemaError, pa.errors.SchemaErrors) as e:
                    failing.append((obj, e))
                    raise

            try:
                with warnings.catch_warnings():
                    warnings.simplefilter("ignore")
                    strat = schema.strategy(size=size)
                    hypothesis.seed(seed)(hypothesis.settings(max_examples=n_draws, database=None, deadline=None, derandomize=True,
                                                              phases=[hypothesis.Phase.generate], suppress_health_check=list(hypothesis.HealthCheck))(
                        hypothesis.given(strat)(test)))()
            except (pa.errors.SchemaError, pa.errors.SchemaErrors) as e:
                obj = failing[0][0]
                return {"examples": case + 1, "bound": bound, "failing_input": {"schema": describe, "draw": repr(obj.reset_index().to_dict("list") if hasattr(obj, "reset_index") else [list(t) for t in obj])[:1500]},
                        "observed": f"the schema rejects its own draw: {str(e)[:300]}"}
            except hypothesis.errors.HypothesisException:
                reported += 1  # the strategy reported (Unsatisfiable / InvalidArgument / health check): allowed by the property
            except Exception as e:  # the strategy crashed on a schema of the vocabulary
                return {"examples": case + 1, "bound": bound, "failing_input": {"schema": describe}, "observed": f"strategy raised {type(e).__name__}: {str(e)[:300]}"}
        return {"examples": n_schemas, "bound": bound, "failing_input": None, "reported_unsatisfiable": reported}

    return run


DataFrameStrategy.bounded_standin = staticmethod(_container_standin("dataframe"))
MultiIndexStrategyFn.bounded_standin = staticmethod(_container_standin("multiindex"))
CONTRACTS += [DataFrameStrategy, MultiIndexStrategyFn]
