"""C16 (generic models): DataFrameModel.__class_getitem__ - `Model[int]` is the model with its type variables bound, nothing else.

A generic model `class M(DataFrameModel, Generic[T])` is parameterised by building a subclass that re-declares the fields whose
annotation mentions a type variable.  A field is an ATTRIBUTE of the class; the column it describes is named by its alias when it has
one.  The re-declaration must go under the field's attribute name: filed under the alias it would (a) leave the generic field
un-parameterised and (b) shadow whatever other field happens to have that attribute name (a column silently vanishes), or not even be
an identifier (`alias=2020`).

    post.every_generic_field_is_redeclared_under_its_attribute_name      keys of the new annotations / attributes == attribute names
    post.no_other_field_is_shadowed
    post.the_redeclared_field_is_a_copy_of_the_field
    post.the_parameterised_class_is_a_subclass_named_after_the_arguments
"""
import typing

from pyvc import core, types as T
from pyvc.core import SAny, cur
from pyvc.heap import DictObj, Obj
from pyvc.spec import Contract
from pyvc.theories.opaque import OpaqueVal

DM = "pandera.api.dataframe.model:DataFrameModel"
TV = typing.TypeVar("TV")


class _Origin:
    """the generic alias origin of an annotation (pandera.typing.Series): Series[int]"""

    __pyvc_symbolic__ = True

    def pyvc_getitem(self, I, k):
        return ("Series", k)


class _Cache:
    """GENERIC_SCHEMA_CACHE: (class, arguments) -> parameterised class; empty at entry (a cached answer is the class built earlier)"""

    __pyvc_symbolic__ = True

    def __init__(self):
        self.stored = []

    def pyvc_contains(self, I, k):
        return False

    def pyvc_setitem(self, I, k, v):
        self.stored.append((k, v))


class ClassGetItem(Contract):
    target = f"{DM}.__class_getitem__"
    model_path = ("pandera.api.dataframe.model", "DataFrameModel")
    check_frame = False
    split = {"alias": ["none", "text_alias_that_is_another_fields_name", "non_text_alias"]}
    sym_globals = {"pandera.api.dataframe.model:GENERIC_SCHEMA_CACHE": T.Lazy(lambda n: _Cache())}

    def setup(self, I):
        import builtins
        import copy

        import importlib

        DataFrameModel = getattr(importlib.import_module(self.model_path[0]), self.model_path[1])

        I.models[id(DataFrameModel.__dict__["_collect_fields"].__func__)] = lambda I_, cls: cur().ghost["fields"]
        I.models[id(copy.deepcopy)] = lambda I_, x, memo=None: ("copy_of", x)

        orig_type = I.models[id(builtins.type)]

        def type_(I_, v, *rest):
            if rest:
                cur().ghost["built"] = (v, rest[0], rest[1])
                return OpaqueVal("parameterised_class")
            return orig_type(I_, v, *rest)

        I.models[id(builtins.type)] = type_

    def make_args(self):
        how = self.fixed.get("alias", "none")
        alias = {"none": None, "text_alias_that_is_another_fields_name": "b", "non_text_alias": 2020}[how]

        def field(original, alias_):
            f = Obj(None, f"field_{original}", pre=True, fields={})
            f.attrs.update(original_name=original, alias=alias_, name=alias_ if alias_ is not None else original)
            f.attrs0.update(f.attrs)
            return f

        def annot(arg):
            a = Obj(None, f"annotation_{arg}", pre=True, fields={})
            a.attrs.update(arg=arg, origin=_Origin(), optional=False)
            a.attrs0.update(a.attrs)
            return a

        fa, fb = field("a", alias), field("b", "c")
        fields = DictObj()
        dict.__setitem__(fields, fa.attrs["name"], (annot(TV), fa))  # a: Series[T]   (generic)
        dict.__setitem__(fields, fb.attrs["name"], (annot(int), fb))  # b: Series[int] (not generic)
        cur().ghost.update(fa=fa, fb=fb, fields=fields)
        import importlib

        DataFrameModel = getattr(importlib.import_module(self.model_path[0]), self.model_path[1])
        cls = Obj(DataFrameModel, "cls", pre=True, fields={})  # (stands for the generic model CLASS: classmethods resolve on it)
        cls.attrs.update(__parameters__=(TV,), __name__="M")
        cls.attrs0.update(cls.attrs)
        return {"cls": cls, "item": int}

    def call_target(self, I, fn, a):
        return I.call(fn, [a["cls"], a["item"]], {})

    def ensures(self, result, old, cls, item):
        g = cur().ghost
        built = g.get("built")
        out = {"builds_the_parameterised_class": built is not None}
        if built is None:
            return out
        name, bases, extra = built
        ann = dict(extra.get("__annotations__", {})) if isinstance(extra, dict) else None
        attrs = {k: v for k, v in dict(extra).items() if k != "__annotations__"} if isinstance(extra, dict) else None
        out["the_parameterised_class_is_a_subclass_named_after_the_arguments"] = name == "M[int]" and tuple(bases) == (cls,)
        out["every_generic_field_is_redeclared_under_its_attribute_name"] = ann is not None and list(ann) == ["a"] and list(attrs) == ["a"]
        out["no_other_field_is_shadowed"] = attrs is not None and "b" not in attrs and "b" not in (ann or {})
        if attrs and "a" in attrs:
            out["the_redeclared_field_is_a_copy_of_the_field"] = attrs["a"] == ("copy_of", g["fa"])
            out["the_type_variable_is_bound"] = ann.get("a") == ("Series", int)
        return out

    def concretize(self, rec):
        def thunk():
            """a generic model whose generic field has an alias that is another field's attribute name, and a non-text alias"""
            import warnings
            from typing import Generic, TypeVar

            import pandera as pa
            from pandera.typing import Series

            warnings.simplefilter("ignore")
            Tv = TypeVar("Tv")

            class H(pa.DataFrameModel, Generic[Tv]):
                a: Series[Tv] = pa.Field(alias="b")
                b: Series[int] = pa.Field(alias="c", lt=0)

            class N(pa.DataFrameModel):
                a: Series[int] = pa.Field(alias="b")
                b: Series[int] = pa.Field(alias="c", lt=0)

            obs = {"columns of H[int]": list(H[int].to_schema().columns), "columns of the non-generic equivalent": list(N.to_schema().columns)}
            bad = obs["columns of H[int]"] != obs["columns of the non-generic equivalent"]

            class G(pa.DataFrameModel, Generic[Tv]):
                x: Series[Tv] = pa.Field(alias=2020)

            try:
                obs["G[int] with alias=2020"] = list(G[int].to_schema().columns)
            except Exception as e:  # noqa: BLE001
                obs["G[int] with alias=2020"] = f"{type(e).__name__}: {e}"[:100]
                bad = True
            return bad, obs

        return thunk


class PysparkClassGetItem(ClassGetItem):
    """the pyspark model has its own copy of __class_getitem__ (and of the cache): the same contract"""

    target = "pandera.api.pyspark.model:DataFrameModel.__class_getitem__"
    model_path = ("pandera.api.pyspark.model", "DataFrameModel")
    sym_globals = {"pandera.api.pyspark.model:GENERIC_SCHEMA_CACHE": T.Lazy(lambda n: _Cache())}

    def concretize(self, rec):
        return None  # (pyspark models need a Spark session to replay)


CONTRACTS = [ClassGetItem, PysparkClassGetItem]
