"""C05 / C07 / C08 (polars container): schema components are validated on private copies; failures leave no trace.

The polars container back end needs the column schemas with coercion switched off (the container already coerced) and, when the
schema declares a dataframe-level dtype, with that dtype.  Both adjustments must be made on COPIES: the Column objects in
`schema.columns` belong to the caller, are shared by every later validation of the same schema object and by every thread.

collect_schema_components (for all required / coerce flags and dtypes, columns present or absent, <= 2 declared columns):
    post.every_component_is_a_private_copy        no returned component is an object of the schema
    post.components_do_not_coerce                 coerce is False on every returned component
    post.dataframe_dtype_overrides_the_column_dtype
    post.exactly_the_columns_to_validate          required or present or regex-matched, and not reported absent - in schema order
    frame.preexisting_objects_unchanged           the schema and its columns are as before (C05)
run_schema_component_checks (unbounded component list, loop invariant; every outcome of a component's validate):
    inv.*                                         each component validated once on the frame given, lazily as requested; one failed
                                                  result per component error, none invented (C02)
    frame.preexisting_objects_unchanged           on EVERY exit no attribute of a component differs from its entry value (C05/C06)
    strict_frame.no_write_to_shared_state         not even temporarily (C07, checked under C07)
"""
import z3

from pandera.api.polars.components import Column as PlColumn
from pandera.backends.base import CoreCheckResult
from pandera.dtypes import DataType
from pandera.errors import SchemaError, SchemaErrorReason, SchemaErrors
from pyvc import core, types as T
from pyvc.core import PyExc, SAny, cur, py_eq
from pyvc.heap import DictObj, ListObj, Obj
from pyvc.interp import OtherException
from pyvc.spec import Contract, LoopSpec
from pyvc.values import SeqChunk, SymSeq
from contracts.util import fld, fld0

DFP = "pandera.backends.polars.container:DataFrameSchemaBackend"


def pl_column_ref(**over):
    f = dict(_dtype=T.Opt(T.Ref(DataType)), coerce=T.Bool, name=T.Opt(T.Label), required=T.Bool, regex=T.Bool, nullable=T.Bool, unique=T.Bool,
             default=T.Any, checks=T.Any, selector=T.Any, drop_invalid_rows=T.Bool)
    f.update(over)
    return T.Ref(PlColumn, **f)


def install_polars_engine_dtype(I):
    from pandera.engines import polars_engine

    def dtype_model(I, cls, x):
        if isinstance(x, Obj) and x.cls is not None and issubclass(x.cls, DataType):
            return x
        return T.Ref(DataType).fresh("resolved_dtype")

    f = polars_engine.Engine.__dict__.get("dtype")
    I.models[id(f.__func__ if hasattr(f, "__func__") else f)] = dtype_model


class NamesFrame:
    __pyvc_symbolic__ = True

    def __init__(self, names):
        self.names = list(names)

    def pyvc_contains(self, I, x):
        return x in self.names

    def pyvc_class(self):
        import polars as pl

        return pl.LazyFrame


class PolarsCollectSchemaComponents(Contract):
    target = f"{DFP}.collect_schema_components"
    split = {"present": ["both", "k0", "k1", "none"], "dtype": ["none", "declared"], "declared": ["two", "no_columns"]}

    def setup(self, I):
        install_polars_engine_dtype(I)

        def new_column(I_, dtype=None, *a, name=None, **k):
            # Column(schema.dtype, name=...): a new component of the per-frame list (its constructor has its own contract: C09 / C16)
            c = Obj(PlColumn, f"Column({name})", pre=False)
            c.attrs.update(name=name, _dtype=dtype, regex=False, required=True, coerce=False, nullable=False, unique=False, default=None, checks=ListObj(),
                           selector=name, drop_invalid_rows=False)
            cur().ghost.setdefault("built_columns", []).append(c)
            return c

        I.models[id(PlColumn)] = new_column
        import pandera.api.polars.utils as PU
        import pandera.backends.polars.container as PC

        names = lambda I, lf: list(lf.names)  # noqa: E731
        I.models[id(PU.get_lazyframe_column_names)] = names
        I.models[id(PC.get_lazyframe_column_names)] = names

    def make_args(self):
        from pandera.backends.polars.container import DataFrameSchemaBackend as B

        present = {"both": ["k0", "k1"], "k0": ["k0"], "k1": ["k1"], "none": []}[self.fixed.get("present", "both")]
        declared = ("k0", "k1") if self.fixed.get("declared", "two") == "two" else ()
        cols = DictObj()
        for k in declared:
            c = pl_column_ref(regex=T.Const(False)).fresh(f"schema.columns[{k}]")
            c.attrs["name"] = k
            c.attrs0["name"] = k
            dict.__setitem__(cols, k, c)
        cols.pre = True
        cols.name = "schema.columns"
        sdt = None if self.fixed.get("dtype", "none") == "none" else T.Ref(DataType).fresh("schema.dtype")
        schema = T.Ref(None).fresh("schema")
        for a, v in (("columns", cols), ("dtype", sdt)):
            schema.attrs[a] = v
            schema.attrs0[a] = v
        # absent_column_names as collect_column_info computes them: required, non-regex, not in the frame
        info = T.Ref(None).fresh("column_info")
        absent = ListObj()
        req = {}
        for k in declared:
            r = fld(cols[k], "required")
            req[k] = bool(cur().decide(r, f"required[{k}]")) if not isinstance(r, bool) else r
            if req[k] and k not in present:
                absent.append(k)
        for a, v in (("absent_column_names", absent), ("regex_match_patterns", ListObj()), ("expanded_column_names", frozenset(k for k in declared if k in present)),
                     ("sorted_column_names", {k: None for k in declared if k in present}), ("destuttered_column_names", list(present))):
            info.attrs[a] = v
            info.attrs0[a] = v
        cur().ghost.update(present=present, req=req, cols=cols, sdt=sdt, declared=declared)
        return {"self": T.Ref(B).fresh("self"), "check_obj": NamesFrame(present), "schema": schema, "column_info": info}

    def call_target(self, I, fn, a):
        return I.call(fn, [a["self"], a["check_obj"], a["schema"], a["column_info"]], {})

    def ensures(self, result, old, self_, check_obj, schema, column_info):
        g = cur().ghost
        # no declared column and a dataframe dtype: one component per column of the frame, in frame order
        implied = not g["declared"] and g["sdt"] is not None
        want = list(g["present"]) if implied else [k for k in g["declared"] if k in g["present"]]  # (an absent required column is reported by check_column_presence, an absent optional one is skipped)
        own = list(dict.values(g["cols"]))
        comps = list(result) if isinstance(result, (list, ListObj)) else None
        out = {"returns_a_list": comps is not None}
        if comps is None:
            return out
        out["exactly_the_columns_to_validate"] = [fld(c, "name") for c in comps] == want
        out["every_component_is_a_private_copy"] = all(isinstance(c, Obj) and c.pre is False and all(c is not o for o in own) for c in comps)
        out["components_do_not_coerce"] = all(fld(c, "coerce") is False for c in comps)
        out["the_schema_declares_what_it_declared"] = list(dict.keys(g["cols"])) == list(g["declared"]) and schema.attrs["columns"] is g["cols"]
        if g["sdt"] is not None:
            out["dataframe_dtype_overrides_the_column_dtype"] = all(fld(c, "_dtype") is g["sdt"] for c in comps)
        else:
            out["column_dtype_kept_without_a_dataframe_dtype"] = all(fld(c, "_dtype") is fld0(g["cols"][fld(c, "name")], "_dtype") or isinstance(fld(c, "_dtype"), Obj)
                                                                      for c in comps)
        return out

    def concretize(self, rec):
        def thunk():
            """a schema that declares only a dataframe dtype, validated once: it must still declare no columns"""
            import warnings

            import polars as pl
            import pandera.polars as pp

            warnings.simplefilter("ignore")
            schema = pp.DataFrameSchema(dtype=pl.Int64)
            before = list(schema.columns)
            schema.validate(pl.DataFrame({"a": [1], "b": [2]}))
            after = list(schema.columns)
            verdict = "accepted"
            try:
                schema.validate(pl.DataFrame({"c": [1]}))
            except Exception as e:  # noqa: BLE001
                verdict = f"{type(e).__name__}: {e}"[:120]
            return after != before or verdict != "accepted", {"schema.columns before": before, "after one validation": after, "a later frame with other columns": verdict}

        return thunk


class PolarsRunSchemaComponentChecks(Contract):
    target = f"{DFP}.run_schema_component_checks"
    raises = (OtherException,)

    def setup(self, I):
        from pandera.api.dataframe.components import ComponentSchema

        outcomes = [("returns", None), ("SchemaError", SchemaError), ("SchemaErrors", SchemaErrors), ("OtherException", OtherException)]

        def model(I, self_obj, check_obj, *args, **kw):
            p = cur()
            n = len(p.ghost.setdefault("component_validate_calls", []))
            p.ghost["component_validate_calls"].append((self_obj, check_obj, args, kw, fld(self_obj, "coerce")))
            k = p.choose([(nm, None) for nm, _ in outcomes], f"component.validate#{n}")
            p.ghost["component_outcome"] = outcomes[k][0]
            if k == 0:
                from contracts.C04_polars_column_validate import PFrame

                return PFrame("LazyFrame", "validated")
            exc = I.make_exc(outcomes[k][1])
            exc.attrs["__from_callback__"] = ("component.validate", n)
            p.ghost["component_exc"] = exc
            raise PyExc(exc)

        I.models[id(PlColumn.validate)] = model
        I.models[id(ComponentSchema.validate)] = model

    def make_args(self):
        from contracts.C04_polars_column_validate import PFrame

        n = core.sym_int("len(schema_components)")
        cur().assume(n >= 0)
        comps = SymSeq("schema_components", n, lambda i: pl_column_ref().fresh(f"schema_components[{getattr(i, 'z', i)}]"))
        return {"self": T.Ref(None).fresh("self"), "check_obj": PFrame("LazyFrame", "subsample"), "schema": T.Ref(None).fresh("schema"),
                "schema_components": comps, "lazy": T.fresh_value(T.Bool, "lazy")}

    def call_target(self, I, fn, a):
        return I.call(fn, [a["self"], a["check_obj"], a["schema"], a["schema_components"], a["lazy"]], {})

    @property
    def loops(self):
        def invariant(I, fr, k, phase):
            p = cur()
            if phase == "assume":
                p.ghost["component_validate_calls"] = []
                p.ghost.pop("component_exc", None)
                p.ghost.pop("component_outcome", None)
                return {}
            if phase == "init":
                return {}
            comp = fr.locals["schema_component"]
            calls = p.ghost["component_validate_calls"]
            out = {"validates_the_component_once": len(calls) == 1 and calls[0][0] is comp}
            if len(calls) == 1:
                _, obj, args, kw, _ = calls[0]
                out["on_the_frame_it_was_given_lazily_as_requested"] = obj is fr.locals["check_obj"] and kw.get("lazy") is fr.locals["lazy"]
            cr = fr.locals["check_results"]
            oc = p.ghost.get("component_outcome")
            added = list(cr.appended) if isinstance(cr, SymSeq) else None
            if oc == "returns":
                out["no_result_invented_for_a_passing_component"] = added == []
                # (as in the pandas twin) a component with drop_invalid_rows returns the filtered frame and reports nothing; its result is discarded here
                out["a_returning_component_has_validated_every_row"] = core.Not(fld(comp, "drop_invalid_rows"))
            elif oc == "SchemaError":
                exc = p.ghost["component_exc"]
                ok = added is not None and len(added) == 1 and isinstance(added[0], Obj) and added[0].cls is CoreCheckResult
                out["one_failed_result_for_the_component_error"] = ok and added[0].attrs["passed"] is False and added[0].attrs["schema_error"] is exc \
                    and added[0].attrs["reason_code"] is SchemaErrorReason.SCHEMA_COMPONENT_CHECK
            elif oc == "SchemaErrors":
                exc = p.ghost["component_exc"]
                ok = added is not None and len(added) == 1 and isinstance(added[0], SeqChunk)
                out["one_failed_result_per_collected_error"] = ok and py_eq(added[0].seq.slen(), fld(exc, "schema_errors").slen())
            return out

        def havoc_results(I, fr, k, old):
            return SymSeq("check_results'", core.sym_int("n_results"), lambda i: SAny(name="res"), pre=False)

        def havoc_passed(I, fr, k, old):
            s = SymSeq("check_passed'", core.sym_int("n_passed"), lambda i: True, pre=False)
            s.uniform = (True,)
            return s

        return {0: LoopSpec(invariant=invariant, havoc={"check_results": havoc_results, "check_passed": havoc_passed})}

    def on_raise(self, exc, old, **a):
        return {"only_a_foreign_exception_of_the_component_escapes": exc is cur().ghost.get("component_exc") and exc.cls is OtherException}

    def concretize(self, rec):
        def thunk():
            """a failed validation must leave the polars schema as it was: same verdicts as a fresh schema afterwards"""
            import copy
            import warnings

            import polars as pl
            import pandera as pa
            import pandera.polars as pp

            warnings.simplefilter("ignore")
            mk = lambda: pp.DataFrameSchema({"a": pp.Column(int, pa.Check.gt(0), coerce=True)})  # noqa: E731
            used = mk()
            try:
                used.validate(pl.DataFrame({"a": [-1]}))
            except (pa.errors.SchemaError, pa.errors.SchemaErrors):
                pass
            obs = {}
            for name, schema in (("schema that saw a failed validation", used), ("fresh schema", mk())):
                try:
                    schema.validate(pl.DataFrame({"a": ["1", "2"]}))
                    obs[name] = "accepts ['1','2'] (coerced)"
                except (pa.errors.SchemaError, pa.errors.SchemaErrors) as e:
                    obs[name] = "rejects ['1','2']: " + str(e)[:60]
            obs["coerce flag of the used schema's column"] = used.columns["a"].coerce
            vals = [obs["schema that saw a failed validation"].split()[0], obs["fresh schema"].split()[0]]
            return vals[0] != vals[1] or used.columns["a"].coerce is not True, obs

        return thunk


_dtype_only_replay = PolarsCollectSchemaComponents.concretize


def _collect_replay(self, rec):
    if "no_columns" in (rec.get("note") or ""):
        return _dtype_only_replay(self, rec)
    return PolarsRunSchemaComponentChecks.concretize(self, rec)


PolarsCollectSchemaComponents.concretize = _collect_replay

CONTRACTS = [PolarsCollectSchemaComponents, PolarsRunSchemaComponentChecks]
