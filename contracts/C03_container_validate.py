"""C03 / C04 / C06 / C02 (pandas container): DataFrameSchemaBackend.validate as a composition of contracts.

Callees are replaced by their interface contracts (modular):
  parser p in (add_missing_columns, strict_filter_columns, set_defaults, coerce_dtype): returns a table derived from its
      argument (the argument itself, possibly written IN PLACE, or a new table), or raises SchemaError / SchemaErrors;
  run_parsers: user parsers - returns a derived table or raises anything;
  run_checks_and_handle_errors: offers errors to the handler (eager: raises the first), returns the handler;
  drop_invalid_rows: requires every collected error to be row-attributable (tabular failure cases with an 'index' column).
Obligations on the real body of validate:
  C03 lineage     the object that is CHECKED and the object that is RETURNED are the result of the whole parser chain, in order
  C04 ownership   with inplace=False no callee that writes in place ever receives the caller's own object; kind preserved
  C06 channel     only TypeError(not a table) / SchemaDefinitionError / SchemaError(eager) / SchemaErrors(lazy) / a user parser's
                  own exception leave the function; the handler's errors are exactly what SchemaErrors carries
  C11 call site   drop_invalid_rows is only reached with row-attributable errors (pre@callsite)
"""
import z3

from pandera.api.base.error_handler import ErrorHandler
from pandera.errors import SchemaDefinitionError, SchemaError, SchemaErrorReason, SchemaErrors
from pyvc import core, types as T
from pyvc.core import And, Iff, Implies, Not, Or, PyExc, SAny, SBool, SNum, cur, ite, py_eq
from pyvc.heap import ListObj, Obj
from pyvc.interp import OtherException
from pyvc.spec import Contract, LoopSpec, resolve_target
from pyvc.theories import pandas_lite as PL
from pyvc.theories.pandas_lite import FrameVal, SeriesVal
from pyvc.values import SymSeq
from contracts.util import fld, fld0

DF = "pandera.backends.pandas.container:DataFrameSchemaBackend"
PARSERS = ["add_missing_columns", "strict_filter_columns", "set_defaults", "coerce_dtype"]
IN_PLACE = {"strict_filter_columns", "set_defaults", "coerce_dtype"}  # S-lib mutator table: these write their argument


def derive(obj, by, in_place):
    """result of a callee: the same object (written in place) or a new table; remembers its lineage"""
    p = cur()
    if in_place:
        obj.mutations.append((by, None))
        p.event("data_write", obj, by)
    k = p.choose([("same_object", None), ("new_object", None)], f"{by} returns")
    if k == 0:
        res = obj
        res.lineage = getattr(obj, "lineage", ()) + (by,)
    else:
        res = obj.derive()
        res.pre = False
        res.lineage = getattr(obj, "lineage", ()) + (by,)
        res.origin = getattr(obj, "origin", obj)
        p.ghost.setdefault("data_objects", []).append(res)
    return res


class _Names:
    """one of the name lists of a ColumnInfo (absent / expanded / ... column names): unknown content; may be empty or not"""

    __pyvc_symbolic__ = True

    def __init__(self, name):
        self.name = name
        self._truth = None

    def pyvc_truth(self):
        if self._truth is None:
            self._truth = core.sym_bool(f"bool({self.name})")
        return self._truth


class ColumnInfoVal:
    """the ColumnInfo computed from ONE table at one moment: its name lists are unknown, but each is one list (asked twice, same answer)"""

    __pyvc_symbolic__ = True

    def __init__(self, name):
        self.name = name
        self.lists = {}

    def pyvc_missing_attr(self, I, attr):
        if attr.startswith("_"):
            raise core.Unsupported(f"ColumnInfo.{attr}")
        if attr not in self.lists:
            self.lists[attr] = _Names(f"{self.name}.{attr}")
        return self.lists[attr]


class ContainerValidate(Contract):
    target = f"{DF}.validate"
    raises = (TypeError, SchemaDefinitionError, SchemaError, SchemaErrors, OtherException)
    split = {"lazy": [True, False], "inplace": [True, False], "drop": [True, False]}
    max_paths = 20000

    def setup(self, I):
        PL.install(I)
        from pandera.backends.pandas.container import DataFrameSchemaBackend as B

        def parser_model(name):
            def m(I, self_obj, check_obj, *args, **kw):
                p = cur()
                p.ghost.setdefault("calls", []).append((name, check_obj))
                p.ghost.setdefault("received_current", []).append(check_obj is p.ghost.get("current", check_obj))
                k = p.choose([("returns", None), ("SchemaError", None), ("SchemaErrors", None)], name)
                if k == 1:
                    e = I.make_exc(SchemaError)
                    p.ghost.setdefault("parser_errors", []).append(e)
                    raise PyExc(e)
                if k == 2:
                    e = I.make_exc(SchemaErrors)
                    p.ghost.setdefault("parser_errors", []).append(e)
                    raise PyExc(e)
                # in-place writers write before they can fail as well; modelled on the returning path only when they return
                r = derive(check_obj, name, name in IN_PLACE)
                p.ghost["current"] = r
                return r

            return m

        for name in PARSERS:
            I.models[id(getattr(B, name))] = parser_model(name)

        def run_parsers(I, self_obj, schema, check_obj):
            p = cur()
            p.ghost.setdefault("calls", []).append(("run_parsers", check_obj))
            p.ghost["run_parsers_got_current"] = check_obj is p.ghost.get("current", check_obj)
            k = p.choose([("returns", None), ("user_parser_raises", None)], "run_parsers")
            if k == 1:
                e = I.make_exc(OtherException)
                e.attrs["__from_callback__"] = ("parser", 0)
                raise PyExc(e)
            r = derive(check_obj, "run_parsers", False)
            p.ghost["current"] = r
            return r

        I.models[id(B.run_parsers)] = run_parsers
        def column_info(I, s, obj, schema):
            # ColumnInfo describes the columns of the table it is computed from AT THAT MOMENT (parsers add / remove columns, some in place)
            p = cur()
            ci = ColumnInfoVal(f"column_info#{len(p.ghost.setdefault('column_infos', []))}")
            p.ghost["column_infos"].append((ci, obj, len(p.ghost.get("calls", []))))
            return ci

        def fresh_info(ci, obj):
            p = cur()
            return any(c is ci and o is obj and n == len(p.ghost.get("calls", [])) for c, o, n in p.ghost.get("column_infos", []))

        def components(I, s, obj, schema, ci):
            cur().check(fresh_info(ci, obj), f"{DF}.validate/pre@collect_schema_components.column_info_describes_the_parsed_table",
                        note="the ColumnInfo was computed before a parser that may add or remove columns")
            return SAny(name="components")

        I.models[id(B.collect_column_info)] = column_info
        I.models[id(B.collect_schema_components)] = components

        def rcahe(I, self_obj, error_handler, schema, check_obj, column_info, sample, components, lazy, head, tail, random_state):
            p = cur()
            p.ghost["checked"] = check_obj
            p.check(fresh_info(column_info, check_obj), f"{DF}.validate/pre@run_checks_and_handle_errors.column_info_describes_the_parsed_table",
                    note="the ColumnInfo was computed before a parser that may add or remove columns")
            p.ghost["check_options"] = (sample, lazy, head, tail, random_state)
            # core checks may offer any number of errors: eager -> the first is raised; SchemaDefinitionError from a check
            k = p.choose([("no_error", None), ("errors", None), ("SchemaDefinitionError", None)], "core_checks")
            if k == 2:
                raise PyExc(I.make_exc(SchemaDefinitionError))
            if k == 1:
                if not I.truth(fld(error_handler, "_lazy")):
                    e = I.make_exc(SchemaError)
                    p.ghost["eager_error"] = e
                    raise PyExc(e)
                for a in ("_schema_errors", "_collected_errors"):
                    lst = fld(error_handler, a)
                    lst.append(SAny(name="core_check_error"))
                p.ghost["core_errors"] = True
            return error_handler

        I.models[id(B.run_checks_and_handle_errors)] = rcahe

        def drop(I, self_obj, check_obj, error_handler):
            p = cur()
            p.ghost["drop_called_with"] = (check_obj, error_handler)
            # precondition of drop_invalid_rows (its own contract, C11): every collected error is row-attributable.
            # The errors offered by the core checks include WRONG_DATATYPE / COLUMN_NOT_IN_DATAFRAME / ... whose failure cases
            # are scalars, so it is provable only when no core check error was collected:
            p.check(not p.ghost.get("core_errors", False) and not p.ghost.get("parser_errors"),
                    f"{DF}.validate/pre@drop_invalid_rows.every_collected_error_is_row_attributable",
                    note="errors collected from core checks / parsers are not known to carry tabular failure cases")
            r = derive(check_obj, "drop_invalid_rows", False)
            p.ghost["dropped"] = r
            return r

        I.models[id(B.drop_invalid_rows)] = drop
        # error handler: record offers (ErrorHandler is under its own contracts in C02)
        from contracts.C05_component_restore import install_handler_recorder

        install_handler_recorder(I)

    def make_args(self):
        from pandera.backends.pandas.container import DataFrameSchemaBackend as B

        k = cur().choose([("DataFrame", None), ("not_a_table", None)], "kind(check_obj)")
        obj = FrameVal.fresh("check_obj") if k == 0 else SAny(name="check_obj")
        schema = T.Ref(None, drop_invalid_rows=T.Const(self.fixed.get("drop", False)), name=T.Opt(T.Label)).fresh("schema")
        cur().ghost["validating_schema"] = schema  # the caller's frame may already carry this very schema in its .pandera accessor
        return {"self": T.Ref(B).fresh("self"), "check_obj": obj,
                "schema": schema,
                "lazy": self.arg("lazy", T.Bool), "inplace": self.arg("inplace", T.Bool),
                "head": T.fresh_value(T.Any, "head"), "tail": T.fresh_value(T.Any, "tail"), "sample": T.fresh_value(T.Any, "sample"),
                "random_state": T.fresh_value(T.Any, "random_state")}

    def call_target(self, I, fn, a):
        return I.call(fn, [a["self"], a["check_obj"], a["schema"]],
                      dict(head=a["head"], tail=a["tail"], sample=a["sample"], random_state=a["random_state"], lazy=a["lazy"], inplace=a["inplace"]))

    def modifies(self, self_, check_obj, schema, lazy, inplace, **kw):
        return [(check_obj, "data")] if inplace else []

    # ---- helpers
    def _chain_ok(self, obj, extra=()):
        """lineage = the parsers that returned, in pipeline order, then run_parsers (+ extra)"""
        calls = [c[0] for c in cur().ghost.get("calls", [])]
        lin = list(getattr(obj, "lineage", ()))
        order = PARSERS + ["run_parsers"] + list(extra)
        # every parser was CALLED exactly once, in order
        called_in_order = calls == [c for c in order if c in calls] and all(calls.count(c) == 1 for c in calls)
        # lineage is a subsequence of the call order (parsers that raised are missing) and contains run_parsers
        pos = [order.index(x) for x in lin if x in order]
        return called_in_order and pos == sorted(pos) and len(set(lin)) == len(lin) and "run_parsers" in lin

    def ensures(self, result, old, self_, check_obj, schema, lazy, inplace, **kw):
        p = cur()
        drop = fld0(schema, "drop_invalid_rows")
        checked = p.ghost.get("checked")
        calls = [c[0] for c in p.ghost.get("calls", [])]
        out = {"is_a_table": isinstance(result, FrameVal), "all_parsers_ran_once_in_order": calls == PARSERS + ["run_parsers"]}
        # each parser received the output of the previous one that returned (or the preprocessed object)
        out["each_parser_gets_the_previous_result"] = all(p.ghost.get("received_current", [])) and p.ghost.get("run_parsers_got_current") is True
        out["checked_object_is_the_chain_result"] = checked is p.ghost.get("current")
        out["checked_object_went_through_the_whole_chain"] = checked is not None and self._chain_ok(checked)
        out["options_forwarded_to_the_checks"] = p.ghost.get("check_options") == (kw["sample"], lazy, kw["head"], kw["tail"], kw["random_state"])
        if "drop_called_with" in p.ghost:
            out["drop_only_when_requested"] = drop is True
            out["dropped_from_the_checked_object"] = p.ghost["drop_called_with"][0] is checked
            out["returns_the_dropped_object"] = result is p.ghost.get("dropped")
        else:
            out["returns_the_checked_object"] = result is checked
            out["returns_only_without_errors"] = not p.ghost.get("core_errors", False) and not p.ghost.get("parser_errors")
        if not inplace:
            out["result_is_not_the_callers_object"] = result is not check_obj
        return out

    def on_raise(self, exc, old, self_, check_obj, schema, lazy, inplace, **kw):
        p = cur()
        out = {}
        drop = fld0(schema, "drop_invalid_rows")
        if exc.cls is TypeError:
            out["type_error_only_for_non_table"] = not isinstance(check_obj, FrameVal)
        elif exc.cls is SchemaDefinitionError:
            out["definition_error_is_documented"] = (drop is True and lazy is False) or p.ghost.get("checked") is not None
        elif exc.cls is SchemaError:
            out["single_error_only_when_eager"] = lazy is False
        elif exc.cls is SchemaErrors:
            out["collected_error_only_when_lazy_and_not_dropping"] = lazy is True and drop is not True
            # the SchemaErrors raised by validate itself carries exactly the handler's errors and the checked object
            if "schema_errors" in exc.attrs:
                h = [o for o in p.objects if o.cls is ErrorHandler]
                out["carries_exactly_the_collected_errors"] = len(h) == 1 and exc.attrs["schema_errors"] is fld(h[0], "_schema_errors")
                out["carries_the_checked_object"] = exc.attrs.get("data") is p.ghost.get("checked")
        elif exc.cls is OtherException:
            out["foreign_exception_only_from_user_parser"] = exc.attrs.get("__from_callback__", (None,))[0] == "parser"
            # C06: whichever user callback fails - a parser function as well - the outcome stays in the documented channel
            # (SchemaError / SchemaErrors): the raw exception of a user parser is not in it
            out["a_raising_user_parser_is_reported_in_the_documented_channel"] = exc.attrs.get("__from_callback__", (None,))[0] != "parser"
        return out


def _container_probe(rec):
    """native replay for a refuted lineage / composition obligation of DataFrameSchemaBackend.validate: a frame that already carries
    the schema in its .pandera accessor (the result of an earlier validate) and was modified since must be validated again in full;
    parsers must all be applied (coerce + default + filter) and the checks must see their result"""

    def thunk():
        import warnings

        import pandas as pd
        import pandera as pa

        warnings.simplefilter("ignore")
        obs, bad = {}, False
        schema = pa.DataFrameSchema({"a": pa.Column(int, pa.Check.gt(0))})
        out = schema.validate(pd.DataFrame({"a": [1, 2]}))
        out.loc[0, "a"] = -5
        for inplace in (False, True):
            try:
                schema.validate(out, inplace=inplace)
                obs[f"re-validation of a tagged frame made invalid (inplace={inplace})"] = "accepted"
                bad = True
            except (pa.errors.SchemaError, pa.errors.SchemaErrors):
                pass
        # C04: a frame that carries this schema in its accessor is still the CALLER's object: inplace=False must not write it
        tagged = schema.validate(pd.DataFrame({"a": [1, 2]}))
        filt = pa.DataFrameSchema({"a": pa.Column(float, coerce=True)}, strict="filter")
        mine = filt.validate(pd.DataFrame({"a": [1, 2], "x": [0, 0]}))
        mine["x"] = [7, 8]
        snapshot = mine.copy()
        filt.validate(mine)
        if list(mine.columns) != list(snapshot.columns) or not mine.equals(snapshot):
            bad = True
            obs["validate(inplace=False) of a frame returned by an earlier validate"] = {"columns before": list(snapshot.columns), "after": list(mine.columns)}
        full = pa.DataFrameSchema({"a": pa.Column(int, pa.Check.gt(0), coerce=True), "b": pa.Column(float, default=1.5, nullable=False)},
                                  strict="filter", add_missing_columns=True)
        res = full.validate(pd.DataFrame({"a": ["1", "2"], "x": [0, 0]}))
        want = {"columns": ["a", "b"], "a": [1, 2], "b": [1.5, 1.5]}
        got = {"columns": list(res.columns), "a": res["a"].tolist() if "a" in res else None, "b": res["b"].tolist() if "b" in res else None}
        if got != want or str(res["a"].dtype) != "int64":
            bad = True
            obs["parser chain (add missing, filter, default, coerce)"] = {"expected": want, "got": got}
        # C04: lazy validation in which add_missing_columns FAILS (its error is only collected): the later parsers must not write
        # the caller's frame
        failing = pa.DataFrameSchema({"a": pa.Column(float, coerce=True, default=0.0), "b": pa.Column(int)}, strict="filter", add_missing_columns=True)
        caller = pd.DataFrame({"a": [1, None], "x": [0, 0]}, index=pd.Index([5, 6]))
        before = (list(caller.columns), caller.dtypes.astype(str).tolist(), caller.isna().sum().tolist())
        try:
            failing.validate(caller, lazy=True)
        except (pa.errors.SchemaError, pa.errors.SchemaErrors):
            pass
        after = (list(caller.columns), caller.dtypes.astype(str).tolist(), caller.isna().sum().tolist())
        if before != after:
            bad = True
            obs["caller's frame across validate(lazy=True) with a required column that add_missing_columns cannot add"] = {"before": before, "after": after}
        return bad, obs or "tagged frames are re-validated in full; the parser chain is applied in order"

    return thunk


ContainerValidate.concretize = lambda self, rec: _container_probe(rec)

CONTRACTS = [ContainerValidate]
