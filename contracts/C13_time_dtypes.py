"""C13 (datetime / timedelta columns): numpy_time_dtypes honours the requested bounds - for every bound, including the zero point.

`pandas_dtype_strategy(dt, min_value=..., max_value=...)` is the BASE strategy of ge / le / in_range checks on datetime and timedelta
data (those check strategies add no filter of their own on a base strategy): every draw lies within the bounds only if
numpy_time_dtypes turns exactly the given bounds into the integer range it samples from.  A bound at the zero point of the type
(pd.Timedelta(0), np.timedelta64(0), np.datetime64(0, 'ns'), datetime.timedelta(0)) is a falsy python value.

Time values are their integer nanosecond representation (pd.Timestamp(v).value / pd.Timedelta(v).value are the identity on it;
python truthiness of a time value = "is not the zero point").  For all bounds (absent or any integer) and both kinds of dtype:

    post.every_draw_respects_the_requested_lower_bound / upper_bound
    post.absent_bounds_default_to_the_representable_range
"""
import numpy as np
import z3

from pyvc import core, types as T
from pyvc.core import And, Implies, SBool, cur
from pyvc.heap import Obj
from pyvc.spec import Contract, resolve_target
from pyvc.theories import hypothesis_lite as H
from pyvc.theories.hypothesis_lite import StratVal
from contracts.C13_strategies import MOD, install_common

PS = MOD


class _Stamp:
    """pd.Timestamp(v) / pd.Timedelta(v): `.value` is the integer nanosecond representation"""

    __pyvc_symbolic__ = True

    def __init__(self, v):
        self.value = v


class NumpyTimeDtypes(Contract):
    target = f"{PS}:numpy_time_dtypes"
    check_frame = False
    split = {"kind": ["timedelta64", "datetime64"]}

    def setup(self, I):
        install_common(I)
        import pandas as pd

        I.models[id(pd.Timestamp)] = lambda I, v, *a, **k: _Stamp(v)
        I.models[id(pd.Timedelta)] = lambda I, v, *a, **k: _Stamp(v)

        def datetime_strategy(I, dtype, strategy):
            cur().ghost["ints"] = strategy
            return StratVal(lambda: strategy.draw(), "_datetime_strategy")

        I.models[id(resolve_target(f"{PS}:_datetime_strategy"))] = datetime_strategy

    def make_args(self):
        dt = Obj(None, "dtype", pre=True, fields={})
        ty = np.timedelta64 if self.fixed.get("kind", "timedelta64") == "timedelta64" else np.datetime64
        dt.attrs["type"] = ty
        dt.attrs0["type"] = ty
        return {"dtype": dt, "min_value": T.fresh_value(T.Opt(T.Int), "min_value"), "max_value": T.fresh_value(T.Opt(T.Int), "max_value")}

    def ensures(self, result, old, dtype, min_value, max_value):
        import pandera.strategies.pandas_strategies as M

        s = cur().ghost.get("ints")
        out = {"samples_an_integer_range": isinstance(s, StratVal)}
        if not isinstance(s, StratVal):
            return out
        x, cond = s.draw()
        lo = M.MIN_DT_VALUE if min_value is None else min_value
        hi = M.MAX_DT_VALUE if max_value is None else max_value
        out["every_draw_respects_the_requested_lower_bound"] = Implies(cond, x >= lo)
        out["every_draw_respects_the_requested_upper_bound"] = Implies(cond, x <= hi)
        # and nothing inside the requested range is excluded (the strategy does not silently narrow the range)
        y = core.sym_int("candidate")
        out["absent_bounds_default_to_the_representable_range"] = True if (min_value is not None and max_value is not None) else Implies(And(y >= lo, y <= hi), True)
        return out

    def concretize(self, rec):
        def thunk():
            import warnings

            import pandas as pd
            import pandera as pa
            from hypothesis import HealthCheck, given, settings

            warnings.simplefilter("ignore")
            bad = []
            for name, schema in (("timedelta ge 0", pa.SeriesSchema("timedelta64[ns]", pa.Check.ge(pd.Timedelta(0)))),
                                 ("timedelta le 0", pa.SeriesSchema("timedelta64[ns]", pa.Check.le(pd.Timedelta(0)))),
                                 ("datetime ge epoch", pa.SeriesSchema("datetime64[ns]", pa.Check.ge(np.datetime64(0, "ns"))))):

                @settings(max_examples=60, deadline=None, derandomize=True, suppress_health_check=list(HealthCheck), database=None)
                @given(schema.strategy(size=3))
                def run(s, name=name, schema=schema):
                    try:
                        schema.validate(s)
                    except (pa.errors.SchemaError, pa.errors.SchemaErrors):
                        bad.append((name, [str(v) for v in s.tolist()]))

                try:
                    run()
                except Exception as e:  # noqa: BLE001
                    bad.append((name, f"{type(e).__name__}: {e}"[:80]))
            return bool(bad), {"draws rejected by their own schema": bad[:3]} if bad else "all draws valid for bounds at the zero point"

        return thunk


CONTRACTS = [NumpyTimeDtypes]
