"""Spec functions (the oracle): the documented meaning of each built-in check on ONE element.

Written from the docstrings of pandera.api.checks.Check.<name> / backends/*/builtin_checks.py.
`x` is a non-null element; null handling is part of the contracts that use these (a null element
never satisfies a comparison; `ignore_na` decides whether it counts).  The same functions are the
oracle for the pandas checks (C01), the polars checks (C08), the strategies (C13) and inference (C14).
"""
from pyvc.core import And, Implies, Not, Or, ite, py_eq


def equal_to(x, value):
    return py_eq(x, value)


def not_equal_to(x, value):
    return Not(py_eq(x, value))


def greater_than(x, min_value):
    return x > min_value


def greater_than_or_equal_to(x, min_value):
    return x >= min_value


def less_than(x, max_value):
    return x < max_value


def less_than_or_equal_to(x, max_value):
    return x <= max_value


def in_range(x, min_value, max_value, include_min=True, include_max=True):
    lo = ite(include_min, min_value <= x, min_value < x)
    hi = ite(include_max, x <= max_value, x < max_value)
    return And(lo, hi)


def isin(x, allowed):
    return allowed.member(x)


def notin(x, forbidden):
    return Not(forbidden.member(x))


def str_length(n, min_value, max_value):
    """n = len(x); at least one bound is given"""
    conj = []
    if min_value is not None:
        conj.append(n >= min_value)
    if max_value is not None:
        conj.append(n <= max_value)
    return And(*conj)
