"""C12 / C05 (io): reading a schema does not write the mapping it is read from.

`io.deserialize_schema(d)` / `from_yaml` hand every `{check arguments..., "options": {...}}` mapping of the serialised form to
_deserialize_check_stats.  The mapping belongs to the caller (a parsed document that may be read again, cached, compared):

    frame.preexisting_objects_unchanged     the mapping still holds its "options" (and everything else) afterwards - reading the
                                            same document twice gives the same schema
    post.options_reach_the_check            the options are applied to the check that is built
"""
from pyvc import core, types as T
from pyvc.core import SAny, cur
from pyvc.heap import DictObj, Obj
from pyvc.spec import Contract
from pyvc.values import SymCallable

IO = "pandera.io.pandas_io"


class DeserializeCheckStatsInput(Contract):
    target = f"{IO}:_deserialize_check_stats"
    check_frame = True
    split = {"shape": ["several_arguments", "single_value", "bare_value"]}

    def setup(self, I):
        from pyvc.theories import pandas_infer as PI
        from contracts.C14_serialisation import install_native_dtype_methods

        PI.install(I)
        install_native_dtype_methods(I)

    def make_args(self):
        shape = self.fixed.get("shape", "several_arguments")
        opts = DictObj({"raise_warning": True, "n_failure_cases": 3, "ignore_na": False})
        opts.pre = True
        opts.name = "stats['options']"
        if shape == "bare_value":
            stats = core.sym_real("value")
        else:
            body = {"min_value": core.sym_real("lo"), "max_value": core.sym_real("hi")} if shape == "several_arguments" else {"value": core.sym_real("value")}
            stats = DictObj(dict(body, options=opts))
            stats.pre = True
            stats.name = "serialized_check_stats"
        made = Obj(None, "check_object", pre=False, fields={})
        check = SymCallable("check", T.Lazy(lambda n: made), raises=False)
        cur().ghost.update(check=check, made=made, opts=opts, shape=shape)
        from pandera.engines import pandas_engine

        return {"check": check, "serialized_check_stats": stats, "dtype": pandas_engine.Engine.dtype("int64")}

    def call_target(self, I, fn, a):
        return I.call(fn, [a["check"], a["serialized_check_stats"], a["dtype"]], {})

    def modifies(self, check, serialized_check_stats, dtype):
        return []

    def ensures(self, result, old, check, serialized_check_stats, dtype):
        g = cur().ghost
        out = {"builds_the_check_once": len(g["check"].calls) == 1}
        if g["shape"] != "bare_value":
            out["options_reach_the_check"] = all(result.attrs.get(k) == v for k, v in dict(g["opts"]).items()) if isinstance(result, Obj) else False
            out["the_mapping_still_holds_its_options"] = dict.get(serialized_check_stats, "options") is g["opts"]
        return out

    def concretize(self, rec):
        def thunk():
            """the same parsed document deserialised twice: two equal schemas, the document unchanged"""
            import copy
            import warnings

            import yaml
            import pandera as pa
            from pandera import io

            warnings.simplefilter("ignore")
            schema = pa.DataFrameSchema({"a": pa.Column(int, pa.Check.gt(0, raise_warning=True, n_failure_cases=2))})
            doc = yaml.safe_load(schema.to_yaml())
            before = copy.deepcopy(doc)
            s1 = io.deserialize_schema(doc)
            s2 = io.deserialize_schema(doc)
            obs = {"document unchanged by reading it": doc == before, "first read == original": s1 == schema, "second read == original": s2 == schema}
            return not all(obs.values()), obs

        return thunk


CONTRACTS = [DeserializeCheckStatsInput]
