"""C19: the check back end's pipeline from Check.__call__ to the CheckResult (own file: C01_check_pipeline.py) - options such as
ignore_na / element_wise / n_failure_cases act only in the step that documents them; dispatch never skips a step."""
from contracts.C01_check_pipeline import CONTRACTS as _PIPELINE

CONTRACTS = list(_PIPELINE)
