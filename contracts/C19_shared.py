"""C19: the check back end's pipeline from Check.__call__ to the CheckResult (own file: C01_check_pipeline.py) - options such as
ignore_na / element_wise / n_failure_cases act only in the step that documents them; dispatch never skips a step."""
from contracts.C01_check_pipeline import CONTRACTS as _PIPELINE

CONTRACTS = list(_PIPELINE)

from contracts.C08_polars_check_pipeline import CONTRACTS as _POLARS_PIPELINE  # noqa: E402  (the polars twin of the pipeline)

CONTRACTS += list(_POLARS_PIPELINE)

from contracts.C01_table_output import CONTRACTS as _TABLE_OUTPUT  # noqa: E402  (ignore_na / n_failure_cases on a table-shaped check output)

CONTRACTS += list(_TABLE_OUTPUT)
