"""C02: contracts shared with other properties (collection loops, the component loop, the validate tails)."""
from contracts.C03_container_validate import ContainerValidate
from contracts.C04_field_validate import ArrayValidate
from contracts.C05_component_restore import RunSchemaComponentChecks
from contracts.C06_run_checks import (ArrayCollect, ArrayCollectPrefix, ArrayRunChecks, ColumnRunChecks, ContainerRunChecks, PolarsColumnRunChecks,
                                      PolarsContainerRunChecks)  # one result per declared check: nothing a later check reports is lost
from contracts.C19_check_options import PostprocessField, RunCheck  # which cells a failing check reports
from contracts.C03_polars_container_validate import PolarsContainerValidate

CONTRACTS = [ArrayCollect, ArrayCollectPrefix, RunSchemaComponentChecks, ContainerValidate, ArrayValidate, PolarsContainerValidate, PostprocessField, RunCheck, ArrayRunChecks, ColumnRunChecks, ContainerRunChecks, PolarsColumnRunChecks, PolarsContainerRunChecks]

# the polars report pairs the i-th failure case with the i-th false entry of the row mask: its producers hand over failure cases in
# row order, one per masked-out row (their own contracts)
from contracts.C08_polars_column_checks import PolarsCheckNullable, PolarsCheckUnique
from contracts.C01_joint_uniqueness import PolarsJointUniqueness

CONTRACTS = list(CONTRACTS) + [PolarsCheckNullable, PolarsCheckUnique, PolarsJointUniqueness]
