"""C10 / C06 / C11 (polars engine): polars_coerce_failure_cases - the mask and the failure cases of a failed coercion line up with the data.

`DataType.try_coerce` hands the two results to ParserError(parser_output=mask, failure_cases=...); the polars back ends turn that
into SchemaError(check_output=mask, failure_cases=...).  Everything that reads the error assumes the mask has ONE boolean per row of
the validated frame: `failure_cases_metadata` numbers the failure cases by the false positions of the mask (a shorter mask makes
polars raise while the SchemaErrors report is being built - an internal exception instead of the report, C06), `drop_invalid_rows`
filters the frame with it (C11).

polars_coerce_failure_cases(data_container, type_), for all frames, all values (null / convertible / not convertible - an
uninterpreted predicate per cast), every way polars can fail (no cast kernel: TypeError / InvalidOperationError when the query is
built or ComputeError / InvalidOperationError when it is collected), key given:
    post.mask_has_one_row_per_data_row            the mask is over the rows of data_container.lazyframe (same height, same order)
    post.mask_is_a_single_boolean_column          named CHECK_OUTPUT_KEY, no nulls
    post.mask_is_false_only_on_unconvertible_values   per row: mask[i] == (value is null or convertible) - or false on EVERY row when the
                                                  cast itself is impossible
    post.failure_cases_are_the_masked_out_rows    failure_cases.row(i) selected  <=>  data row i selected and not mask[i]
    post.both_results_are_collected_frames
polars_object_coercible / polars_failure_cases_from_coercible have their own contracts (C10_coercion: PolarsCoercible, PolarsFailureCases).
Bounded stand-in (the "*" selector of a whole-frame coercion leaves the theory): the same contract at run time on the real
function: frames of 0-3 rows over {convertible, unconvertible, null} text / binary / int values x target types Int64, Float64, Date,
Object x key in {None, 'a'}.
"""
import z3

from pandera.api.polars.types import PolarsData
from pyvc import core, types as T
from pyvc.core import SBool, cur
from pyvc.heap import Obj
from pyvc.spec import Contract
from pyvc.theories import pandas_lite as PL
from pyvc.theories import polars_lite as PP
from contracts.util import fld, fld0

MOD = "pandera.engines.polars_engine"
KEY = PP.CHECK_OUTPUT_KEY


def _container(key="a"):
    lf = PP.FrameP.fresh("lf", columns=("a", "b"), kinds={"a": "real", "b": "real"})
    data = Obj(PolarsData, "data_container", pre=True)
    data.attrs.update(lazyframe=lf, key=key)
    data.attrs0.update(data.attrs)
    data.attrs["__fields__order"] = ("lazyframe", "key")
    return lf, data


def _mask_posts(out, mask, lf, collected=None):
    ok = isinstance(mask, PP.FrameP)
    out["mask_is_a_frame"] = ok
    if not ok:
        return None
    out["mask_has_one_row_per_data_row"] = mask.space is lf.space
    out["mask_is_a_single_boolean_column"] = list(mask.cols) == [KEY]
    if collected is not None:
        out["mask_is_collected" if collected else "mask_is_lazy"] = (mask.kind == "DataFrame") == collected
    if mask.space is not lf.space or list(mask.cols) != [KEY]:
        return None
    i = z3.Int(cur().fresh_name("row"))
    core.register_model_var("row", i)
    out["mask_covers_exactly_the_data_rows"] = SBool(mask.sel(i) == lf.sel(i))
    out["mask_has_no_nulls"] = SBool(z3.Implies(lf.sel(i), z3.Not(mask.cols[KEY].null(i))))
    return i


class PolarsCoerceFailureCases(Contract):
    target = f"{MOD}:polars_coerce_failure_cases"
    check_frame = False
    split = {"build": ["query_builds", "TypeError", "InvalidOperationError"], "key": ["a", None]}

    def setup(self, I):
        PL.install(I)
        PP.install(I)
        import polars as pl
        from pandera.engines import polars_engine as PE

        how = self.fixed.get("build", "query_builds")
        if how != "query_builds":
            # polars refuses the cast when the expression / query is built
            cls = TypeError if how == "TypeError" else pl.exceptions.InvalidOperationError

            def refuses(I_, data_container, type_):
                raise core.PyExc(I_.make_exc(cls, "no cast"))

            I.models[id(PE.polars_object_coercible)] = refuses

    def make_args(self):
        lf, data = _container(self.fixed.get("key", "a"))
        cur().ghost["lf"] = lf
        return {"data_container": data, "type_": core.SAny(name="type_")}

    def call_target(self, I, fn, a):
        return I.call(fn, [a["data_container"], a["type_"]], {})

    def ensures(self, result, old, data_container, type_):
        lf = cur().ghost["lf"]
        out = {"returns_mask_and_failure_cases": isinstance(result, tuple) and len(result) == 2}
        if not out["returns_mask_and_failure_cases"]:
            return out
        mask, fc = result
        i = _mask_posts(out, mask, lf, collected=True)
        out["failure_cases_are_a_collected_frame_over_the_data_rows"] = isinstance(fc, PP.FrameP) and fc.kind == "DataFrame" and fc.space is lf.space
        if i is None or not out["failure_cases_are_a_collected_frame_over_the_data_rows"]:
            return out
        m = core.as_z3_bool(mask.cols[KEY].at(i))
        out["failure_cases_are_the_masked_out_rows"] = SBool(fc.sel(i) == z3.And(lf.sel(i), z3.Not(m)))
        casts = cur().ghost.get("polars_casts", [])
        castable = cur().ghost.get("castable")
        names = ["a"] if self.fixed.get("key", "a") == "a" else list(lf.cols)  # no key: a row is coercible iff every column's value is
        per_value = z3.And(*[z3.Or(lf.cols[n].null(i), castable(PL._term(lf.cols[n].at(i)))) for n in names]) if castable is not None else z3.BoolVal(False)
        # either the per-value verdict, or - when polars could not evaluate the cast at all - false on every row
        j = z3.Int(cur().fresh_name("j"))
        all_false = z3.ForAll([j], z3.Implies(lf.sel(j), z3.Not(core.as_z3_bool(mask.cols[KEY].at(j)))))
        out["mask_is_false_only_on_unconvertible_values_or_everywhere"] = SBool(z3.Or(z3.Implies(lf.sel(i), m == per_value), all_false))
        return out

    def concretize(self, rec):
        def thunk():
            """a frame whose column has NO cast to the schema dtype (the whole-column fallback), at least 2 rows: the report must be a
            SchemaError / SchemaErrors, not an internal polars exception"""
            import warnings

            import polars as pl
            import pandera as pa
            import pandera.polars as pp
            from pandera.api.polars.types import PolarsData
            from pandera.engines import polars_engine as PE

            warnings.simplefilter("ignore")
            obs, bad = {}, False
            lf = pl.LazyFrame({"a": [b"x", b"y", b"z"]})
            mask, fc = PE.polars_coerce_failure_cases(PolarsData(lf, "a"), pl.Int64)
            obs["mask height / data height / failure cases height (Binary -> Int64, 3 rows)"] = [mask.height, 3, fc.height]
            bad = bad or mask.height != 3 or fc.height != 3
            for lazy in (True, False):
                try:
                    pp.DataFrameSchema({"a": pp.Column(int, coerce=True)}).validate(pl.DataFrame({"a": [b"x", b"y"]}), lazy=lazy)
                    obs[f"validate(lazy={lazy})"] = "accepted"
                except (pa.errors.SchemaError, pa.errors.SchemaErrors) as e:
                    obs[f"validate(lazy={lazy})"] = type(e).__name__
                except Exception as e:  # noqa: BLE001
                    bad = True
                    obs[f"validate(lazy={lazy})"] = f"leaked {type(e).__name__}: {e}"[:160]
            # the row mask itself (-> SchemaError.check_output, AND-folded by drop_invalid_rows): True / False on every row, never null
            mask, fc = PE.polars_coerce_failure_cases(PolarsData(pl.LazyFrame({"a": ["1", None, "x"]}), "a"), pl.Int64)
            got = mask[mask.columns[0]].to_list()
            if got != [True, True, False]:
                bad = True
                obs["row mask of ['1', None, 'x'] -> Int64"] = f"{got}, expected [True, True, False]"
            try:
                out = pp.DataFrameSchema({"a": pp.Column(int, nullable=True, coerce=True)}, drop_invalid_rows=True).validate(pl.DataFrame({"a": ["1", None, "x"]}), lazy=True)
                rows = out["a"].to_list()
            except Exception as e:  # noqa: BLE001
                rows = f"raised {type(e).__name__}"
            if rows != [1, None]:
                bad = True
                obs["drop_invalid_rows, nullable int column coerced from ['1', None, 'x']"] = f"{rows}, expected [1, None]"
            return bad, obs

        return thunk


def _standin(seed=0, tier="quick"):
    import datetime
    import itertools
    import warnings

    import polars as pl
    from pandera.api.polars.types import PolarsData
    from pandera.engines import polars_engine as PE

    warnings.simplefilter("ignore")
    sources = {"text": (["1", "x", None], pl.String), "binary": ([b"1", b"x", None], pl.Binary), "int": ([1, 2, None], pl.Int64)}
    targets = [pl.Int64, pl.Float64, pl.Date, pl.Object, pl.String]
    n = 0
    bound = "frames of 0-3 rows over {convertible, unconvertible, null} text / binary / int values x targets Int64, Float64, Date, Object, String x key in {None,'a'}"
    for (sname, (vals, sdt)), tgt in itertools.product(sources.items(), targets):
        for h in range(0, 4):
            for rows in itertools.product(vals, repeat=h):
                for key in (None, "a"):
                    n += 1
                    lf = pl.LazyFrame({"a": list(rows)}, schema={"a": sdt})
                    try:
                        mask, fc = PE.polars_coerce_failure_cases(PolarsData(lf, key), tgt)
                    except Exception as e:  # noqa: BLE001
                        return {"examples": n, "bound": bound, "failing_input": {"a": [repr(r) for r in rows], "source": sname, "target": str(tgt), "key": key},
                                "observed": f"raised {type(e).__name__}: {e}"[:200]}
                    m = mask.get_column(KEY).to_list() if KEY in mask.columns else None
                    if m is None or len(m) != h or any(v is None for v in m) or fc.height != sum(1 for v in m if not v):
                        return {"examples": n, "bound": bound, "failing_input": {"a": [repr(r) for r in rows], "source": sname, "target": str(tgt), "key": key},
                                "observed": {"mask": m, "data height": h, "failure cases height": fc.height}}
    return {"examples": n, "bound": bound, "failing_input": None}


PolarsCoerceFailureCases.bounded_standin = staticmethod(_standin)

CONTRACTS = [PolarsCoerceFailureCases]
