"""C06 structural obligations (finite, exhaustive, decided over the live source).

reason_codes_at_construction_sites_are_mapped:
    every `SchemaError(...)` constructed in pandera/backends/{pandas,polars} and pandera/api passes a `reason_code` that is a
    member of SchemaErrorReason known to VALIDATION_DEPTH_ERROR_CODE_MAP (or forwards another error's code).  This is the
    call-site precondition of `validation_type(err.reason_code)` in every collection site: without it a collected error makes
    validate leak KeyError instead of reporting.
"""
import ast
import glob
import os


def reason_codes_at_construction_sites_are_mapped():
    import pandera
    from pandera.errors import SchemaErrorReason
    from pandera.validation_depth import VALIDATION_DEPTH_ERROR_CODE_MAP

    root = os.path.dirname(pandera.__file__)
    files = sorted(glob.glob(os.path.join(root, "backends", "pandas", "*.py")) + glob.glob(os.path.join(root, "backends", "polars", "*.py"))
                   + glob.glob(os.path.join(root, "api", "**", "*.py"), recursive=True))
    out = []
    mapped = {m.name for m in VALIDATION_DEPTH_ERROR_CODE_MAP}
    for f in files:
        tree = ast.parse(open(f).read())
        rel = os.path.relpath(f, root)
        # enclosing function names for stable ids
        parents = {}
        for node in ast.walk(tree):
            for ch in ast.iter_child_nodes(node):
                parents[ch] = node
        ordinal = {}
        for node in ast.walk(tree):
            if not (isinstance(node, ast.Call) and isinstance(node.func, ast.Name) and node.func.id == "SchemaError"):
                continue
            fn = node
            while fn in parents and not isinstance(fn, (ast.FunctionDef, ast.AsyncFunctionDef)):
                fn = parents[fn]
            fname = fn.name if isinstance(fn, (ast.FunctionDef, ast.AsyncFunctionDef)) else "<module>"
            k = ordinal[(rel, fname)] = ordinal.get((rel, fname), 0) + 1
            rc = None
            for kw in node.keywords:
                if kw.arg == "reason_code":
                    rc = kw.value
            if rc is None and len(node.args) > 10:
                rc = node.args[10]
            oid = f"structural.reason_code_mapped/{rel}:{fname}#SchemaError{k}"
            if rc is None:
                out.append({"oid": oid, "ok": False, "note": "SchemaError constructed without a reason_code (None is not in the scope map)"})
            elif isinstance(rc, ast.Attribute) and isinstance(rc.value, ast.Name) and rc.value.id == "SchemaErrorReason":
                out.append({"oid": oid, "ok": rc.attr in mapped, "note": f"reason_code=SchemaErrorReason.{rc.attr}"})
            else:
                # forwards the code of another error / result (which satisfies the invariant inductively)
                out.append({"oid": oid, "ok": True, "note": "reason_code forwarded: " + ast.unparse(rc)})
    return out


STRUCTURAL = [reason_codes_at_construction_sites_are_mapped]
