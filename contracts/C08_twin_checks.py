"""C08 - one schema definition means the same on pandas and on polars (built-in checks + null handling).

(1) every polars built-in check against the SAME spec function as its pandas twin (contracts/specs.py):
      for every row i:  output[i] is null <=> input[i] is null, and otherwise output[i] == spec(input[i], args)
(2) relational obligation on the REAL check back ends: for the same column (same values, same nulls) and the same
    `ignore_na`, PandasCheckBackend.__call__ (dropna -> check -> all) and PolarsCheckBackend.__call__
    (check -> null-or -> all) reach the same verdict.  Both real call chains are executed symbolically side by side.
"""
import z3

from contracts import specs
from contracts.util import fld, fld0
from pyvc import core, types as T
from pyvc.core import And, Iff, Implies, Not, Or, SBool, cur, ite, py_eq
from pyvc.heap import Obj
from pyvc.interp import PartialVal
from pyvc.spec import Contract, resolve_target
from pyvc.theories import pandas_lite as PL
from pyvc.theories import polars_lite as PP
from pyvc.theories.pandas_lite import SeriesVal, SymSet

PMOD = "pandera.backends.polars.builtin_checks"
DMOD = "pandera.backends.pandas.builtin_checks"


def polars_data(kind="real"):
    from pandera.api.polars.types import PolarsData

    lf = PP.FrameP.fresh("lf", columns=("a",), kinds={"a": kind})
    o = Obj(PolarsData, "data", pre=True)
    o.attrs.update(lazyframe=lf, key="a")
    o.attrs0.update(o.attrs)
    o.attrs["__fields__order"] = ("lazyframe", "key")
    return o, lf


def out_col(result):
    if not isinstance(result, PP.FrameP) or len(result.cols) != 1:
        return None
    return next(iter(result.cols.values()))


def kleene_pointwise(result, lf, spec_at, on_null_is_null=True):
    c = out_col(result)
    if c is None:
        return {"one_output_column": False}
    src = lf.cols["a"]
    i = z3.Int(cur().fresh_name("row"))
    core.register_model_var("row", i)
    return {
        "one_output_column": True,
        "null_in_null_out": SBool(z3.Implies(lf.sel(i), c.null(i) == src.null(i))),
        "value_is_spec": SBool(z3.Implies(z3.And(lf.sel(i), z3.Not(src.null(i))), core.as_z3_bool(c.at(i)) == core.as_z3_bool(spec_at(src.at(i))))),
        "same_rows": result.space is lf.space and result._sel is lf._sel,
    }


class _PLeaf(Contract):
    check_frame = False
    kind = "real"
    argtypes = {}
    raises = ()

    def setup(self, I):
        PL.install(I)
        PP.install(I)

    def make_args(self):
        data, lf = polars_data(self.kind)
        cur().ghost["lf"] = lf
        a = {"data": data}
        for k, t in self.argtypes.items():
            a[k] = T.fresh_value(t, k)
        return a


def _mk(name, spec, argtypes, kind="real", raises=(), pre=None):
    class C(_PLeaf):
        target = f"{PMOD}:{name}"

        def ensures(self, result, old, data, **kw):
            return kleene_pointwise(result, cur().ghost["lf"], lambda x: spec(x, **kw))

    C.argtypes = argtypes
    C.kind = kind
    C.raises = raises
    C.__name__ = "PL_" + name
    return C


def SetOf(kind="real"):
    return T.Lazy(lambda n: SymSet.fresh(n, kind))


PEq = _mk("equal_to", lambda x, value: specs.equal_to(x, value), {"value": T.Ord})
PNe = _mk("not_equal_to", lambda x, value: specs.not_equal_to(x, value), {"value": T.Ord})
PGt = _mk("greater_than", lambda x, min_value: specs.greater_than(x, min_value), {"min_value": T.Ord})
PGe = _mk("greater_than_or_equal_to", lambda x, min_value: specs.greater_than_or_equal_to(x, min_value), {"min_value": T.Ord})
PLt = _mk("less_than", lambda x, max_value: specs.less_than(x, max_value), {"max_value": T.Ord})
PLe = _mk("less_than_or_equal_to", lambda x, max_value: specs.less_than_or_equal_to(x, max_value), {"max_value": T.Ord})
PInRange = _mk("in_range", lambda x, min_value, max_value, include_min, include_max: specs.in_range(x, min_value, max_value, include_min, include_max),
               {"min_value": T.Ord, "max_value": T.Ord, "include_min": T.Bool, "include_max": T.Bool})
PIsIn = _mk("isin", lambda x, allowed_values: specs.isin(x, allowed_values), {"allowed_values": SetOf()})
PNotIn = _mk("notin", lambda x, forbidden_values: specs.notin(x, forbidden_values), {"forbidden_values": SetOf()})
PStartsWith = _mk("str_startswith", lambda x, string: x.startswith(string), {"string": T.Str}, kind="str")
PEndsWith = _mk("str_endswith", lambda x, string: x.endswith(string), {"string": T.Str}, kind="str")
PContains = _mk("str_contains", lambda x, pattern: PL.rx("search", pattern, x), {"pattern": T.Str}, kind="str")
# str_matches: the documented meaning is a match anchored at the START of the string (pandas: Series.str.match)
PMatches = _mk("str_matches", lambda x, pattern: PL.rx("match", pattern, x), {"pattern": T.Str}, kind="str")


def _mk_compiled(name, mode):
    """the same check given a COMPILED pattern (re.compile(text, flags)), which both back ends accept: the pandas twin hands the
    compiled object to Series.str.match / contains, so its flags count; the polars twin must mean the same"""
    import re

    FLAGS = {"none": 0, "ignorecase": re.I, "multiline_dotall": re.M | re.S, "ignorecase_verbose": re.I | re.X}

    class C(_PLeaf):
        target = f"{PMOD}:{name}"
        kind = "str"
        split = {"flags": list(FLAGS)}

        def make_args(self):
            a = super().make_args()
            a["pattern"] = PL.RxPattern(T.fresh_value(T.Str, "pattern_text"), FLAGS[self.fixed.get("flags", "none")] | re.UNICODE)
            return a

        def ensures(self, result, old, data, pattern):
            return kleene_pointwise(result, cur().ghost["lf"], lambda x: PL.rx(mode, pattern, x))

        def concretize(self, rec):
            def thunk():
                import warnings

                import pandas as pd
                import polars as pl
                import pandera as pa
                import pandera.polars as pp

                warnings.simplefilter("ignore")
                obs, bad = {}, False
                chk = getattr(pa.Check, name)
                for label, pat, vals in (("IGNORECASE", re.compile("abc", re.I), ["ABC", "xabc", "abd"]), ("DOTALL", re.compile("a.c", re.S), ["a\nc", "abc", "ac"]),
                                         ("no flags", re.compile("a|b"), ["ab", "cb", "c"])):
                    got = []
                    for m, fr in ((pa, pd.DataFrame({"a": vals})), (pp, pl.DataFrame({"a": vals}))):
                        try:
                            m.DataFrameSchema({"a": m.Column(str, chk(pat))}).validate(fr, lazy=True)
                            got.append([])
                        except pa.errors.SchemaErrors as e:
                            fc = e.failure_cases["failure_case"]
                            got.append(sorted(fc.to_list() if m is pp else fc.tolist()))
                    obs[label] = {"pandas rejects": got[0], "polars rejects": got[1]}
                    bad = bad or got[0] != got[1]
                return bad, obs

            return thunk

    C.__name__ = "PL_" + name + "_compiled"
    return C


PMatchesCompiled = _mk_compiled("str_matches", "match")
PContainsCompiled = _mk_compiled("str_contains", "search")


class PUniqueValuesEq(_PLeaf):
    """polars unique_values_eq against the spec of its pandas twin: true iff the set of values of the column - the missing value
    counted as an element when a cell is missing - equals `values` (which holds no missing value)"""

    target = f"{PMOD}:unique_values_eq"
    argtypes = {"values": SetOf()}

    def setup(self, I):
        super().setup(I)
        from contracts.C01_builtin_checks import install_set_model

        install_set_model(I)

    def ensures(self, result, old, data, values):
        lf = cur().ghost["lf"]
        col = lf.cols["a"]
        xb = z3.Real(cur().fresh_name("xq"))
        i = z3.Int(cur().fresh_name("i"))
        occurs = z3.Exists([i], z3.And(lf.sel(i), z3.Not(col.null(i)), col.at(i).z == xb))
        same = z3.ForAll([xb], occurs == core.as_z3_bool(values.member(core.SNum(xb))))
        j = z3.Int(cur().fresh_name("j"))
        some_null = z3.Exists([j], z3.And(lf.sel(j), col.null(j)))
        return {"returns_a_bool": isinstance(result, (bool, SBool)), "set_equality": Iff(result, SBool(z3.And(same, z3.Not(some_null))))}


class PStrLength(_PLeaf):
    target = f"{PMOD}:str_length"
    kind = "str"
    argtypes = {"min_value": T.Opt(T.Int), "max_value": T.Opt(T.Int)}
    raises = (ValueError,)

    def ensures(self, result, old, data, min_value, max_value):
        if min_value is None and max_value is None:
            return {"needs_a_bound": False}
        return kleene_pointwise(result, cur().ghost["lf"], lambda x: specs.str_length(x.slen(), min_value, max_value))

    def on_raise(self, exc, old, data, min_value, max_value):
        return {"raises_only_without_bounds": min_value is None and max_value is None}


# ---------------------------------------------------------------------------------------
# relational: verdict equality across the two real check back ends
# ---------------------------------------------------------------------------------------

TWINS = {
    "equal_to": {"value": T.Ord}, "not_equal_to": {"value": T.Ord}, "greater_than": {"min_value": T.Ord},
    "greater_than_or_equal_to": {"min_value": T.Ord}, "less_than": {"max_value": T.Ord}, "less_than_or_equal_to": {"max_value": T.Ord},
    "in_range": {"min_value": T.Ord, "max_value": T.Ord, "include_min": T.Bool, "include_max": T.Bool},
    "isin": {"allowed_values": SetOf()}, "notin": {"forbidden_values": SetOf()},
    "unique_values_eq": {"values": SetOf()},
}


def _twin(name, argtypes):
    class Twin(Contract):
        """verdict(pandas) == verdict(polars) for built-in check `name` on the same column"""

        target = f"{PMOD}:{name}"  # (hash anchor; both real call chains are executed in call_target)
        check_frame = False
        # missing: how the missing cells of the pandas column (NaN there) arrive in the polars frame - as nulls (pl.from_pandas, the
        # default of every reader) or, in a float column, as the float value NaN (pl.DataFrame(dict_of_lists))
        split = {"ignore_na": [True, False], "missing": ["null", "nan"]}

        def setup(self, I):
            PL.install(I)
            PP.install(I)
            from contracts.C19_check_options import install_groupby_head
            from contracts.C01_builtin_checks import install_set_model

            install_groupby_head(I)
            install_set_model(I)

        def make_args(self):
            a = {k: T.fresh_value(t, k) for k, t in argtypes.items()}
            a["ignore_na"] = self.arg("ignore_na", T.Bool)
            return a

        def call_target(self, I, fn, a):
            import pandera.backends.pandas.checks as PC
            import pandera.backends.polars.checks as LC
            from pandera.api.polars.types import PolarsData

            ign = a["ignore_na"]
            kwargs = {k: v for k, v in a.items() if k != "ignore_na"}
            s = SeriesVal.fresh("column", "real")
            # the same column as a polars frame: same row space, same values, same nulls
            if self.fixed.get("missing", "null") == "nan":
                lf = PP.FrameP(s.space, {"a": PP.Col(s._at, lambda i: z3.BoolVal(False), "real", nan=s._null)}, kind="LazyFrame", name="lf")
            else:
                lf = PP.FrameP(s.space, {"a": PP.Col(s._at, s._null, "real")}, kind="LazyFrame", name="lf")

            def chk():
                return T.Ref(None, strict=True, groupby=T.Const(None), groups=T.Const(None), ignore_na=T.Const(ign), element_wise=T.Const(False),
                             n_failure_cases=T.Const(None), raise_warning=T.Const(False)).fresh("check")

            pd_fn = resolve_target(f"{DMOD}:{name}")
            pl_fn = resolve_target(f"{PMOD}:{name}")
            bpd = Obj(PC.PandasCheckBackend, "pandas_backend", pre=False)
            bpd.attrs.update(check=chk(), check_fn=PartialVal(pd_fn, (), kwargs))
            bpl = Obj(LC.PolarsCheckBackend, "polars_backend", pre=False)
            bpl.attrs.update(check=chk(), check_fn=PartialVal(pl_fn, (), kwargs))
            r_pd = I.call(PC.PandasCheckBackend.__call__, [bpd, s, None], {})
            r_pl = I.call(LC.PolarsCheckBackend.__call__, [bpl, lf, "a"], {})
            return (r_pd, r_pl)

        def ensures(self, result, old, **a):
            r_pd, r_pl = result
            v_pd = r_pd.attrs["check_passed"]
            passed_frame = r_pl.attrs["check_passed"]
            v_pl = passed_frame.item() if isinstance(passed_frame, PP.FrameP) else passed_frame
            return {"verdict_pandas_equals_verdict_polars": Iff(v_pd, v_pl)}

    Twin.__name__ = "Twin_" + name
    return Twin


TWIN_CONTRACTS = [_twin(n, t) for n, t in TWINS.items()]

CONTRACTS = [PEq, PNe, PGt, PGe, PLt, PLe, PInRange, PIsIn, PNotIn, PStartsWith, PEndsWith, PContains, PMatches, PMatchesCompiled, PContainsCompiled, PStrLength, PUniqueValuesEq] + TWIN_CONTRACTS
