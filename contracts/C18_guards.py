"""C18 (kill switch) / C17 (options reach the back end): the public `validate` entry points of the pandas API.

Oracle: docs/source/configuration.md, "Enabling/disabling validation": *when validation is disabled, any `validate` call
[does] not actually run any validation checks*; property statement: *with validation disabled validate returns its argument
untouched*.

  * validation disabled (context configuration)  -> the argument itself is returned, no back end is looked up or called
  * validation enabled                           -> the back end registered for the argument is called exactly once with the
                                                    schema and the caller's six options, and its result is returned

Targets: pandas DataFrameSchema.validate (+ _validate, inlined), ComponentSchema.validate (inherited by pandas Column and Index);
SeriesSchema.validate is contracts/C03_series_validate.py, the polars API is contracts/C04_polars_api.py (both re-used by C18,
see C18_shared.py).
"""
from pandera.errors import SchemaDefinitionError, SchemaError, SchemaErrors
from pyvc import core, types as T
from pyvc.core import And, Iff, Implies, Not, Or, PyExc, SAny, SBool, cur, py_eq
from pyvc.heap import Obj
from pyvc.interp import OtherException
from pyvc.spec import Contract
from pyvc.theories import pandas_lite as PL
from pyvc.theories.pandas_lite import FrameVal, SeriesVal
from contracts.util import fld, fld0

OPTS = ("head", "tail", "sample", "random_state", "lazy", "inplace")


def _mk(target, receiver_classes, data):
    class V(Contract):
        # C06: "... or a documented usage error (SchemaDefinitionError, SchemaInitError, TypeError for a non-dataframe argument)"
        raises = (SchemaError, SchemaErrors, SchemaDefinitionError, OtherException, TypeError)
        split = {"receiver": [c.__name__ for c in receiver_classes]}

        def setup(self, I):
            PL.install(I)
            from pandera.api.base.schema import BaseSchema

            class Backend:
                __pyvc_symbolic__ = True

                def validate(bself, check_obj, *args, **kw):
                    p = cur()
                    p.ghost.setdefault("backend_calls", []).append((check_obj, args, kw))
                    k = p.choose([("returns", None), ("SchemaError", None), ("SchemaErrors", None), ("foreign", None)], "backend.validate")
                    if k > 0:
                        raise PyExc(I.make_exc([None, SchemaError, SchemaErrors, OtherException][k]))
                    out = SAny(name="backend_result")
                    p.ghost["backend_result"] = out
                    return out

            def get_backend(I, cls_or_self, *a, **k):
                cur().ghost.setdefault("lookups", []).append(a)
                # (C07 GetBackend: the back end registered for the type of the argument, else BackendNotFoundError)
                if cur().choose([("registered", None), ("no_backend_for_this_type_of_argument", None)], "get_backend") == 1:
                    from pandera.errors import BackendNotFoundError

                    raise PyExc(I.make_exc(BackendNotFoundError, "Backend not found for backend, class: ..."))
                return Backend()

            I.models[id(BaseSchema.get_backend.__func__)] = get_backend

        def make_args(self):
            cls = next(c for c in receiver_classes if c.__name__ == self.fixed.get("receiver", receiver_classes[0].__name__))
            obj = FrameVal.fresh("check_obj") if data == "frame" else SeriesVal.fresh("check_obj", "real")
            a = {"self": T.Ref(cls).fresh("self"), "check_obj": obj}
            for o in OPTS:
                a[o] = T.fresh_value(T.Any, o)
            return a

        def call_target(self, I, fn, a):
            return I.call(fn, [a["self"], a["check_obj"]], {o: a[o] for o in OPTS})

        def ensures(self, result, old, self_, check_obj, **kw):
            p = cur()
            calls = p.ghost.get("backend_calls", [])
            ctx0 = p.ghost.get("globals0", {}).get(("pandera.config", "_CONTEXT_CONFIG"))
            if ctx0 is None:
                return {"configuration_consulted": False}
            enabled = fld0(ctx0, "validation_enabled")
            if enabled is not True and not cur().decide(enabled, "validation_enabled"):
                return {"disabled_returns_argument_untouched": result is check_obj, "disabled_calls_no_back_end": calls == [] and not p.ghost.get("lookups")}
            out = {"backend_called_once": len(calls) == 1}
            if len(calls) == 1:
                obj, args, ckw = calls[0]
                out["backend_validates_the_argument"] = obj is check_obj and args == ()
                out["backend_gets_this_schema"] = ckw.get("schema") is self_
                out["options_forwarded"] = all(ckw.get(o) is kw[o] for o in OPTS)
                out["result_is_the_backend_result"] = result is p.ghost.get("backend_result")
                lk = p.ghost.get("lookups", [])
                out["backend_looked_up_for_the_argument"] = len(lk) == 1 and len(lk[0]) == 1 and lk[0][0] is check_obj
            return out

        def on_raise(self, exc, old, self_, check_obj, **kw):
            calls = cur().ghost.get("backend_calls", [])
            from pandera.errors import BackendNotFoundError

            if exc.cls is BackendNotFoundError:
                return {"a_failed_lookup_calls_no_back_end": calls == []}
            return {"raises_only_what_the_backend_raised": len(calls) == 1}

        def concretize(self, rec):
            recv = (rec.get("note") or "")

            def thunk():
                import pandas as pd
                import pandera as pa
                from pandera.config import config_context

                df = pd.DataFrame({"a": ["x"]})
                cases = {"DataFrameSchema": (pa.DataFrameSchema({"a": pa.Column(int)}), df), "Column": (pa.Column(int, name="a"), df),
                         "Index": (pa.Index(str, pa.Check(lambda s: False)), df), "MultiIndex": (pa.MultiIndex([pa.Index(str, pa.Check(lambda s: False))]), df)}
                obs = {}
                bad = False
                for name, (schema, x) in cases.items():
                    if f"receiver='{name}'" not in recv and "receiver=" in recv:
                        continue
                    with config_context(validation_enabled=False):
                        try:
                            r = schema.validate(x)
                            obs[name] = "returned its argument" if r is x else "returned another object"
                            bad = bad or r is not x
                        except Exception as e:  # noqa: BLE001
                            obs[name] = f"validated anyway: {type(e).__name__}"
                            bad = True
                # C06: an argument that is no dataframe at all is a TypeError (a documented usage error), on every entry point
                if "receiver='DataFrameSchema'" in recv or "receiver=" not in recv:
                    import polars as pl
                    import pandera.polars as pp

                    for name, call in (("pandas DataFrameSchema.validate([1, 2])", lambda: pa.DataFrameSchema({"a": pa.Column(int)}).validate([1, 2])),
                                       ("polars DataFrameSchema.validate(pandas frame)", lambda: pp.DataFrameSchema({"a": pp.Column(int)}).validate(pd.DataFrame({"a": [1]}))),
                                       ("polars DataFrameSchema.validate([1, 2])", lambda: pp.DataFrameSchema({"a": pp.Column(int)}).validate([1, 2]))):
                        try:
                            call()
                            got = "returned"
                        except TypeError:
                            got = "TypeError"
                        except Exception as e:  # noqa: BLE001
                            got = type(e).__name__
                        if got != "TypeError":
                            bad = True
                            obs[name] = f"{got}, expected TypeError"
                # C06: a column may have ANY name - also the name of an attribute some other dataframe library has ("dask", ...)
                named = {}
                if "receiver='DataFrameSchema'" in recv or "receiver=" not in recv:
                    for col in ("dask", "map_partitions", "pandera"):
                        try:
                            pa.DataFrameSchema({col: pa.Column(int)}).validate(pd.DataFrame({col: [1, 2]}))
                        except Exception as e:  # noqa: BLE001
                            named[f"DataFrame with a column named {col!r}"] = f"raised {type(e).__name__}: {e}"[:160]
                            bad = True
                return bad, {"validation_enabled=False": obs, **named}

            return thunk

    V.target = target
    V.__name__ = "ApiValidate_" + target.rsplit(":", 1)[1].replace(".", "_")
    return V


def _contracts():
    from pandera.api.pandas.components import Column, Index, MultiIndex
    from pandera.api.pandas.container import DataFrameSchema

    return [_mk("pandera.api.pandas.container:DataFrameSchema.validate", [DataFrameSchema, MultiIndex], "frame"),
            _mk("pandera.api.dataframe.components:ComponentSchema.validate", [Column, Index], "frame")]


CONTRACTS = _contracts()
