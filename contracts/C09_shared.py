"""C09: the `check` overrides of the engine dtypes (own file: C05_dtype_receivers.py) - what a tz-agnostic DateTime / a String type
recognises is part of "a temporal type never recognises a type of another kind"."""
from contracts.C05_dtype_receivers import CONTRACTS as _DTYPE_CHECKS

CONTRACTS = list(_DTYPE_CHECKS)
