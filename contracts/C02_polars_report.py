"""C02 / C06 (polars lazy report): PolarsSchemaBackend.failure_cases_metadata lists every failure case of every collected error.

`SchemaErrors.failure_cases` of the polars back end is built here.  C02: "the lazy report is exactly the union of what the collected
errors report" - one report row per failure case (per scalar failure of an error without tabular failure cases), no row lost, none
merged (two columns matched by one regex Column are reported under the same pattern: identical report rows are DIFFERENT failures).
C06: building the report must not raise - given what the producers of polars errors guarantee (the precondition below, which is
a postcondition of check_nullable / check_unique / postprocess_lazyframe_output / polars_coerce_failure_cases in their own contracts).

Frames are seen through their HEIGHT only (theory `HeightFrame`): every projection / rename / cast / literal column keeps the
height, `with_columns(name=series)` needs a series of exactly that height (polars raises otherwise), `filter` on the mask gives its
number of false rows, `pl.concat` adds the heights, `unique` may merge rows (height unknown, at most the sum).
For m in {1, 2, 3} collected errors, each either scalar (failure_cases not a frame) or tabular with any height and 1 or 2 columns:

    pre   every tabular error's mask marks exactly as many rows false as it has failure cases   (producer contracts)
    post.one_report_row_per_failure_case          height(report) == sum over errors of (height(failure_cases) | 1)
    post.error_counts_equal_errors_per_reason     (as the pandas twin)
    exit: nothing escapes
"""
from collections import Counter

import z3

from pandera.errors import FailureCaseMetadata, SchemaError, SchemaErrorReason
from pyvc import core, types as T
from pyvc.core import PyExc, SAny, SBool, SNum, cur, py_eq
from pyvc.heap import ListObj, Obj
from pyvc.interp import OtherException
from pyvc.spec import Contract
from pyvc.theories import pandas_lite as PL
from contracts.util import fld, fld0

CODES = [SchemaErrorReason.WRONG_DATATYPE, SchemaErrorReason.DATAFRAME_CHECK, SchemaErrorReason.SERIES_CONTAINS_NULLS]


def _shape_error(what):
    e = cur().ghost["interp"].make_exc(OtherException)
    e.attrs["__polars__"] = what
    raise PyExc(e)


class HeightSeries:
    __pyvc_symbolic__ = True

    def __init__(self, n, name="series"):
        self.n, self.name = n, name


class HeightFrame:
    """a polars DataFrame seen through its height (a symbolic non-negative integer) and its number of columns"""

    __pyvc_symbolic__ = True

    def __init__(self, height, ncols=1, name="frame", false_rows=None, merged=False, fc_dtype="data"):
        self.height, self.ncols, self.name = height, ncols, name
        self.false_rows = false_rows  # for a mask: how many rows are false
        self.merged = merged
        self.fc_dtype = fc_dtype  # dtype tag of the `failure_case` column: "data" (whatever the data holds), "utf8", "bool", ...

    def pyvc_class(self):
        import polars as pl

        return pl.DataFrame

    @property
    def columns(self):
        return [f"c{k}" for k in range(self.ncols)]

    def pyvc_len(self):
        return self.height  # len(DataFrame) is its height

    def _same(self, name, ncols=None, fc_dtype=None):
        return HeightFrame(self.height, self.ncols if ncols is None else ncols, name, self.false_rows, self.merged, fc_dtype or self.fc_dtype)

    def with_row_index(self, name="index", *a, **k):
        return self._same("with_row_index", self.ncols + 1)

    with_row_count = with_row_index

    def filter(self, *a, **k):
        # the only filter in the function under contract: rows whose mask is False
        if self.false_rows is None:
            raise core.Unsupported("filter of a frame that is not a mask")
        return HeightFrame(self.false_rows, self.ncols, "false_rows")

    def pyvc_getitem(self, I, k):
        return HeightSeries(self.height, f"{self.name}[{k!r}]")

    def rows(self, named=False):
        return HeightSeries(self.height, "rows")

    def rename(self, mapping):
        return self._same("rename")

    def select(self, *a, **k):
        # (the only projection that changes the failure_case column: `pl.col.failure_case.struct.json_encode()` - text)
        return self._same("select", max(1, len(a) + len(k)), fc_dtype="utf8" if self.name == "with_columns" else None)

    def cast(self, dtypes=None, *a, **k):
        import polars as pl

        m = dict(dtypes) if isinstance(dtypes, dict) else {}
        to = m.get("failure_case")
        return self._same("cast", fc_dtype="utf8" if to in (pl.Utf8, pl.String) else None)

    def with_columns(self, *exprs, **named):
        for k, v in named.items():
            if isinstance(v, HeightSeries):
                same = py_eq(v.n, self.height)
                if not cur().ghost["interp"].truth(same, f"len({k}) == height"):
                    _shape_error(f"Series {k}: length differs from the DataFrame height")
        return self._same("with_columns", self.ncols + len(named))

    def unique(self, *a, **k):
        h = core.sym_int("height_after_unique")
        cur().assume(SBool(z3.And(h.z >= z3.If(self.height.z > 0, 1, 0) if isinstance(self.height, SNum) else h.z >= 0, h.z <= (self.height.z if isinstance(self.height, SNum) else self.height))))
        return HeightFrame(h, self.ncols, "unique", merged=True)


class PolarsFailureCasesReport(Contract):
    target = "pandera.backends.polars.base:PolarsSchemaBackend.failure_cases_metadata"
    split = {"m": [1, 2, 3]}
    raises = ()

    def setup(self, I):
        PL.install(I)
        import polars as pl

        from pyvc.theories.opaque import OpaqueVal

        I.models[id(pl.lit)] = lambda I_, *a, **k: SAny(name="literal")
        I.models[id(pl.col)] = lambda I_, *a, **k: OpaqueVal("pl.col(..)")  # expressions are only handed to the height-frame methods
        I.models[id(pl.Series)] = lambda I_, v=None, *a, **k: v if isinstance(v, HeightSeries) else HeightSeries(core.sym_int("len(series)"))

        def concat(I_, items, *a, **k):
            items = list(items)
            if not items:
                I_.raise_py(ValueError, "cannot concat empty list")
            total = items[0].height
            for f in items[1:]:
                total = total + f.height
            kinds = {f.fc_dtype for f in items}
            if len(kinds) > 1:
                # polars: vertical concat needs the same dtype in every frame ("type String is incompatible with expected type Boolean")
                _shape_error(f"concat of failure_case columns of dtypes {sorted(kinds)}")
            return HeightFrame(total, 6, "concat", fc_dtype=items[0].fc_dtype)

        I.models[id(pl.concat)] = concat

        def dataframe(I_, data=None, *a, **k):
            # pl.DataFrame({name: [one value], ...}): the scalar failure case of an error - one row
            lens = {len(v) for v in dict(data).values()}
            if lens != {1}:
                raise core.Unsupported("pl.DataFrame of ragged / multi-row columns")
            v = dict(data)["failure_case"][0]
            return HeightFrame(SNum(z3.IntVal(1)), len(dict(data)), "scalar_failure_case", fc_dtype="bool" if isinstance(v, (bool, core.SBool)) else "utf8")

        I.models[id(pl.DataFrame)] = dataframe
        from pandera.api.base.error_handler import ErrorHandler as EH

        from pyvc.heap import DictObj

        I.models[id(EH.summarize)] = lambda I_, h, schema_name=None: DictObj()  # the summary message (its own contract: C18 report filter)

    def make_args(self):
        m = self.fixed.get("m", 1)
        errs = ListObj()
        heights = []
        for j in range(m):
            kind = cur().choose([("scalar", None), ("one_column", None), ("two_columns", None), ("scalar_false", None)], f"failure_cases(err{j})")
            class Column:  # (only __name__ is read: the schema_context column of the report)
                pass

            e = Obj(SchemaError, f"err{j}", pre=True, fields=dict(schema=T.Ref(Column, name=T.Const("col")), check=T.Const("some_check"), check_index=T.Any,
                                                                  reason_code=T.OneOf(*CODES), data=T.Any))
            e.attrs["args"] = ("msg",)
            if kind in (0, 3):
                # a scalar failure case: the text of a dtype / a column name, or the False of a check that answers with one bool
                fc, mask, h = ("Int64" if kind == 0 else False), None, 1
            else:
                h = core.sym_int(f"n_failure_cases(err{j})")
                cur().assume(h >= 0)
                core.register_model_var(f"n_failure_cases(err{j})", h.z)
                fc = HeightFrame(h, kind, f"failure_cases{j}")
                nrows = core.sym_int(f"height(data{j})")
                cur().assume(nrows >= h)
                # precondition (producer contracts): the mask marks exactly one row false per failure case
                mask = HeightFrame(nrows, 1, f"check_output{j}", false_rows=h)
            for a, v in (("failure_cases", fc), ("check_output", mask)):
                e.attrs[a] = v
                e.attrs0[a] = v
            heights.append(h)
            errs.append(e)
        cur().ghost["heights"] = heights
        return {"self": T.Ref(None).fresh("self"), "schema_name": T.fresh_value(T.Any, "schema_name"), "schema_errors": errs}

    def call_target(self, I, fn, a):
        return I.call(fn, [a["self"], a["schema_name"], a["schema_errors"]], {})

    def modifies(self, self_, schema_name, schema_errors):
        return [(e, "data") for e in schema_errors]

    def ensures(self, result, old, self_, schema_name, schema_errors):
        out = {"is_metadata_record": isinstance(result, Obj) and result.cls is FailureCaseMetadata}
        if not out["is_metadata_record"]:
            return out
        rep = result.attrs["failure_cases"]
        hs = cur().ghost["heights"]
        total = hs[0] if not isinstance(hs[0], int) else SNum(z3.IntVal(hs[0]))
        for h in hs[1:]:
            total = total + h
        out["report_is_a_frame"] = isinstance(rep, HeightFrame)
        if isinstance(rep, HeightFrame):
            out["one_report_row_per_failure_case"] = py_eq(rep.height, total)
            out["no_rows_merged"] = rep.merged is False
        want = Counter(fld0(e, "reason_code").name for e in schema_errors)
        counts = result.attrs["error_counts"]
        got = {k: v for k, v in dict(counts).items() if v != 0}
        out["error_counts_equal_errors_per_reason"] = got == dict(want)
        return out

    def concretize(self, rec):
        def thunk():
            """a regex column matching two columns that fail identically: two failures, two report rows"""
            import warnings

            import polars as pl
            import pandera as pa
            import pandera.polars as pp

            warnings.simplefilter("ignore")
            schema = pp.DataFrameSchema({"^x_.*$": pp.Column(int, pa.Check.gt(0), regex=True)})
            try:
                schema.validate(pl.DataFrame({"x_1": [1, -1], "x_2": [2, -1]}), lazy=True)
                return True, "accepted"
            except pa.errors.SchemaErrors as e:
                n_cases = sum((err.failure_cases.height if hasattr(err.failure_cases, "height") else 1) for err in e.schema_errors)
                rows = e.failure_cases.height
                return rows != n_cases, {"failure cases of the collected errors": n_cases, "rows of SchemaErrors.failure_cases": rows}
            except Exception as e:  # noqa: BLE001
                return True, f"leaked {type(e).__name__}: {e}"[:160]

        return thunk


CONTRACTS = [PolarsFailureCasesReport]
