"""C10 (pandas engine): the data types whose `coerce` is written by hand - Date and Decimal - accept every container the engine hands
them: a column (Series), an index (Index - `Index(Date, coerce=True)`, a MultiIndex level) and, for Date, a table.

C10: "Coercing a container to a data type either returns a container of the same length and labels ... or fails with a parser error whose
failure cases are exactly the input elements that cannot be converted individually."  A container the method cannot even walk (an Index
has neither `.dt` nor `.apply`) makes EVERY coercion fail with failure cases None although every element converts.

    Date._coerce / Decimal.coerce      post.same_kind_of_container      Series -> Series, Index -> Index, DataFrame -> DataFrame (Date)
                                       post.converted_element_wise      the result is the conversion of the argument's elements
                                       exit: only what the conversion of an ELEMENT raises (pd.to_datetime / decimal.Decimal) - never an
                                       AttributeError about the container

The pandas objects are modelled by what distinguishes the kinds here (documented pandas API): a Series has `.dt` (for datetimes), `.apply`
and `.map`; an Index has `.map` and, as a DatetimeIndex, `.date`, but neither `.dt` nor `.apply`; `pd.to_datetime` and `astype` keep the kind.
"""
from pyvc import core, types as T
from pyvc.core import PyExc, SAny, Unsupported, cur
from pyvc.interp import OtherException
from pyvc.spec import Contract

PE = "pandera.engines.pandas_engine"


class Box:
    """a pandas container of one kind; `trail` records what was done to its elements"""

    __pyvc_symbolic__ = True

    def __init__(self, kind, trail=(), name=None):
        self.kind, self.trail, self.name = kind, tuple(trail), name

    def pyvc_class(self):
        import pandas as pd

        return {"Series": pd.Series, "Index": pd.Index, "DataFrame": pd.DataFrame}[self.kind]

    def _no(self, attr):
        cls = {"Series": "Series", "Index": "Index", "DataFrame": "DataFrame"}[self.kind]
        cur().ghost["interp"].raise_py(AttributeError, f"'{cls}' object has no attribute '{attr}'")

    def astype(self, dtype, **kw):
        return Box(self.kind, self.trail + (("astype", dtype),), self.name)

    @property
    def dt(self):
        if self.kind != "Series":
            self._no("dt")
        return _Dt(self)

    @property
    def date(self):
        if self.kind != "Index":
            self._no("date")
        return _Dates(self)

    def _elementwise(self, how, fn):
        I = cur().ghost["interp"]
        el = SAny(name="element")
        cur().ghost.setdefault("element_calls", []).append(how)
        I.call(fn, [el])  # (one representative element: the function is applied to every element)
        return Box(self.kind, self.trail + ((how, fn),), self.name)

    def apply(self, fn, *a, **kw):
        if self.kind == "Index":
            self._no("apply")
        if self.kind == "DataFrame":
            raise Unsupported("DataFrame.apply(fn): column-wise application is not modelled")
        return self._elementwise("apply", fn)

    def map(self, fn, *a, **kw):
        if self.kind == "DataFrame":
            raise Unsupported("DataFrame.map")
        return self._elementwise("map", fn)

    def transform(self, fn, *a, **kw):
        if self.kind != "DataFrame":
            raise Unsupported("transform of a non-table")
        I = cur().ghost["interp"]
        col = I.call(fn, [Box("Series", self.trail, "column")])  # (one representative column)
        if not isinstance(col, Box) or col.kind != "Series":
            raise Unsupported("DataFrame.transform(fn) with fn not returning a column")
        return Box("DataFrame", col.trail, self.name)


class _Dt:
    __pyvc_symbolic__ = True

    def __init__(self, owner):
        self.owner = owner

    @property
    def date(self):
        o = self.owner
        return Box(o.kind, o.trail + (("date",),), o.name)


class _Dates:
    """DatetimeIndex.date: a numpy array of date objects"""

    __pyvc_symbolic__ = True

    def __init__(self, owner):
        self.owner = owner


def _install_pandas(I):
    import pandas as pd

    def to_datetime(I_, arg, **kw):
        if isinstance(arg, Box):
            if cur().choose([("converts", None), ("raises", None)], "pd.to_datetime") == 1:
                raise PyExc(I_.make_exc(ValueError, "time data doesn't match format"))
            return Box("Series" if arg.kind == "DataFrame" else arg.kind, arg.trail + (("to_datetime",),), arg.name)
        return SAny(name="timestamp")

    I.models[id(pd.to_datetime)] = to_datetime
    orig_index = I.models.get(id(pd.Index))

    def index_ctor(I_, data=None, **kw):
        if isinstance(data, _Dates):
            o = data.owner
            return Box("Index", o.trail + (("date",),), kw.get("name"))
        if orig_index is None:
            raise Unsupported("pd.Index(...)")
        return orig_index(I_, data, **kw)

    I.models[id(pd.Index)] = index_ctor


class DateCoerceKinds(Contract):
    target = f"{PE}:Date._coerce"
    split = {"kind": ["Series", "Index", "DataFrame"]}
    raises = (ValueError, TypeError, OtherException)
    check_frame = False

    def setup(self, I):
        _install_pandas(I)

    def make_args(self):
        from pandera.engines.pandas_engine import Date

        me = T.Ref(Date, to_datetime_kwargs=T.Any).fresh("self")
        me.attrs["to_datetime_kwargs"] = {}
        me.attrs0["to_datetime_kwargs"] = me.attrs["to_datetime_kwargs"]
        return {"self": me, "data_container": Box(self.fixed.get("kind", "Series"), name="data"), "pandas_dtype": "datetime64[ns]"}

    def call_target(self, I, fn, a):
        return I.call(fn, [a["self"], a["data_container"]], {"pandas_dtype": a["pandas_dtype"]})

    def ensures(self, result, old, self_, data_container, pandas_dtype):
        out = {"same_kind_of_container": isinstance(result, Box) and result.kind == data_container.kind}
        if out["same_kind_of_container"]:
            steps = [t[0] for t in result.trail]
            out["converted_element_wise"] = steps == ["to_datetime", "astype", "date"]
            out["an_index_keeps_its_name"] = data_container.kind != "Index" or result.name == data_container.name
        return out

    def on_raise(self, exc, old, self_, data_container, pandas_dtype):
        return {"only_what_converting_an_element_raises": exc.cls is ValueError}

    def concretize(self, rec):
        return _replay


class DecimalCoerceKinds(Contract):
    target = f"{PE}:Decimal.coerce"
    split = {"kind": ["Series", "Index"]}
    raises = (OtherException,)
    check_frame = False

    def setup(self, I):
        _install_pandas(I)
        from pandera.engines.pandas_engine import Decimal

        def coerce_value(I_, self_obj, value):
            cur().ghost.setdefault("coerce_value_calls", []).append(value)
            if cur().choose([("converts", None), ("raises", None)], "coerce_value") == 1:
                raise PyExc(I_.make_exc(OtherException, "decimal.InvalidOperation"))
            return SAny(name="decimal")

        I.models[id(Decimal.coerce_value)] = coerce_value

    def make_args(self):
        from pandera.engines.pandas_engine import Decimal

        return {"self": T.Ref(Decimal).fresh("self"), "data_container": Box(self.fixed.get("kind", "Series"), name="data")}

    def call_target(self, I, fn, a):
        return I.call(fn, [a["self"], a["data_container"]], {})

    def ensures(self, result, old, self_, data_container):
        out = {"same_kind_of_container": isinstance(result, Box) and result.kind == data_container.kind}
        if out["same_kind_of_container"]:
            out["converted_element_wise"] = len(result.trail) == 1 and result.trail[0][0] in ("apply", "map") and len(cur().ghost.get("coerce_value_calls", [])) == 1
        return out

    def on_raise(self, exc, old, self_, data_container):
        return {"only_what_converting_an_element_raises": exc.cls is OtherException and len(cur().ghost.get("coerce_value_calls", [])) == 1}

    def concretize(self, rec):
        return _replay


def _replay():
    """an Index (and a MultiIndex level) of date / decimal text under coerce=True"""
    import warnings

    import pandas as pd
    import pandera as pa
    from pandera.engines import pandas_engine as pe

    warnings.simplefilter("ignore")
    obs, bad = {}, False
    for name, dt, labels in (("Date", pe.Date(), ["2020-01-01", "2020-01-02"]), ("Decimal(10, 2)", pe.Decimal(10, 2), ["1.5", "2.25"])):
        try:
            out = dt.try_coerce(pd.Index(labels, name="k"))
            got = f"{type(out).__name__} of {len(out)} named {out.name!r}"
        except Exception as e:  # noqa: BLE001
            got = f"raised {type(e).__name__}, failure cases {getattr(e, 'failure_cases', '-')}"
        if got != "Index of 2 named 'k'":
            bad = True
            obs[f"{name}.try_coerce(Index({labels}))"] = got
        schema = pa.DataFrameSchema({"a": pa.Column(int)}, index=pa.Index(dt, coerce=True))
        try:
            schema.validate(pd.DataFrame({"a": [1, 2]}, index=labels))
        except Exception as e:  # noqa: BLE001
            bad = True
            obs[f"DataFrameSchema(index=Index({name}, coerce=True)).validate(frame indexed {labels})"] = f"raised {type(e).__name__}"
    return bad, obs or "Date and Decimal coerce an Index as they coerce a column"


CONTRACTS = [DateCoerceKinds, DecimalCoerceKinds]
