"""C15: the inverse laws are equalities between schemas - comparing schemas never raises (own file: C05_equality.py)."""
from contracts.C05_equality import CONTRACTS as _EQ

CONTRACTS = list(_EQ)
