"""C03 / C04 / C18 (pandas Series): SeriesSchema.validate = value validation followed by index validation.

  * validation disabled  -> returns its argument itself and calls nothing
  * not a Series         -> TypeError
  * the object handed to the index schema is the object RETURNED by the value validation (parsed values are kept)
  * the result is what the index validation returns
  * with inplace=False the caller's own Series never reaches a callee that writes in place (index coercion assigns .index)
"""
from pandera.api.dataframe.components import ComponentSchema
from pandera.api.pandas.array import SeriesSchema
from pandera.api.pandas.components import Index
from pandera.errors import SchemaDefinitionError, SchemaError, SchemaErrors
from pyvc import core, types as T
from pyvc.core import And, Iff, Implies, Not, Or, PyExc, SAny, SBool, cur, py_eq
from pyvc.heap import Obj
from pyvc.interp import OtherException
from pyvc.spec import Contract
from pyvc.theories import pandas_lite as PL
from pyvc.theories.pandas_lite import SeriesVal
from contracts.util import fld, fld0

OPTS = ("head", "tail", "sample", "random_state", "lazy", "inplace")


class SeriesSchemaValidate(Contract):
    target = "pandera.api.pandas.array:SeriesSchema.validate"
    raises = (TypeError, SchemaDefinitionError, SchemaError, SchemaErrors, OtherException)
    split = {"inplace": [True, False]}

    def setup(self, I):
        PL.install(I)

        def component_validate(I, self_obj, check_obj, *args, **kw):
            """interface contract of ComponentSchema.validate (value part of a SeriesSchema, or an Index schema):
            value validation returns the argument (inplace) or a copy; index validation returns its argument and, when the
            index schema coerces, assigns the argument's .index IN PLACE; both may raise the documented errors."""
            p = cur()
            who = "index" if self_obj.cls is Index else "values"
            p.ghost.setdefault("calls", []).append((who, check_obj, kw))
            k = p.choose([("returns", None), ("SchemaError", None), ("SchemaErrors", None), ("foreign", None)], f"{who}.validate")
            if k > 0:
                raise PyExc(I.make_exc([None, SchemaError, SchemaErrors, OtherException][k]))
            if who == "values":
                if kw.get("inplace") is True:
                    res = check_obj
                else:
                    res = check_obj.derive()
                    res.pre = False
                p.ghost["validated_values"] = res
                return res
            if cur().decide(fld(self_obj, "coerce"), "index.coerce"):
                check_obj.mutations.append(("index", "coerce"))
                p.event("data_write", check_obj, "index")
            p.ghost["index_result"] = check_obj
            return check_obj

        I.models[id(ComponentSchema.validate)] = component_validate

    def make_args(self):
        k = cur().choose([("Series", None), ("not_a_series", None)], "kind(check_obj)")
        obj = SeriesVal.fresh("check_obj", "real") if k == 0 else SAny(name="check_obj")
        a = {"self": T.Ref(SeriesSchema, index=T.Opt(T.Ref(Index, coerce=T.Bool))).fresh("self"), "check_obj": obj}
        for o in OPTS:
            a[o] = self.arg(o, T.Any) if o != "inplace" else self.arg("inplace", T.Bool)
        return a

    def call_target(self, I, fn, a):
        return I.call(fn, [a["self"], a["check_obj"]], {o: a[o] for o in OPTS})

    def modifies(self, self_, check_obj, inplace, **kw):
        return [(check_obj, "data")] if inplace else []

    def _enabled(self):
        ctx = cur().globals_state.get(("pandera.config", "_CONTEXT_CONFIG"))
        return fld0(ctx, "validation_enabled") if ctx is not None else True

    def ensures(self, result, old, self_, check_obj, **kw):
        p = cur()
        calls = p.ghost.get("calls", [])
        en = self._enabled()
        if en is not True and not cur().decide(en, "validation_enabled"):
            return {"disabled_returns_argument_untouched": result is check_obj and calls == []}
        out = {"values_validated_first_on_the_argument": len(calls) >= 1 and calls[0][0] == "values" and calls[0][1] is check_obj}
        if calls:
            out["options_forwarded_to_value_validation"] = all(calls[0][2].get(o) is kw[o] for o in OPTS)
        idx = fld0(self_, "index")
        if idx is None:
            out["returns_validated_values"] = len(calls) == 1 and result is p.ghost.get("validated_values")
        else:
            out["index_validated_second"] = len(calls) == 2 and calls[1][0] == "index"
            if len(calls) == 2:
                out["index_schema_gets_the_validated_object"] = calls[1][1] is p.ghost.get("validated_values")
                out["options_forwarded_to_index_validation"] = all(calls[1][2].get(o) is kw[o] for o in OPTS)
                out["returns_index_validation_result"] = result is p.ghost.get("index_result")
        return out

    def on_raise(self, exc, old, self_, check_obj, **kw):
        if exc.cls is TypeError:
            return {"type_error_only_for_non_series": not isinstance(check_obj, SeriesVal)}
        return {}

    def concretize(self, rec):
        def thunk():
            import pandas as pd
            import pandera as pa

            s = pd.Series(["1", "2"], index=["10", "20"])
            before = (s.dtype, s.index.dtype)
            out = pa.SeriesSchema(int, coerce=True, index=pa.Index(int, coerce=True)).validate(s)
            after = (s.dtype, s.index.dtype)
            bad = str(out.dtype) != "int64" or before != after
            obs = {"returned dtype": str(out.dtype), "caller's index dtype before/after": [str(before[1]), str(after[1])]}
            # C06: an index label is an attribute of a Series: a label may be named like an attribute of another library's series
            for label in ("dask", "map_partitions"):
                try:
                    pa.SeriesSchema(int).validate(pd.Series([1, 2], index=[label, "b"]))
                except Exception as e:  # noqa: BLE001
                    bad = True
                    obs[f"Series with an index label {label!r}"] = f"raised {type(e).__name__}: {e}"[:160]
            return bad, obs

        return thunk


CONTRACTS = [SeriesSchemaValidate]
