"""C11 / C02 (pandas, MultiIndex): the text of a row label is ONE function of the label.

The failure cases of an object with a MultiIndex carry the TEXT of each failing row's label; drop_invalid_rows removes the rows whose own
label has one of those texts (contract PandasDropInvalidRowsMultiIndex).  That argument rests on one fact the theory takes as given
(`label_text` is a function of the label): the text of a label must not depend on WHICH OTHER labels are rendered with it.  It did, when
both sides rendered through a frame of the levels: an integer level is handed out as floats as soon as one label of that level is
missing (or another level is float), so the failing rows - rendered among themselves - read "(1, 'a')" and the same rows rendered with
the whole frame read "(1.0, 'a')": nothing was dropped, nothing raised.

  structural.one_rendering/<function>          (live AST) reshape_failure_cases renders MultiIndex labels through multiindex_label_text in
                                               BOTH of its MultiIndex branches, drop_invalid_rows through the same function, and neither
                                               builds label text in another way (no `.astype(str)` of a levels frame, no str() of labels)
  enumerated.text_of_a_label_is_independent_of_the_other_labels/<family>
                                               (real function, enumeration: every sub-index of the families below - int / float / missing /
                                               text / timestamp levels - renders each label as the whole index renders it; and equal
                                               labels, 1 and 1.0, read the same).  An enumeration of a pure function over a stated family:
                                               reported with back end "enumeration", not as a proof for all labels.
"""
import ast
import inspect
import itertools


def _calls(fn_src, name):
    tree = ast.parse(fn_src)
    return sum(1 for n in ast.walk(tree) if isinstance(n, ast.Call) and ((isinstance(n.func, ast.Name) and n.func.id == name) or (isinstance(n.func, ast.Attribute) and n.func.attr == name)))


def label_text():
    import textwrap

    import numpy as np
    import pandas as pd

    import pandera.backends.pandas.base as PB
    import pandera.backends.pandas.error_formatters as EF

    recs = []
    has = hasattr(EF, "multiindex_label_text")
    for label, fn, want in (("reshape_failure_cases", EF.reshape_failure_cases, 2), ("drop_invalid_rows", PB.PandasSchemaBackend.drop_invalid_rows, 1)):
        src = textwrap.dedent(inspect.getsource(fn))
        n = _calls(src, "multiindex_label_text")
        tree = ast.parse(src)
        index_to_frame = sum(1 for x in ast.walk(tree) if isinstance(x, ast.Call) and isinstance(x.func, ast.Attribute) and x.func.attr == "to_frame"
                             and isinstance(x.func.value, ast.Attribute) and x.func.value.attr == "index")
        other = _calls(src, "eval") + index_to_frame  # (reading label text back with eval / rendering through a frame of the levels)
        recs.append({"oid": f"structural.one_rendering/{label}", "ok": bool(has and n >= want and other == 0), "backend": "ast",
                     "note": f"{n} call(s) of multiindex_label_text (expected {want}); other ways of building label text / reading it back in the function: {other}"})
    if not has:
        return recs
    ts = pd.Timestamp("2020-01-01")
    families = {
        "int level with a missing label + text level": pd.MultiIndex(levels=[[1, 2, 3], ["a", "b"]], codes=[[0, 1, -1, 2], [0, 1, 0, 1]]),
        "int level + float level": pd.MultiIndex.from_tuples([(3019, 42.5), (1, 1.0), (2, 0.5)]),
        "float level with NaN + int level": pd.MultiIndex.from_tuples([(1.5, 1), (float("nan"), 2), (2.0, 3)]),
        "timestamp level + int level with a missing label": pd.MultiIndex(levels=[[ts, ts + pd.Timedelta("1D")], [7, 8]], codes=[[0, 1, 1], [0, -1, 1]]),
        "text levels": pd.MultiIndex.from_tuples([("x", "p"), ("y", "q")]),
    }
    for fam, idx in families.items():
        whole = EF.multiindex_label_text(idx)
        bad = None
        for r in range(1, len(idx) + 1):
            for pos in itertools.combinations(range(len(idx)), r):
                sub = EF.multiindex_label_text(idx[list(pos)])
                if sub != [whole[p] for p in pos]:
                    bad = {"rows": list(pos), "rendered alone": sub, "rendered with the whole index": [whole[p] for p in pos]}
                    break
            if bad:
                break
        recs.append({"oid": f"enumerated.text_of_a_label_is_independent_of_the_other_labels/{fam}", "ok": bad is None, "backend": "enumeration",
                     "note": f"every sub-index of {len(idx)} labels" if bad is None else str(bad)})
    same = EF.multiindex_label_text(pd.MultiIndex.from_tuples([(1, "a")])) == EF.multiindex_label_text(pd.MultiIndex.from_tuples([(1.0, "a")]))
    recs.append({"oid": "enumerated.equal_labels_read_the_same/1 and 1.0", "ok": bool(same), "backend": "enumeration", "note": "(1, 'a') and (1.0, 'a') are one label to pandas"})
    return recs


def _replay(rec):
    def thunk():
        import warnings

        import pandas as pd
        import pandera as pa

        warnings.simplefilter("ignore")
        obs, bad = {}, False
        idx = pd.MultiIndex(levels=[[1, 2, 3], ["a", "b"]], codes=[[0, 1, -1, 2], [0, 1, 0, 1]])
        df = pd.DataFrame({"a": [0, 5, 7, 0]}, index=idx)
        for name, schema in (("column check", pa.DataFrameSchema({"a": pa.Column(int, pa.Check.gt(1))}, drop_invalid_rows=True)),
                             ("dataframe check", pa.DataFrameSchema({"a": pa.Column(int)}, checks=pa.Check(lambda d: d["a"] > 1), drop_invalid_rows=True))):
            try:
                got = schema.validate(df, lazy=True)["a"].tolist()
            except Exception as e:  # noqa: BLE001
                got = f"raised {type(e).__name__}"
            if got != [5, 7]:
                bad = True
                obs[f"{name} gt(1) on a=[0,5,7,0] under a MultiIndex whose integer level has a missing label"] = f"{got}, expected [5, 7]"
        return bad, obs or "rows are dropped whatever the other labels of the index are"

    return thunk


label_text.concretize = _replay

STRUCTURAL = [label_text]
CONTRACTS = []
