"""C16 - from collected check / parser infos to the per-field lists of the compiled schema.

`to_schema` (ToSchema) takes `_extract_checks(check_infos, field_names)` etc. as given; here the real bodies:

_extract_checks / _extract_parsers(infos, field_names)
    post.each_field_gets_exactly_the_checks_that_designate_it_in_info_order
        result[f] == [info_k.to_check(cls) for k in order if info_k designates f]   and no key for a field nothing designates;
        designates: f in info.fields (a FieldInfo counts by its name) - or, with regex=True, some pattern of info.fields matches f
        at its start (re.match)
    post.every_info_converted_exactly_once / exit.unknown_field_is_an_init_error (non-regex target that is not a field)
_extract_df_checks / _extract_df_parsers      one converted check / parser per info, in order
_regex_filter(seq, regexps)                   {x in seq : some regex matches x (re.match)}

Shapes: field names ('a','ab','b'); 0-2 infos, each designating one of 7 targets (single names, a FieldInfo, two names, an unknown
name, patterns 'a', 'a$', 'b|zz', 'zz'); everything else (the converted objects) symbolic tokens.  Regular expressions are evaluated by
`re` itself on these concrete names (assumed: the stdlib).
"""
import itertools
import re

from pandera.api.dataframe.model_components import FieldInfo
from pandera.errors import SchemaInitError
from pyvc import core, types as T
from pyvc.core import SAny, cur
from pyvc.heap import ListObj, Obj
from pyvc.spec import Contract

DM = "pandera.api.dataframe.model:DataFrameModel"
NAMES = ["a", "ab", "b"]
TARGETS = [(("a",), False), (("field:b",), False), (("a", "b"), False), (("zz",), False), (("a",), True), (("a$", "b|zz"), True), (("zz",), True)]


def designated(target):
    fields, regex = target
    plain = [f.split(":", 1)[1] if f.startswith("field:") else f for f in fields]
    if not regex:
        return set(plain)
    return {n for n in NAMES if any(re.match(p, n) for p in plain)}


class _Extract(Contract):
    convert = "to_check"
    raises = (SchemaInitError,)
    split = {"shape": list(range(1 + len(TARGETS) + len(TARGETS) ** 2))}

    @staticmethod
    def shapes():
        return [()] + [(t,) for t in TARGETS] + list(itertools.product(TARGETS, repeat=2))

    def make_args(self):
        shape = self.shapes()[self.fixed.get("shape", 0)]
        infos = ListObj()
        for k, (fields, regex) in enumerate(shape):
            fs = []
            for f in fields:
                if f.startswith("field:"):
                    fi = Obj(FieldInfo, f"fieldinfo_{f[6:]}", pre=True)
                    fi.attrs["name"] = f[6:]
                    fi.attrs0["name"] = f[6:]
                    fs.append(fi)
                else:
                    fs.append(f)
            info = T.Ref(None, **{self.convert: T.Callback(T.Lazy(lambda n: SAny(name=n)), raises=False)}).fresh(f"info{k}")
            for a, v in (("fields", tuple(fs)), ("regex", regex)):
                info.attrs[a] = v
                info.attrs0[a] = v
            infos.append(info)
        infos.pre = True
        cur().ghost.update(shape=shape, infos=list(infos))
        from pandera.api.dataframe.model import DataFrameModel

        return {"cls": Obj(DataFrameModel, "cls", pre=True), "infos": infos, "field_names": ListObj(NAMES)}

    def call_target(self, I, fn, a):
        from pandera.api.dataframe.model import DataFrameModel

        I.models[id(DataFrameModel._regex_filter)] = lambda I_, seq, regexps: {x for x in list(seq) if any(re.match(r, x) for r in regexps)}  # (_regex_filter: own contract below)
        return I.call(fn, [a["cls"], a["infos"], a["field_names"]], {})

    def _converted(self):
        out = []
        for info in cur().ghost["infos"]:
            cb = info.attrs0[self.convert]
            out.append(cb)
        return out

    def ensures(self, result, old, cls, infos, field_names):
        g = cur().ghost
        shape = g["shape"]
        cbs = self._converted()
        out = {"every_info_converted_exactly_once_with_the_class": all(len(cb.calls) == 1 and len(cb.calls[0][0]) == 1 and cb.calls[0][0][0] is cls for cb in cbs)}
        out["returns_only_when_every_plain_target_is_a_field"] = all(designated(t) <= set(NAMES) for t in shape)
        made = {}
        for e in cur().events:
            if e[0] == "callback":
                made.setdefault(e[1].split(".")[0], e)
        want = {}
        for k, t in enumerate(shape):
            for f in designated(t):
                want.setdefault(f, []).append(k)
        got = dict(result) if isinstance(result, dict) else None
        out["result_is_a_mapping"] = got is not None
        if got is None:
            return out
        out["exactly_the_designated_fields_have_an_entry"] = set(got) == set(want)
        rets = cur().ghost.get("cb_returns", {})
        ok = True
        for f, ks in want.items():
            vals = list(got.get(f, []))
            ok = ok and len(vals) == len(ks) and all(vals[i] is rets.get((f"info{k}.{self.convert}", 0)) for i, k in enumerate(ks))
        out["each_field_gets_exactly_the_converted_infos_that_designate_it_in_info_order"] = ok
        return out

    def on_raise(self, exc, old, cls, infos, field_names):
        shape = cur().ghost["shape"]
        return {"unknown_field_is_an_init_error_only_for_a_plain_target_that_is_no_field": any((not t[1]) and not (designated(t) <= set(NAMES)) for t in shape)}


class ExtractChecks(_Extract):
    target = f"{DM}._extract_checks"


class ExtractParsers(_Extract):
    target = f"{DM}._extract_parsers"
    convert = "to_parser"


class _ExtractDf(Contract):
    convert = "to_check"
    split = {"n": [0, 1, 2, 3]}

    def make_args(self):
        infos = ListObj([T.Ref(None, **{self.convert: T.Callback(T.Lazy(lambda n: SAny(name=n)), raises=False)}).fresh(f"info{k}") for k in range(self.fixed.get("n", 1))])
        infos.pre = True
        cur().ghost["infos"] = list(infos)
        return {"cls": Obj(None, "cls", pre=True), "infos": infos}

    def call_target(self, I, fn, a):
        return I.call(fn, [a["cls"], a["infos"]], {})

    def ensures(self, result, old, cls, infos):
        rets = cur().ghost.get("cb_returns", {})
        vals = list(result) if isinstance(result, (list, ListObj)) else None
        return {"one_converted_object_per_info_in_order": vals is not None and len(vals) == len(infos) and all(v is rets.get((f"info{k}.{self.convert}", 0)) for k, v in enumerate(vals)),
                "each_converted_with_the_class": all(len(i.attrs0[self.convert].calls) == 1 and i.attrs0[self.convert].calls[0][0][0] is cls for i in cur().ghost["infos"])}


class ExtractDfChecks(_ExtractDf):
    target = f"{DM}._extract_df_checks"


class ExtractDfParsers(_ExtractDf):
    target = f"{DM}._extract_df_parsers"
    convert = "to_parser"


class RegexFilter(Contract):
    target = f"{DM}._regex_filter"
    # names: the column names of the model's fields - text, or (Field(alias=2020): "Aliases ... can be any hashable") not text
    split = {"regexps": list(range(8)), "names": ["text", "with_a_non_text_alias"]}
    PATS = ["a", "a$", "b|zz"]
    raises = ()

    def make_args(self):
        k = self.fixed.get("regexps", 0)
        pats = [p for j, p in enumerate(self.PATS) if k >> j & 1]
        names = list(NAMES) + ([2020] if self.fixed.get("names", "text") != "text" else [])
        cur().ghost.update(pats=pats, names=names)
        return {"seq": ListObj(names), "regexps": ListObj(pats)}

    def call_target(self, I, fn, a):
        return I.call(fn, [a["seq"], a["regexps"]], {})

    def ensures(self, result, old, seq, regexps):
        pats = cur().ghost["pats"]
        # (a name that is not text is matched by no regular expression)
        want = {n for n in cur().ghost["names"] if isinstance(n, str) and any(re.match(p, n) for p in pats)}
        return {"exactly_the_items_some_regex_matches": set(result) == want}


import contracts.C16_to_schema  # noqa: E402,F401  (installs the recording of callback return values used above)

CONTRACTS = [ExtractChecks, ExtractParsers, ExtractDfChecks, ExtractDfParsers, RegexFilter]
