"""C08: contracts shared with C03 / C05 - what the polars container does to the schema and to the parsed table must leave the
schema meaning the same as on pandas for every LATER validation too (component copies, parsers)."""
from contracts.C03_polars_parsers import PolarsAddMissingColumns, PolarsSetDefault
from contracts.C05_polars_components import PolarsCollectSchemaComponents, PolarsRunSchemaComponentChecks

from contracts.C01_joint_uniqueness import PandasJointUniqueness, PolarsJointUniqueness  # one spec, both back ends
from contracts.C11_polars_check_output import PolarsPostprocessLazyframeOutput  # null handling of row-wise check outputs (ignore_na)

CONTRACTS = [PolarsCollectSchemaComponents, PolarsRunSchemaComponentChecks, PolarsAddMissingColumns, PolarsSetDefault, PolarsPostprocessLazyframeOutput, PandasJointUniqueness, PolarsJointUniqueness]

from contracts.C03_polars_container_validate import PolarsContainerValidate  # noqa: E402  (which columns are validated: those of the PARSED frame, as on pandas)

CONTRACTS += [PolarsContainerValidate]
