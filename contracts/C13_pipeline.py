"""C13 (data frames, the part that IS within reach): custom checks without a strategy are enforced on the frame that is emitted.

`dataframe_strategy` assembles a frame with hypothesis (outside the proof vocabulary - bounded stand-in in C13_containers) and then
post-processes it: string conversion, dtype conversion, null masks, the index component, and finally one `.filter(...)` per
dataframe-level / column-level custom check that has no strategy.  A draw satisfies those checks only if each filter is evaluated on
the frame that is finally EMITTED: a post-processing step placed after a filter hands out a frame the check never saw.

The assembly call is replaced by an arbitrary base strategy over opaque frames; every post-processing step yields a NEW opaque frame
(so equality of frames is identity); the REAL body of `_dataframe_strategy` (composite) and of `undefined_check_strategy` run.
Obligations, for all sizes, nullable flags and with / without an index component:

    post.dataframe_check_evaluated_on_the_emitted_frame     the wide custom check is called exactly once, on the emitted frame
    post.column_check_evaluated_on_the_emitted_frames_column  the column-level custom check is called once, on emitted[column]
    post.emitted_only_if_custom_checks_pass                  the draw condition implies both verdicts
    post.index_component_attached                             with an index schema the emitted frame went through set_pandas_index
"""
import z3

from pyvc import core, types as T
from pyvc.core import And, Implies, Not, Or, SAny, SBool, cur, py_eq
from pyvc.heap import DictObj, ListObj, Obj
from pyvc.spec import Contract, resolve_target
from pyvc.theories import hypothesis_lite as H
from pyvc.theories.hypothesis_lite import StratVal
from contracts.C13_strategies import MOD, CheckName, DispatcherModel, install_common
from contracts.C13_containers import call_objects_through_dunder_call

PS = MOD


class Frame:
    """an opaque drawn frame: identity only; frame[col] remembers where it came from"""

    __pyvc_symbolic__ = True

    def __init__(self, how, parent=None):
        self.how, self.parent = how, parent

    def pyvc_getitem(self, I, k):
        return FrameColumn(self, k)

    def history(self):
        out, f = [], self
        while f is not None:
            out.append(f.how)
            f = f.parent
        return list(reversed(out))

    def __repr__(self):
        return "<frame " + " > ".join(self.history()) + ">"


class FrameColumn:
    __pyvc_symbolic__ = True

    def __init__(self, frame, col):
        self.frame, self.col = frame, col


class FrameStrat(StratVal):
    """strategy over opaque frames: .map(f) is a post-processing step to a NEW frame (f itself - assign / convert_dtypes - is pandas
    code outside the vocabulary), .filter(p) is StratVal's filter (p is interpreted)"""

    def map(self, pack):
        return step("map")(None, self)

    def filter(self, condition):
        s = StratVal.filter(self, condition)
        s.__class__ = FrameStrat
        return s


def step(name):
    """a post-processing step of the pipeline: a map to a NEW frame (null masks, index component, conversions)"""

    def model(I, strategy, *a, **k):
        def d(base=strategy):
            v, c = base.draw()
            return Frame(name, v), c

        return FrameStrat(d, name, op=name, base=strategy)

    return model


def custom_check(name):
    o = Obj(None, name, pre=True, fields={"__call__": T.Callback(T.Ref(None, check_passed=T.Bool), raises=False)})
    o.attrs.update(strategy=None, name=CheckName(None), element_wise=False, statistics=DictObj())
    o.attrs0.update(o.attrs)
    return o


class DataFrameStrategyPipeline(Contract):
    target = f"{PS}:dataframe_strategy"
    split = {"index": ["none", "index"]}
    check_frame = False
    sym_globals = {f"{PS}:STRATEGY_DISPATCHER": T.Lazy(lambda n: DispatcherModel())}

    def setup(self, I):
        install_common(I)
        call_objects_through_dunder_call(I)
        import hypothesis.extra.pandas as pdst
        import hypothesis.strategies as st

        def data_frames(I, *a, **k):
            return FrameStrat(lambda: (Frame("assembled"), True), "data_frames(...)", op=None)

        I.models[id(pdst.data_frames)] = data_frames
        I.models[id(pdst.range_indexes)] = lambda I, *a, **k: SAny(name="range_indexes")
        I.models[id(resolve_target(f"{PS}:null_dataframe_masks"))] = step("null_dataframe_masks")
        I.models[id(resolve_target(f"{PS}:set_pandas_index"))] = step("set_pandas_index")

    def make_args(self):
        p = cur()
        col = Obj(None, "column_a", pre=True, fields={"strategy_component": T.Callback(T.Any, raises=False)})
        colcheck = custom_check("column_check")
        col.attrs.update(regex=False, checks=ListObj([colcheck]), dtype="int64", nullable=T.fresh_value(T.Bool, "nullable"), name="a")
        col.attrs0.update(col.attrs)
        dfcheck = custom_check("dataframe_check")
        cols = DictObj()
        dict.__setitem__(cols, "a", col)
        index = None if self.fixed.get("index", "none") == "none" else SAny(name="index_schema")
        p.ghost.update(colcheck=colcheck, dfcheck=dfcheck, index=index)
        return {"pandera_dtype": None, "strategy": None, "columns": cols, "checks": ListObj([dfcheck]), "unique": None, "index": index,
                "size": T.fresh_value(T.Opt(T.Nat), "size"), "n_regex_columns": 1}

    def call_target(self, I, fn, a):
        return I.call(fn, [a["pandera_dtype"], a["strategy"]], {k: a[k] for k in ("columns", "checks", "unique", "index", "size", "n_regex_columns")})

    def ensures(self, result, old, **a):
        p = cur()
        if True:
            out = {"returns_a_strategy": isinstance(result, StratVal)}
            if not isinstance(result, StratVal):
                return out
            emitted, cond = result.draw()  # interprets the live composite body and the whole pipeline
            out["emits_a_frame"] = isinstance(emitted, Frame)
            if not isinstance(emitted, Frame):
                return out
            core.register_model_var("emitted frame", lambda m, e=emitted: e.history())
            dfc = p.ghost["dfcheck"].attrs["__call__"] if "__call__" in p.ghost["dfcheck"].attrs else None
            cc = p.ghost["colcheck"].attrs["__call__"] if "__call__" in p.ghost["colcheck"].attrs else None
            df_calls = dfc.calls if dfc is not None else []
            col_calls = cc.calls if cc is not None else []
            if df_calls:
                core.register_model_var("frame the dataframe-level check saw", lambda m, f=df_calls[0][0][0]: getattr(f, "history", lambda: repr(f))())
            out["dataframe_check_evaluated_on_the_emitted_frame"] = len(df_calls) == 1 and df_calls[0][0][0] is emitted
            out["column_check_evaluated_on_the_emitted_frames_column"] = (len(col_calls) == 1 and isinstance(col_calls[0][0][0], FrameColumn)
                                                                          and col_calls[0][0][0].frame is emitted and col_calls[0][0][0].col == "a")
            verdicts = [o.attrs.get("check_passed") for o in p.objects if o.name.startswith("__call__#") or ".__call__#" in o.name]
            out["emitted_only_if_custom_checks_pass"] = len(verdicts) == 2 and Implies(cond, And(*[v for v in verdicts if v is not None]))
            if p.ghost["index"] is not None:
                out["index_component_attached"] = "set_pandas_index" in emitted.history()
            return out

    def concretize(self, rec):
        def thunk():
            """a schema with an index component and custom checks that look at the index labels: every example must validate"""
            import warnings

            import pandas as pd
            import pandera as pa

            warnings.simplefilter("ignore")
            schema = pa.DataFrameSchema(
                {"a": pa.Column(int, pa.Check(lambda s: s.index.is_unique))},
                checks=pa.Check(lambda df: df.index.is_monotonic_increasing),
                index=pa.Index(int, unique=True),
            )
            bad = []
            from hypothesis import HealthCheck, given, settings

            @settings(max_examples=40, deadline=None, derandomize=True, suppress_health_check=list(HealthCheck), database=None)
            @given(schema.strategy(size=3))
            def run(df):
                try:
                    schema.validate(df)
                except (pa.errors.SchemaError, pa.errors.SchemaErrors) as e:
                    bad.append((df.index.tolist(), str(e)[:80]))

            try:
                run()
            except Exception as e:  # noqa: BLE001
                return False, f"replay harness: {type(e).__name__}: {e}"
            return bool(bad), {"draws that fail their own schema (index labels, error)": bad[:3]} if bad else "40 draws, all valid"

        return thunk


class _Col:
    """a column schema as dataframe_strategy uses it: attributes + strategy_component() (modelled: records the flags it is asked with)"""

    def strategy_component(self):  # pragma: no cover - replaced by a model
        raise NotImplementedError


class DataFrameStrategyJointUnique(Contract):
    """dataframe_strategy(columns={a, b}, unique=[a, b]): "generated data validates" needs the rows to be distinct over the listed
    columns AFTER the null masks are applied (nulls are written into nullable columns once the frame is assembled; validation counts
    two nulls as equal).  What the function controls is which column strategies it asks for:

        post.joint_uniqueness_is_carried_by_a_column_that_cannot_be_nulled
            some listed column is requested with unique=True and is not nullable (then no two rows agree on it, whatever the masks do)
        post.the_callers_columns_are_not_rewritten       the flag is set on copies
    for all nullable flags of the two columns."""

    target = f"{PS}:dataframe_strategy"
    check_frame = True
    split = {"nullable": ["none", "a", "b", "both"]}
    sym_globals = {f"{PS}:STRATEGY_DISPATCHER": T.Lazy(lambda n: DispatcherModel())}

    def setup(self, I):
        install_common(I)
        call_objects_through_dunder_call(I)
        import hypothesis.extra.pandas as pdst

        I.models[id(pdst.data_frames)] = lambda I_, *a, **k: FrameStrat(lambda: (Frame("assembled"), True), "data_frames(...)", op=None)
        I.models[id(pdst.range_indexes)] = lambda I_, *a, **k: SAny(name="range_indexes")
        I.models[id(resolve_target(f"{PS}:null_dataframe_masks"))] = step("null_dataframe_masks")
        I.models[id(resolve_target(f"{PS}:set_pandas_index"))] = step("set_pandas_index")

        def component(I_, self_obj):
            from contracts.util import fld

            cur().ghost.setdefault("requested", []).append((fld(self_obj, "name"), fld(self_obj, "unique"), fld(self_obj, "nullable"), self_obj))
            return SAny(name=f"column_strategy[{fld(self_obj, 'name')}]")

        I.models[id(_Col.strategy_component)] = component

    def make_args(self):
        cols = DictObj()
        for k in ("a", "b"):
            c = Obj(_Col, f"column_{k}", pre=True, fields={})
            c.attrs.update(regex=False, checks=ListObj(), dtype="int64", nullable=self.fixed.get("nullable", "none") in (k, "both"), name=k, unique=False)
            c.attrs0.update(c.attrs)
            dict.__setitem__(cols, k, c)
        cur().ghost["cols"] = cols
        return {"pandera_dtype": None, "strategy": None, "columns": cols, "checks": ListObj(), "unique": ListObj(["a", "b"]), "index": None,
                "size": T.fresh_value(T.Opt(T.Nat), "size"), "n_regex_columns": 1}

    def call_target(self, I, fn, a):
        return I.call(fn, [a["pandera_dtype"], a["strategy"]], {k: a[k] for k in ("columns", "checks", "unique", "index", "size", "n_regex_columns")})

    def ensures(self, result, old, **a):
        p = cur()
        out = {"returns_a_strategy": isinstance(result, StratVal)}
        if not isinstance(result, StratVal):
            return out
        result.draw()
        req = p.ghost.get("requested", [])
        out["one_strategy_per_listed_column"] = sorted(r[0] for r in req) == ["a", "b"]
        carried = [And(py_eq(u, True), Not(n)) for _, u, n, _ in req]
        out["joint_uniqueness_is_carried_by_a_column_that_cannot_be_nulled"] = Or(*carried) if carried else False
        own = list(dict.values(p.ghost["cols"]))
        out["the_callers_columns_are_not_rewritten"] = all(all(o is not c for c in own) for _, u, _, o in req if u is True)
        return out

    def concretize(self, rec):
        def thunk():
            """DataFrameSchema(unique=[a, b]) with a nullable first column and a low-cardinality second one: every example must validate"""
            import warnings

            import hypothesis
            import pandera as pa

            warnings.simplefilter("ignore")
            obs, bad = {}, False
            for label, (na, nb) in (("a nullable, b not", (True, False)), ("a and b nullable", (True, True))):
                schema = pa.DataFrameSchema({"a": pa.Column(float, nullable=na), "b": pa.Column(int, pa.Check.isin([1, 2, 3, 4, 5, 6]), nullable=nb)}, unique=["a", "b"])
                rejected = []

                @hypothesis.settings(max_examples=60, derandomize=True, database=None, deadline=None, suppress_health_check=list(hypothesis.HealthCheck))
                @hypothesis.given(schema.strategy(size=4))
                def run(df):
                    try:
                        schema.validate(df)
                    except (pa.errors.SchemaError, pa.errors.SchemaErrors):
                        rejected.append(df.to_dict("list"))

                try:
                    run()
                except Exception as e:  # noqa: BLE001
                    obs[label] = f"{type(e).__name__}: {e}"[:120]
                    continue
                obs[label] = f"{len(rejected)} of the drawn frames rejected" + (f", e.g. {rejected[0]}" if rejected else "")
                bad = bad or bool(rejected)
            return bad, obs

        return thunk


class _Token:
    """a strategy built by a check's strategy function on top of `base` (None: from the dtype alone)"""

    __pyvc_symbolic__ = True

    def __init__(self, by, base):
        self.by, self.base = by, base

    def chain(self):
        out, t = [], self
        while isinstance(t, _Token):
            out.append(t.by)
            t = t.base
        return out


class _BuiltinDispatcher:
    """STRATEGY_DISPATCHER for built-in checks: register_builtin_check files their strategy under (name, every pandas data type)"""

    __pyvc_symbolic__ = True

    def get(self, key, default=None):
        name, dt = key
        return name.registered_fn if isinstance(name, CheckName) and name.registered_fn is not None else default


class DataFrameStrategyRowChecks(Contract):
    """dataframe_strategy with a dataframe-level check that has a strategy (every built-in check): hypothesis then draws the CELLS from
    the `rows=` strategy (`data_frames(columns=..., rows=...)`: the column strategies only name and type the columns).  "Generated data
    validates" therefore needs the row strategy of each column to honour that column's OWN checks as well:

        post.the_row_strategy_of_a_column_honours_the_columns_own_checks    the cell strategy of column a is built through the strategy
                                                                            of a's check AND of the dataframe-level check
    (column checks without a strategy are filtered on the assembled frame: DataFrameStrategyPipeline)."""

    target = f"{PS}:dataframe_strategy"
    check_frame = False
    sym_globals = {f"{PS}:STRATEGY_DISPATCHER": T.Lazy(lambda n: _BuiltinDispatcher())}

    def setup(self, I):
        install_common(I)
        call_objects_through_dunder_call(I)
        import hypothesis.extra.pandas as pdst
        import hypothesis.strategies as st

        def data_frames(I_, *a, columns=None, rows=None, index=None, **k):
            cur().ghost["rows"] = rows
            return FrameStrat(lambda: (Frame("assembled"), True), "data_frames(...)", op=None)

        I.models[id(pdst.data_frames)] = data_frames
        I.models[id(pdst.range_indexes)] = lambda I_, *a, **k: SAny(name="range_indexes")
        I.models[id(st.fixed_dictionaries)] = lambda I_, mapping, **k: mapping
        I.models[id(resolve_target(f"{PS}:null_dataframe_masks"))] = step("null_dataframe_masks")
        I.models[id(resolve_target(f"{PS}:set_pandas_index"))] = step("set_pandas_index")
        I.models[id(resolve_target(f"{PS}:pandas_dtype_strategy"))] = lambda I_, *a, **k: _Token("dtype", None)

    def make_args(self):
        p = cur()
        I = p.ghost["interp"]

        def strategy_of(name):
            def f(pandera_dtype, strategy=None, **stats):  # pragma: no cover - replaced by a model
                raise NotImplementedError

            I.models[id(f)] = lambda I_, pandera_dtype, strategy=None, **stats: _Token(name, strategy)
            return f

        def builtin_check(name):
            o = Obj(None, name, pre=True, fields={})
            o.attrs.update(strategy=None, name=CheckName(strategy_of(name)), element_wise=False, statistics=DictObj())
            o.attrs0.update(o.attrs)
            return o

        col = Obj(None, "column_a", pre=True, fields={"strategy_component": T.Callback(T.Any, raises=False)})
        col.attrs.update(regex=False, checks=ListObj([builtin_check("column_check")]), dtype="int64", nullable=False, name="a", unique=False)
        col.attrs0.update(col.attrs)
        cols = DictObj()
        dict.__setitem__(cols, "a", col)
        return {"pandera_dtype": None, "strategy": None, "columns": cols, "checks": ListObj([builtin_check("dataframe_check")]), "unique": None, "index": None,
                "size": T.fresh_value(T.Opt(T.Nat), "size"), "n_regex_columns": 1}

    def call_target(self, I, fn, a):
        return I.call(fn, [a["pandera_dtype"], a["strategy"]], {k: a[k] for k in ("columns", "checks", "unique", "index", "size", "n_regex_columns")})

    def ensures(self, result, old, **a):
        p = cur()
        out = {"returns_a_strategy": isinstance(result, StratVal)}
        if not isinstance(result, StratVal):
            return out
        result.draw()
        rows = p.ghost.get("rows")
        out["cells_are_drawn_from_a_row_strategy"] = isinstance(rows, dict) and "a" in rows
        if out["cells_are_drawn_from_a_row_strategy"]:
            chain = rows["a"].chain() if isinstance(rows["a"], _Token) else []
            core.register_model_var("strategies the cells of column a go through", lambda m, c=chain: c)
            out["the_row_strategy_honours_the_dataframe_level_check"] = "dataframe_check" in chain
            out["the_row_strategy_of_a_column_honours_the_columns_own_checks"] = "column_check" in chain
        return out

    def concretize(self, rec):
        def thunk():
            """a column check next to a dataframe-level built-in check: every example must validate"""
            import warnings

            import hypothesis
            import pandera as pa

            warnings.simplefilter("ignore")
            schema = pa.DataFrameSchema({"a": pa.Column(int, pa.Check.gt(0))}, checks=pa.Check.lt(100))
            rejected = []

            @hypothesis.settings(max_examples=60, derandomize=True, database=None, deadline=None, suppress_health_check=list(hypothesis.HealthCheck))
            @hypothesis.given(schema.strategy(size=3))
            def run(df):
                try:
                    schema.validate(df)
                except (pa.errors.SchemaError, pa.errors.SchemaErrors):
                    rejected.append(df["a"].tolist())

            run()
            return bool(rejected), {"Column(int, Check.gt(0)) under checks=Check.lt(100)": f"{len(rejected)} of the drawn frames rejected" + (f", e.g. a={rejected[0]}" if rejected else "")}

        return thunk


CONTRACTS = [DataFrameStrategyPipeline, DataFrameStrategyJointUnique, DataFrameStrategyRowChecks]
