"""C10 - coercion either yields conforming data or names exactly the uncoercible values (wrapper level).

Deductive core (what contracts on pandera's own code can decide):
  pandas / numpy engines
    DataType.try_coerce          returns coerce(c) when coerce returns; a ParserError of coerce is propagated unchanged; any other
                                 exception becomes a ParserError chained from it whose failure_cases are exactly what
                                 numpy_pandas_coerce_failure_cases(c, type) returns
    numpy_pandas_coercible       result[i] <=> coerce_value(c[i]) returns, or c[i] is missing and the type can hold a missing value (same rows)
    numpy_pandas_coerce_failure_cases (Series)
                                 reports exactly the rows flagged not coercible (a missing value only for a type that cannot hold one), None if none
    ArraySchemaBackend.coerce_dtype
                                 no dtype / coerce off -> the argument itself; ParserError -> SchemaError(DATATYPE_COERCION) with the
                                 SAME failure cases, chained
  polars engine
    polars_object_coercible      coercible[i] <=> the element is null (nulls stay null) or the non-strict cast keeps it
    polars_failure_cases_from_coercible
                                 exactly the rows whose flag is false, values kept
NOT decided here (library facts, bounded stand-in only): that for each registered dtype coerce(c) succeeds exactly when every
coerce_value(c[i]) does, that the result passes check, exact values, idempotence - these are statements about
pandas/numpy/polars casts.
"""
import z3

from pandera.errors import ParserError, SchemaError, SchemaErrorReason
from pyvc import core, types as T
from pyvc.core import And, Iff, Implies, Not, Or, PyExc, SAny, SBool, cur, py_eq
from pyvc.heap import ListObj, Obj
from pyvc.interp import OtherException
from pyvc.spec import Contract, resolve_target
from pyvc.theories import pandas_lite as PL
from pyvc.theories import polars_lite as PP
from pyvc.theories.pandas_lite import SeriesVal
from pyvc.values import SymCallable
from contracts.util import fld, fld0

FC = "pandera.engines.utils:numpy_pandas_coerce_failure_cases"


def _try_coerce(target, cls_path, type_arg, propagate_parser_error=True):
    class TC(Contract):
        raises = (ParserError,)

        def setup(self, I):
            PL.install(I)
            from pyvc.theories import dtype_lite

            dtype_lite.install(I)  # dataclass-generated __eq__ of DataType (C09 theory)
            fc = resolve_target(FC)

            def failure_cases(I, data_container, type_):
                cur().ghost["fc_call"] = (data_container, type_)
                r = SAny(name="failure_cases")
                cur().ghost["fc_result"] = r
                return r

            I.models[id(fc)] = failure_cases

        def make_args(self):
            mod, name = cls_path.split(":")
            cls = getattr(__import__(mod, fromlist=["x"]), name)
            me = T.Ref(cls, coerce=T.Callback(T.Any), type=T.Any).fresh("self")
            cb = fld(me, "coerce")
            cb.raise_classes = [OtherException, ParserError]
            return {"self": me, "data_container": SeriesVal.fresh("data_container", "real")}

        def call_target(self, I, fn, a):
            return I.call(fn, [a["self"], a["data_container"]], {})

        def ensures(self, result, old, self_, data_container):
            cb = fld0(self_, "coerce")
            return {"coerce_called_once_on_the_container": len(cb.calls) == 1 and cb.calls[0][0][0] is data_container,
                    "returns_what_coerce_returned": isinstance(result, SAny) and "fc_call" not in cur().ghost}

        def on_raise(self, exc, old, self_, data_container):
            p = cur()
            raised = [e for e in p.events if e[0] == "callback_raised"]
            out = {"only_after_coerce_raised": len(raised) == 1}
            if not raised:
                return out
            if raised[0][3] == "ParserError" and propagate_parser_error:
                out["parser_error_propagates_unchanged"] = exc.attrs.get("__from_callback__") is not None and "fc_call" not in p.ghost
            else:
                fc = p.ghost.get("fc_call")
                out["failure_cases_computed_for_this_container_and_type"] = fc is not None and fc[0] is data_container and (
                    fc[1] is self_ if type_arg == "self" else fc[1] is fld0(self_, "type"))
                out["carries_exactly_those_failure_cases"] = exc.attrs.get("failure_cases") is p.ghost.get("fc_result")
                cause = exc.attrs.get("__cause__")
                out["chained_from_the_original_error"] = isinstance(cause, Obj) and cause.attrs.get("__from_callback__") is not None
            return out

    TC.target = target
    TC.__name__ = "TryCoerce_" + cls_path.split(".")[-1].replace(":", "_")
    return TC


PandasTryCoerce = _try_coerce("pandera.engines.pandas_engine:DataType.try_coerce", "pandera.engines.pandas_engine:DataType", "self")
# (the numpy engine wraps a ParserError of coerce like any other exception: failure cases recomputed element-wise)
NumpyTryCoerce = _try_coerce("pandera.engines.numpy_engine:DataType.try_coerce", "pandera.engines.numpy_engine:DataType", "type", propagate_parser_error=False)


class OneMissingValue:
    """pd.Series([None], dtype=object): the probe series holding one missing value"""

    __pyvc_symbolic__ = True


class NullProbe:
    """data_type.coerce applied to the one-missing-value series: whether the type can HOLD a missing value is a fact about the type
    (one answer per type): it keeps it missing, turns it into a value (numpy bool: False), or refuses (numpy int64)."""

    __pyvc_symbolic__ = True

    def __init__(self):
        self.answer = None
        self.other_calls = 0

    def __call__(self, data):
        if not isinstance(data, OneMissingValue):
            self.other_calls += 1
            raise core.Unsupported("data_type.coerce of something other than the one-missing-value probe")
        if self.answer is None:
            self.answer = ["keeps_it_missing", "turns_it_into_a_value", "refuses"][cur().choose([("keeps_it_missing", None), ("turns_it_into_a_value", None), ("refuses", None)], "type coerces a missing value")]
        if self.answer == "refuses":
            I = cur().ghost["interp"]
            raise PyExc(I.make_exc(TypeError, "cannot convert a missing value"))
        return _Coerced(self.answer == "keeps_it_missing")


class _Coerced:
    __pyvc_symbolic__ = True

    def __init__(self, missing):
        self.missing_kept = missing

    def isna(self):
        return self

    def all(self):
        return self.missing_kept


class Coercible(Contract):
    """numpy_pandas_coercible: element-wise.  C10: "fails with a parser error whose failure cases are exactly the input elements that
    cannot be converted individually ... nulls stay null where the type can represent them":
        result[i]  <=>  coerce_value(series[i]) returns,  or  element i is the missing value and the type can hold a missing value."""

    target = "pandera.engines.utils:numpy_pandas_coercible"
    raises = (TypeError,)

    def setup(self, I):
        PL.install(I)
        from pandera.engines import pandas_engine

        def dtype_model(I, cls, x):
            dt = T.Ref(None, coerce_value=T.Callback(T.Any)).fresh("data_type")
            probe = NullProbe()
            dt.attrs["coerce"] = probe
            dt.attrs0["coerce"] = probe
            cur().ghost["dt"] = dt
            cur().ghost["null_probe"] = probe
            return dt

        import pandas as pd

        orig_series = I.models.get(id(pd.Series))

        def series_ctor(I_, data=None, *a, **kw):
            if isinstance(data, (list, ListObj)) and len(data) == 1 and data[0] is None:
                return OneMissingValue()
            return orig_series(I_, data, *a, **kw)

        I.models[id(pd.Series)] = series_ctor

        f = pandas_engine.Engine.__dict__["dtype"]
        I.models[id(f.__func__)] = dtype_model

    def make_args(self):
        return {"series": SeriesVal.fresh("series", "real"), "type_": T.fresh_value(T.Any, "type_")}

    def ensures(self, result, old, series, type_):
        out = {"same_rows": isinstance(result, SeriesVal) and result.space is series.space and result._sel is series._sel}
        if not out["same_rows"]:
            return out
        dt = cur().ghost["dt"]
        cb = fld(dt, "coerce_value")
        cb.raise_classes = [OtherException, ValueError, TypeError]
        i = z3.Int(cur().fresh_name("row"))
        n0 = len(cb.calls)
        nraised0 = len([e for e in cur().events if e[0] == "callback_raised"])
        try:
            v = result.at(i)  # forces coerce_value(series[i]); forks on its outcome
        except PyExc as e:
            out["a_failing_coerce_value_never_escapes"] = False
            return out
        raised = len([e for e in cur().events if e[0] == "callback_raised"]) > nraised0
        out["coerce_value_applied_to_the_element"] = len(cb.calls) == n0 + 1 and bool(
            z3.is_true(z3.simplify(core.as_z3_bool(py_eq(cb.calls[-1][0][0], series.at(i))))))
        probe = cur().ghost["null_probe"]
        holds_missing = probe.answer == "keeps_it_missing"
        flag = v if isinstance(v, SBool) else SBool(z3.BoolVal(bool(v)))
        if not raised:
            out["an_element_that_converts_is_coercible"] = flag
        else:
            # the element does not convert by itself: coercible exactly when it is the missing value and the type can hold one
            missing = SBool(series.null(i))
            if probe.answer is None:
                # the type was never asked: only sound when the element is not the missing value
                out["a_missing_element_is_coercible_iff_the_type_can_hold_a_missing_value"] = And(Not(flag), Not(missing))
            else:
                out["a_missing_element_is_coercible_iff_the_type_can_hold_a_missing_value"] = Iff(flag, And(missing, holds_missing))
        return out


def _coercible_replay(self, rec):
    def thunk():
        """a missing value next to an uncoercible one, for types that can hold a missing value and for one that cannot"""
        import warnings

        import pandas as pd
        import pandera as pa
        from pandera.engines import pandas_engine as pe

        warnings.simplefilter("ignore")
        obs, bad = {}, False
        cases = (("Int64", ["1", None, "x"], ["x"]), ("boolean", [True, None, "x"], ["x"]), (pd.CategoricalDtype(["a", "b"]), ["a", None, "x"], ["x"]),
                 ("float64", ["1", None, "x"], ["x"]), ("int64", ["1", None, "x"], [None, "x"]))
        for dtype, data, want in cases:
            try:
                pe.Engine.dtype(dtype).try_coerce(pd.Series(data, dtype=object))
                got = "coerced"
            except pa.errors.ParserError as e:
                got = e.failure_cases["failure_case"].tolist()
            if got != want:
                bad = True
                obs[f"try_coerce({data}) to {dtype}: failure cases"] = f"{got}, expected {want}"
        return bad, obs or "a missing value is a failure case only for types that cannot hold one"

    return thunk


Coercible.concretize = _coercible_replay


def _coercible_standin(seed=0, tier="quick"):
    """run-time contract on the REAL numpy_pandas_coercible (used when the function leaves the subset): for object series over a pool
    that contains values which compare equal but are of different type (True / 1 / 1.0 / Decimal(1), False / 0 / 0.0), in every
    order, result[i] <=> data_type.coerce_value(series[i]) does not raise - per POSITION, not per distinct value."""
    import decimal
    import itertools
    import random
    import warnings

    import pandas as pd

    from pandera.engines import pandas_engine
    from pandera.engines.utils import numpy_pandas_coercible

    warnings.simplefilter("ignore")
    rng = random.Random(seed)
    pool = [True, 1, 1.0, decimal.Decimal(1), False, 0, 0.0, "1", "a", "2020-01-01", pd.Timestamp("2020-01-01"), None, float("nan"), 2, -1, 1.5]
    types = [("DateTime", pandas_engine.DateTime()), ("Date", pandas_engine.Date()), ("Decimal", pandas_engine.Decimal(10, 2)), ("INT64", pandas_engine.INT64()),
             ("BOOL", pandas_engine.BOOL()), ("STRING", pandas_engine.NpString()), ("Timedelta", pandas_engine.Engine.dtype("timedelta64[ns]"))]
    cases = [list(p) for p in itertools.permutations(pool[:8], 2)]
    for _ in range(60 if tier == "quick" else 600):
        cases.append([rng.choice(pool) for _ in range(rng.randint(0, 5))])
    examples = 0
    for name, dt in types:
        for vals in cases:
            s = pd.Series(vals, dtype=object)
            examples += 1

            def ok(x):
                try:
                    dt.coerce_value(x)
                    return True
                except Exception:  # noqa: BLE001
                    return False

            def holds_missing():
                try:
                    return bool(dt.coerce(pd.Series([None], dtype=object)).isna().all())
                except Exception:  # noqa: BLE001
                    return False

            def is_missing(x):
                m = pd.isna(x)
                return isinstance(m, bool) and m

            want = [ok(x) or (is_missing(x) and holds_missing()) for x in vals]
            try:
                got = [bool(b) for b in numpy_pandas_coercible(s, dt)]
            except Exception as e:  # noqa: BLE001
                return {"examples": examples, "bound": "object series <= 5 over a 16-value pool incl. ==-equal values of different type, 7 data types",
                        "failing_input": {"dtype": name, "values": [repr(v) for v in vals]}, "observed": f"raised {type(e).__name__}: {e}"}
            if got != want:
                return {"examples": examples, "bound": "object series <= 5 over a 16-value pool incl. ==-equal values of different type, 7 data types",
                        "failing_input": {"dtype": name, "values": [repr(v) for v in vals]},
                        "observed": {"coercible flags": got, "coerce_value succeeds per element": want}}
    return {"examples": examples, "bound": "object series <= 5 over a 16-value pool incl. ==-equal values of different type, 7 data types", "failing_input": None}


Coercible.bounded_standin = staticmethod(_coercible_standin)


class ArrayCoerceDtype(Contract):
    """ArraySchemaBackend.coerce_dtype: schema-level use of try_coerce."""

    target = "pandera.backends.pandas.array:ArraySchemaBackend.coerce_dtype"
    raises = (SchemaError, AssertionError)

    def setup(self, I):
        PL.install(I)

    def make_args(self):
        dt = T.Ref(None, try_coerce=T.Callback(T.Any)).fresh("dtype")
        fld(dt, "try_coerce").raise_classes = [ParserError]
        schema = T.Ref(None, coerce=T.Bool, name=T.Opt(T.Label)).fresh("schema")
        k = cur().choose([("dtype", None), ("no_dtype", None)], "schema.dtype")
        schema.attrs["dtype"] = dt if k == 0 else None
        schema.attrs0["dtype"] = schema.attrs["dtype"]
        return {"self": T.Ref(None).fresh("self"), "check_obj": SeriesVal.fresh("check_obj", "real"), "schema": schema}

    def call_target(self, I, fn, a):
        return I.call(fn, [a["self"], a["check_obj"]], {"schema": a["schema"]})

    def ensures(self, result, old, self_, check_obj, schema):
        dt = fld0(schema, "dtype")
        co = fld0(schema, "coerce")
        if dt is None or (co is not True and not cur().decide(co, "schema.coerce")):
            return {"no_coercion_requested_returns_argument": result is check_obj}
        cb = fld0(dt, "try_coerce")
        return {"coerced_with_the_schema_dtype": len(cb.calls) == 1 and cb.calls[0][0][0] is check_obj, "returns_coerced_object": isinstance(result, SAny)}

    def on_raise(self, exc, old, self_, check_obj, schema):
        if exc.cls is AssertionError:
            return {"assertion_only_without_schema": False}
        dt = fld0(schema, "dtype")
        raised = [o for o in cur().objects if o.cls is ParserError]
        out = {"only_after_a_parser_error": len(raised) == 1}
        if raised:
            pe = raised[0]
            out["reason_is_datatype_coercion"] = exc.attrs.get("reason_code") is SchemaErrorReason.DATATYPE_COERCION
            out["same_failure_cases"] = exc.attrs.get("failure_cases") is fld(pe, "failure_cases")
            out["chained"] = exc.attrs.get("__cause__") is pe
            out["names_schema_and_data"] = exc.attrs.get("schema") is schema and exc.attrs.get("data") is check_obj
        return out


# ---------------------------------------------------------------------------------------
# polars
# ---------------------------------------------------------------------------------------


def install_cast(I):
    """(kept for its callers) LazyFrame.cast / Expr.cast(strict=False) and pl.all_horizontal are part of the polars theory: a value that
    cannot be cast becomes null; `castable` is an uninterpreted predicate of the value (cur().ghost['castable'])."""


class PolarsCoercible(Contract):
    """polars_object_coercible: element i is coercible iff it is null (nulls stay null in every polars type) or the
    non-strict cast keeps it."""

    target = "pandera.engines.polars_engine:polars_object_coercible"
    check_frame = False
    # key given: that column; no key (a dataframe-level dtype): a row is coercible iff EVERY column's value is
    split = {"key": ["a", None]}

    def setup(self, I):
        PL.install(I)
        PP.install(I)

    def make_args(self):
        from pandera.api.polars.types import PolarsData

        lf = PP.FrameP.fresh("lf", columns=("a", "b"), kinds={"a": "real", "b": "real"})
        data = Obj(PolarsData, "data", pre=True)
        data.attrs.update(lazyframe=lf, key=self.fixed.get("key", "a"))
        data.attrs0.update(data.attrs)
        data.attrs["__fields__order"] = ("lazyframe", "key")
        cur().ghost["lf"] = lf
        return {"data_container": data, "type_": T.fresh_value(T.Any, "type_")}

    def ensures(self, result, old, data_container, type_):
        lf = cur().ghost["lf"]
        out = {"one_flag_column": isinstance(result, PP.FrameP) and list(result.cols) == ["check_output"] and result.space is lf.space}
        if not out["one_flag_column"]:
            return out
        c = result.cols["check_output"]
        castable = cur().ghost["castable"]
        i = z3.Int(cur().fresh_name("row"))
        core.register_model_var("row", i)
        names = ["a"] if self.fixed.get("key", "a") == "a" else ["a", "b"]
        want = z3.And(*[z3.Or(lf.cols[n].null(i), castable(PL._term(lf.cols[n].at(i)))) for n in names])
        out["flag_never_null"] = SBool(z3.Implies(lf.sel(i), z3.Not(c.null(i))))
        out["coercible_iff_null_or_castable"] = SBool(z3.Implies(lf.sel(i), core.as_z3_bool(c.at(i)) == want))
        return out

    def concretize(self, rec):
        def thunk():
            import polars as pl
            from pandera.engines import polars_engine as pe

            from pandera.api.polars.types import PolarsData

            mask = pe.polars_object_coercible(PolarsData(pl.LazyFrame({"a": ["1", None, "x"]}), "a"), pl.Int64).collect()["check_output"].to_list()
            if mask != [True, True, False]:
                # (the row mask is ParserError.parser_output -> SchemaError.check_output: drop_invalid_rows AND-folds it, a null entry
                # drops the row)
                return True, {"input": ["1", None, "x"], "polars_object_coercible(..., Int64)": mask, "expected": [True, True, False]}
            try:
                pe.Int64().try_coerce(pl.LazyFrame({"a": ["1", None, "x"]}))
                return False, "no error"
            except Exception as e:  # noqa
                fc = e.failure_cases["a"].to_list()
                return fc != ["x"], {"input": ["1", None, "x"], "failure_cases": fc, "expected": ["x"]}

        return thunk


class PolarsFailureCases(Contract):
    target = "pandera.engines.polars_engine:polars_failure_cases_from_coercible"
    check_frame = False

    def setup(self, I):
        PL.install(I)
        PP.install(I)

    def make_args(self):
        from contracts.C08_twin_checks import polars_data

        data, lf = polars_data("real")
        f = z3.Function(cur().fresh_name("flag"), z3.IntSort(), z3.BoolSort())
        flags = PP.FrameP(lf.space, {"check_output": PP.Col(lambda i: SBool(f(i)), lambda i: z3.BoolVal(False), "bool")}, kind="LazyFrame")
        cur().ghost.update(lf=lf, flag=f)
        return {"data_container": data, "is_coercible": flags}

    def ensures(self, result, old, data_container, is_coercible):
        lf, f = cur().ghost["lf"], cur().ghost["flag"]
        out = {"same_base": isinstance(result, PP.FrameP) and result.space is lf.space}
        if not out["same_base"]:
            return out
        i = z3.Int(cur().fresh_name("row"))
        out["exactly_the_rows_flagged_false"] = SBool(result.sel(i) == z3.And(lf.sel(i), z3.Not(f(i))))
        out["values_kept"] = "a" in result.cols and result.cols["a"] is lf.cols["a"]
        return out


CONTRACTS = [PandasTryCoerce, NumpyTryCoerce, Coercible, ArrayCoerceDtype, PolarsCoercible, PolarsFailureCases]


# ---------------------------------------------------------------------------------------
# bounded run-time contract on the REAL try_coerce of every registered coercible data type (never counted as proof):
# this is the part of C10 that is about pandas/numpy/polars casting itself
# ---------------------------------------------------------------------------------------


def bounded_try_coerce_all_registered_types(seed=0, tier="quick"):
    import random
    import warnings

    import numpy as np
    import pandas as pd
    import polars as pl

    from pandera.engines import pandas_engine, polars_engine

    warnings.simplefilter("ignore")
    rng = random.Random(seed)
    n_per_type = 40 if tier == "quick" else 400
    pool = [0, 1, -1, 2, 127, 1.5, -0.5, float("inf"), "1", "2.5", "a", "", True, False, None, float("nan"),
            pd.Timestamp("2020-01-01"), "2020-01-02", pd.Timedelta("1D")]
    examples = 0

    def is_null(x):
        try:
            return x is None or bool(pd.isna(x))
        except Exception:
            return False

    # ---- pandas engine
    pandas_types = []
    for name in ("INT64", "INT8", "UINT8", "FLOAT64", "FLOAT32", "BOOL", "STR", "Int64", "DateTime", "Timedelta"):
        t = getattr(pandas_engine, name, None)
        if t is not None:
            try:
                pandas_types.append((name, t() if isinstance(t, type) else t))
            except Exception:
                pass
    pandas_types.append(("Category[a,b]", pandas_engine.Category(categories=["a", "b"])))
    pandas_types.append(("Category[1,2]", pandas_engine.Category(categories=[1, 2])))
    pandas_types.append(("Decimal(3,2)", pandas_engine.Decimal(3, 2)))  # (negative values: the sign is not a digit of the precision)
    for name, dt in pandas_types:
        for _ in range(n_per_type):
            n = rng.randint(0, 5)
            vals = [rng.choice(pool + ["b", "a", 2, 1]) for _ in range(n)] if not name.startswith("Decimal") else [rng.choice(["-1.50", "1.5", "-0.25", 2, -3, "9.99", "-9.99", None]) for _ in range(n)]
            s = pd.Series(vals, dtype=object)
            examples += 1

            def elem_fails(x):
                try:
                    dt.coerce_value(x)
                    return False
                except Exception:
                    return True

            try:
                out = dt.try_coerce(s)
            except Exception as e:  # noqa
                if type(e).__name__ != "ParserError":
                    return {"examples": examples, "bound": "series <= 5 over a mixed pool", "failing_input": {"dtype": name, "values": [repr(v) for v in vals]},
                            "observed": f"try_coerce leaked {type(e).__name__}: {e}"}
                continue  # (that the reported failure cases equal the element-wise failures is proved for the wrapper; the element-wise
                # agreement of coerce and coerce_value is dtype specific and only spot-checked below for categories)
            # returned: same length and labels, type passes the data type's own check
            if len(out) != len(s) or not out.index.equals(s.index):
                return {"examples": examples, "bound": "series <= 5", "failing_input": {"dtype": name, "values": [repr(v) for v in vals]}, "observed": "length/labels changed"}
            try:
                ok = dt.check(pandas_engine.Engine.dtype(out.dtype), out)
                ok = bool(ok if isinstance(ok, bool) else np.all(ok))
            except Exception:
                ok = True
            if not ok:
                return {"examples": examples, "bound": "series <= 5", "failing_input": {"dtype": name, "values": [repr(v) for v in vals]},
                        "observed": f"coerced dtype {out.dtype} does not pass {name}.check"}
            if name.startswith("Category"):
                # a value outside the categories cannot be converted individually: it must not silently become null
                cats = list(dt.categories)
                lost = [repr(v) for v, o in zip(vals, out) if not is_null(v) and is_null(o) and v not in cats]
                if lost:
                    return {"examples": examples, "bound": "series <= 5", "failing_input": {"dtype": name, "values": [repr(v) for v in vals]},
                            "observed": f"out-of-category values {lost} silently became null instead of being reported as failure cases"}
    # ---- polars engine
    polars_types = [("Int64", polars_engine.Int64()), ("Float64", polars_engine.Float64()), ("String", polars_engine.String()),
                    ("Bool", polars_engine.Bool()), ("Decimal(10,2)", polars_engine.Decimal(10, 2))]
    str_pool = ["1", "2", "2.5", "abc", "", "1,5", None, "-3"]
    num_pool = [1, 2, -3, None, 1.5]
    for name, dt in polars_types:
        for _ in range(n_per_type):
            n = rng.randint(1, 5)
            use = str_pool if rng.random() < 0.6 else num_pool
            vals = [rng.choice(use) for _ in range(n)]
            try:
                lf = pl.LazyFrame({"a": vals})
            except Exception:
                continue
            examples += 1

            def single_fails(v):
                try:
                    dt.try_coerce(pl.LazyFrame({"a": [v]}, schema=lf.collect_schema())).collect()
                    return False
                except Exception:
                    return True

            want = [v for v in vals if v is not None and single_fails(v)]
            try:
                out = dt.try_coerce(lf).collect()["a"].to_list()
            except Exception as e:  # noqa
                if type(e).__name__ != "ParserError":
                    return {"examples": examples, "bound": "frames <= 5 rows", "failing_input": {"dtype": name, "values": vals}, "observed": f"leaked {type(e).__name__}: {e}"}
                got = e.failure_cases["a"].to_list() if "a" in e.failure_cases.columns else None
                # (null inputs reported by the all-rows fallback of polars_coerce_failure_cases are known finding
                #  C10-polars-fallback-lists-nulls; the main path is proved: PolarsCoercible)
                got = None if got is None else [g for g in got if g is not None]
                if got is not None and sorted(map(repr, got)) != sorted(map(repr, want)):
                    return {"examples": examples, "bound": "frames <= 5 rows", "failing_input": {"dtype": name, "values": vals},
                            "observed": {"failure_cases": got, "individually_uncoercible": want}}
                continue
            if want:
                return {"examples": examples, "bound": "frames <= 5 rows", "failing_input": {"dtype": name, "values": vals},
                        "observed": {"returned": out, "but_individually_uncoercible": want}}
            fabricated = [v for v, o in zip(vals, out) if v is not None and o is None]
            if fabricated:
                return {"examples": examples, "bound": "frames <= 5 rows", "failing_input": {"dtype": name, "values": vals},
                        "observed": {"returned": out, "non_null_inputs_that_became_null": fabricated}}
    return {"examples": examples, "bound": f"{n_per_type} containers per data type, length <= 5, mixed value pool; pandas: {len(pandas_types)} types, polars: {len(polars_types)} types",
            "failing_input": None}


BOUNDED = [bounded_try_coerce_all_registered_types]
