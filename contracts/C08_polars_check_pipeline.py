"""C08 / C01 / C19 (polars check back end): from `check(lazyframe, key)` to the CheckResult - the polars twin of C01_check_pipeline.

PolarsCheckBackend.__call__      post.pipeline: preprocess(check_obj, key) -> PolarsData(preprocessed, key) -> apply -> postprocess(data, output),
                                 each once; the result of the last returned
PolarsCheckBackend.preprocess    returns its argument (no polars check option pre-processes the frame)
PolarsCheckBackend.apply         vectorised: the check function is called exactly once on the PolarsData it is given (no verdict
                                 without calling it); a bool is returned as it is; a one-column output is renamed to CHECK_OUTPUT_KEY
                                 (same rows, same values); a multi-column output is AND-folded row by row into CHECK_OUTPUT_KEY
                                 element-wise: the function is mapped over the key column (`*` without a key), never called on the frame
PolarsCheckBackend.postprocess   dispatch: LazyFrame output -> postprocess_lazyframe_output, bool -> postprocess_bool_output, else TypeError
postprocess_bool_output          the verdict is the bool; no failure cases; the checked object is the data it was given
(postprocess_lazyframe_output: contracts/C11_polars_check_output.py)
"""
import z3

from pandera.api.base.checks import CheckResult
from pandera.api.polars.types import PolarsData
from pyvc import core, types as T
from pyvc.core import And, Iff, Implies, Not, Or, SAny, SBool, cur, py_eq
from pyvc.heap import Obj
from pyvc.interp import OtherException
from pyvc.spec import Contract
from pyvc.theories import pandas_lite as PL
from pyvc.theories import polars_lite as PP
from contracts.util import fld, fld0

CB = "pandera.backends.polars.checks:PolarsCheckBackend"
KEY = PP.CHECK_OUTPUT_KEY


def _backend(result_type=None, **check_fields):
    import pandera.backends.polars.checks as LC

    f = dict(ignore_na=T.Bool, element_wise=T.Bool, name=T.Any)
    f.update(check_fields)
    return T.Ref(LC.PolarsCheckBackend, check=T.Ref(None, **f), check_fn=T.Callback(result_type or T.Any))


def _recorder(I, names):
    import pandera.backends.polars.checks as LC

    for nm in names:
        def m(I, self_obj, *args, _nm=nm, **kw):
            tok = SAny(name=f"{_nm}.result")
            cur().ghost.setdefault("step_calls", []).append((_nm, self_obj, args, kw, tok))
            return tok

        I.models[id(getattr(LC.PolarsCheckBackend, nm))] = m


class PolarsBackendCall(Contract):
    target = f"{CB}.__call__"

    def setup(self, I):
        PL.install(I)
        PP.install(I)
        _recorder(I, ["preprocess", "apply", "postprocess"])

    def make_args(self):
        return {"self": _backend().fresh("self"), "check_obj": PP.FrameP.fresh("lf"), "key": T.fresh_value(T.Opt(T.Label), "key")}

    def call_target(self, I, fn, a):
        return I.call(fn, [a["self"], a["check_obj"], a["key"]], {})

    def ensures(self, result, old, self_, check_obj, key):
        calls = cur().ghost.get("step_calls", [])
        out = {"three_steps_in_order_each_once": [c[0] for c in calls] == ["preprocess", "apply", "postprocess"]}
        if not out["three_steps_in_order_each_once"]:
            return out
        pre, app, post = calls
        out["preprocess_gets_the_frame_and_the_key"] = len(pre[2]) == 2 and pre[2][0] is check_obj and pre[2][1] is key
        data = app[2][0] if len(app[2]) == 1 else None
        out["check_function_applied_to_the_preprocessed_frame_with_the_key"] = isinstance(data, Obj) and data.cls is PolarsData and fld(data, "lazyframe") is pre[4] and fld(data, "key") is key
        out["postprocess_gets_the_same_data_and_the_output"] = len(post[2]) == 2 and post[2][0] is data and post[2][1] is app[4]
        out["returns_the_postprocessed_result"] = result is post[4]
        return out


class PolarsPreprocess(Contract):
    target = f"{CB}.preprocess"

    def setup(self, I):
        PL.install(I)
        PP.install(I)

    def make_args(self):
        return {"self": _backend().fresh("self"), "check_obj": PP.FrameP.fresh("lf"), "key": T.fresh_value(T.Opt(T.Label), "key")}

    def call_target(self, I, fn, a):
        return I.call(fn, [a["self"], a["check_obj"], a["key"]], {})

    def ensures(self, result, old, self_, check_obj, key):
        return {"the_frame_is_checked_as_it_is": result is check_obj}


class PolarsApply(Contract):
    target = f"{CB}.apply"
    raises = (OtherException,)
    check_frame = False
    split = {"output": ["bool", "one_column", "two_columns"], "element_wise": [False, True], "key": ["none", "a"]}

    def setup(self, I):
        PL.install(I)
        PP.install(I)
        import pandera.api.polars.utils as PU
        import pandera.backends.polars.checks as LC

        for mod in (PU, LC):
            if hasattr(mod, "get_lazyframe_column_names"):
                I.models[id(mod.get_lazyframe_column_names)] = lambda I_, lf: list(lf.cols)
            if hasattr(mod, "get_lazyframe_schema"):
                I.models[id(mod.get_lazyframe_schema)] = lambda I_, lf: lf.collect_schema()

    def make_args(self):
        lf = PP.FrameP.fresh("lf", columns=("a", "b"), kinds={"a": "real", "b": "real"})
        how = self.fixed.get("output", "one_column")
        ew = self.fixed.get("element_wise", False)
        if ew:
            res = T.Bool  # the element function answers per value
        elif how == "bool":
            res = T.Lazy(lambda n: T.fresh_value(T.Bool, n))
        else:
            names = ("x",) if how == "one_column" else ("x", "y")

            def out(n):
                raw = PP.FrameP.fresh("out", columns=names, kinds={c: "bool" for c in names})
                o = PP.FrameP(lf.space, raw.cols, kind="LazyFrame", name="check_fn_output")  # one output row per data row
                cur().ghost["fn_output"] = o
                return o

            res = T.Lazy(out)
        be = _backend(res, element_wise=T.Const(ew)).fresh("self")
        if ew:
            # as the back end builds it: check_fn = partial(the user's function, **the keyword arguments given to the Check)
            from pyvc.interp import PartialVal

            user_fn = fld0(be, "check_fn")
            kw = SAny(name="check_kwargs.lo")
            be.attrs["check_fn"] = be.attrs0["check_fn"] = PartialVal(user_fn, (), {"lo": kw})
            cur().ghost.update(user_fn=user_fn, check_kw=kw)
        key = None if self.fixed.get("key", "none") == "none" else "a"
        data = Obj(PolarsData, "data", pre=True)
        data.attrs.update(lazyframe=lf, key=key)
        data.attrs0.update(data.attrs)
        data.attrs["__fields__order"] = ("lazyframe", "key")
        cur().ghost["lf"] = lf
        return {"self": be, "check_obj": data}

    def requires(self, self_, check_obj):
        # element-wise checks over every column (`*`) leave the theory (multi-column selector with map_elements + select): bounded below
        return True

    def call_target(self, I, fn, a):
        return I.call(fn, [a["self"], a["check_obj"]], {})

    def ensures(self, result, old, self_, check_obj):
        lf = cur().ghost["lf"]
        cb = cur().ghost["user_fn"] if self.fixed.get("element_wise", False) else fld0(self_, "check_fn")
        how = self.fixed.get("output", "one_column")
        out = {}
        i = z3.Int(cur().fresh_name("row"))
        core.register_model_var("row", i)
        if self.fixed.get("element_wise", False):
            out["never_called_on_the_whole_frame"] = all(not (len(c[0]) == 1 and c[0][0] is check_obj) for c in cb.calls)
            ok = isinstance(result, PP.FrameP) and list(result.cols) == [KEY] and result.space is lf.space
            out["one_output_column_over_the_data_rows"] = ok
            if ok and fld0(check_obj, "key") == "a":
                n0 = len(cb.calls)
                cb.raises = False
                result.cols[KEY].at(i)  # forces f(value at row i)
                a = lf.cols["a"]
                out["element_is_f_of_the_key_columns_element"] = len(cb.calls) == n0 + 1 and len(cb.calls[-1][0]) == 1 and bool(z3.is_true(z3.simplify(core.as_z3_bool(py_eq(cb.calls[-1][0][0], a.at(i))))))
                # "element_wise=True equals the vectorised map of the function" - of the function WITH the keyword arguments of the Check
                out["with_the_keyword_arguments_given_to_the_check"] = len(cb.calls) == n0 + 1 and dict(cb.calls[-1][1]) == {"lo": cur().ghost["check_kw"]}
            return out
        out["check_function_called_once_on_the_data"] = len(cb.calls) == 1 and len(cb.calls[0][0]) == 1 and cb.calls[0][0][0] is check_obj and not cb.calls[0][1]
        if how == "bool":
            out["bool_output_returned_as_it_is"] = isinstance(result, (bool, SBool))
            return out
        fo = cur().ghost.get("fn_output")
        ok = isinstance(result, PP.FrameP) and list(result.cols) == [KEY] and fo is not None and result.space is fo.space
        out["one_output_column_over_the_functions_rows"] = ok
        if not ok:
            return out
        out["same_rows"] = SBool(result.sel(i) == fo.sel(i))
        r = result.cols[KEY]
        if how == "one_column":
            x = fo.cols["x"]
            out["single_column_renamed_values_kept"] = SBool(z3.Implies(fo.sel(i), z3.And(r.null(i) == x.null(i), z3.Implies(z3.Not(x.null(i)), core.as_z3_bool(r.at(i)) == core.as_z3_bool(x.at(i))))))
        else:
            x, y = fo.cols["x"], fo.cols["y"]
            both = z3.And(z3.Not(x.null(i)), z3.Not(y.null(i)))
            out["several_columns_are_anded_row_by_row"] = SBool(z3.Implies(z3.And(fo.sel(i), both), z3.And(z3.Not(r.null(i)), core.as_z3_bool(r.at(i)) == z3.And(core.as_z3_bool(x.at(i)), core.as_z3_bool(y.at(i))))))
            # a definite False in any column makes the row False whatever the other column holds (Kleene and)
            deff = z3.Or(z3.And(z3.Not(x.null(i)), z3.Not(core.as_z3_bool(x.at(i)))), z3.And(z3.Not(y.null(i)), z3.Not(core.as_z3_bool(y.at(i)))))
            out["a_false_cell_makes_the_row_false"] = SBool(z3.Implies(z3.And(fo.sel(i), deff), z3.And(z3.Not(r.null(i)), z3.Not(core.as_z3_bool(r.at(i))))))
        return out

    def on_raise(self, exc, old, self_, check_obj):
        return {"only_the_check_function_raises": exc.attrs.get("__from_callback__") is not None}


def _apply_standin(seed=0, tier="quick"):
    """run-time contract on the real apply: the output column equals the check function's own answer, row by row - vectorised (one / two
    output columns, bool) and element-wise, with and without a key, over 0-3 rows incl. nulls"""
    import itertools
    import warnings

    import polars as pl
    import pandera as pa
    from pandera.api.polars.types import PolarsData
    from pandera.backends.polars.checks import PolarsCheckBackend

    warnings.simplefilter("ignore")
    n = 0
    bound = "frames of 0-3 rows over a in {1,-1,null}, b = 5; vectorised (1 col / 2 cols / bool) and element-wise checks; key in {None,'a'}"
    for h in range(0, 4):
        for rows in itertools.product([1, -1, None], repeat=h):
            lf = pl.LazyFrame({"a": list(rows), "b": [5] * h}, schema={"a": pl.Int64, "b": pl.Int64})
            want_a = [None if v is None else v > 0 for v in rows]
            cases = [
                ("one column", "a", pa.Check(lambda d: d.lazyframe.select(pl.col(d.key) > 0)), want_a),
                ("two columns", None, pa.Check(lambda d: d.lazyframe.select((pl.col("a") > 0).alias("x"), (pl.col("b") > 0).alias("y"))), want_a),
                ("bool", None, pa.Check(lambda d: True), True),
                ("element-wise", "a", pa.Check(lambda v: v > 0, element_wise=True), want_a),
            ]
            for name, key, chk, want in cases:
                n += 1
                out = PolarsCheckBackend(chk).apply(PolarsData(lf, key))
                got = out if isinstance(out, bool) else out.collect().get_column(KEY).to_list()
                if got != want:
                    return {"examples": n, "bound": bound, "failing_input": {"a": list(rows), "check": name, "key": key}, "observed": {"output": got, "expected": want}}
    return {"examples": n, "bound": bound, "failing_input": None}


PolarsApply.bounded_standin = staticmethod(_apply_standin)


def _apply_replay(self, rec):
    def thunk():
        """an element-wise check whose function takes keyword arguments from the Check: the same verdicts as the plain map of the function"""
        import warnings

        import polars as pl
        import pandera as pa
        import pandera.polars as pp

        warnings.simplefilter("ignore")
        obs, bad = {}, False

        def above(v, lo=0):
            return v > lo

        data = [1, 2, 3]
        want = [above(v, lo=2) for v in data]
        res = pa.Check(above, element_wise=True, lo=2)(pl.LazyFrame({"a": data}), "a")
        got = res.check_output.collect().get_column(KEY).to_list()
        if got != want:
            bad = True
            obs["Check(above, element_wise=True, lo=2) on a=[1,2,3]: check output"] = f"{got}, expected {want}"
        try:
            pp.DataFrameSchema({"a": pp.Column(int, pa.Check(above, element_wise=True, lo=2))}).validate(pl.DataFrame({"a": data}))
            bad = True
            obs["schema with that check on a=[1,2,3]"] = "accepted, expected a SchemaError (1 and 2 are not above 2)"
        except (pa.errors.SchemaError, pa.errors.SchemaErrors):
            pass
        return bad, obs or "element-wise checks are evaluated with the keyword arguments of the Check"

    return thunk


PolarsApply.concretize = _apply_replay


class PolarsPostprocessDispatch(Contract):
    target = f"{CB}.postprocess"
    raises = (TypeError,)
    split = {"out": ["LazyFrame", "bool", "other"]}

    def setup(self, I):
        PL.install(I)
        PP.install(I)
        _recorder(I, ["postprocess_lazyframe_output", "postprocess_bool_output"])

    def make_args(self):
        data = Obj(PolarsData, "data", pre=True)
        data.attrs.update(lazyframe=PP.FrameP.fresh("lf"), key=None)
        data.attrs0.update(data.attrs)
        how = self.fixed.get("out", "LazyFrame")
        out = PP.FrameP.fresh("check_output", columns=(KEY,), kinds={KEY: "bool"}) if how == "LazyFrame" else (T.fresh_value(T.Bool, "check_output") if how == "bool" else 5)
        return {"self": _backend().fresh("self"), "check_obj": data, "check_output": out}

    def call_target(self, I, fn, a):
        return I.call(fn, [a["self"], a["check_obj"], a["check_output"]], {})

    def ensures(self, result, old, self_, check_obj, check_output):
        calls = cur().ghost.get("step_calls", [])
        want = {"LazyFrame": "postprocess_lazyframe_output", "bool": "postprocess_bool_output"}.get(self.fixed.get("out", "LazyFrame"))
        out = {"unknown_output_kinds_are_refused": want is not None}
        if want is None:
            return out
        out["exactly_the_postprocessor_of_the_output_kind"] = len(calls) == 1 and calls[0][0] == want
        if len(calls) == 1:
            out["on_the_data_and_output_given"] = len(calls[0][2]) == 2 and calls[0][2][0] is check_obj and calls[0][2][1] is check_output
            out["its_result_returned"] = result is calls[0][4]
        return out

    def on_raise(self, exc, old, self_, check_obj, check_output):
        if exc.cls is not TypeError:
            return {}
        return {"type_error_only_for_unknown_output_kinds": self.fixed.get("out") == "other" and not cur().ghost.get("step_calls")}


class PolarsPostprocessBool(Contract):
    target = f"{CB}.postprocess_bool_output"
    check_frame = False

    def setup(self, I):
        PL.install(I)
        PP.install(I)

    def make_args(self):
        data = Obj(PolarsData, "data", pre=True)
        data.attrs.update(lazyframe=PP.FrameP.fresh("lf"), key=None)
        data.attrs0.update(data.attrs)
        return {"self": _backend().fresh("self"), "check_obj": data, "check_output": T.fresh_value(T.Bool, "check_output")}

    def call_target(self, I, fn, a):
        return I.call(fn, [a["self"], a["check_obj"], a["check_output"]], {})

    def ensures(self, result, old, self_, check_obj, check_output):
        passed = result.attrs["check_passed"]
        out = {"is_check_result": isinstance(result, Obj) and result.cls is CheckResult, "no_failure_cases": result.attrs["failure_cases"] is None,
               "checked_object_is_the_data": result.attrs["checked_object"] is check_obj}
        ok = isinstance(passed, PP.FrameP) and list(passed.cols) == [KEY]
        out["verdict_is_a_one_cell_frame"] = ok
        if ok:
            out["verdict_is_the_bool"] = Iff(passed.item(), check_output)
        return out


CONTRACTS = [PolarsBackendCall, PolarsPreprocess, PolarsApply, PolarsPostprocessDispatch, PolarsPostprocessBool]
