"""C19 - check options do only what they document.

Functions under contract: the 7 alias constructors of Check; PandasCheckBackend.preprocess_field /
apply_field / postprocess_field / _get_series_failure_cases / postprocess_bool /
postprocess_table_or_field_with_bool_output; PandasSchemaBackend.run_check.
"""
import z3

from pandera.api.base.checks import CheckResult
from pandera.backends.base import CoreCheckResult
from pandera.errors import SchemaErrorReason, SchemaWarning
from pyvc import core, types as T
from pyvc.core import And, Iff, Implies, Not, Or, SAny, SBool, cur, ite, py_eq
from pyvc.heap import Obj
from pyvc.interp import OpaqueStar, OtherException
from pyvc.spec import Contract
from pyvc.theories import pandas_lite as PL
from pyvc.theories.pandas_lite import SeriesVal
from pyvc.values import SymCallable
from contracts.util import fld, fld0

CHECK = "pandera.api.checks:Check"
CB = "pandera.backends.pandas.checks:PandasCheckBackend"

CANON = ["equal_to", "not_equal_to", "greater_than", "greater_than_or_equal_to", "less_than", "less_than_or_equal_to", "in_range"]


def _alias(alias, canonical, argnames):
    class A(Contract):
        """Check.<alias>(args, **kw) == Check.<canonical>(args, **kw): the body is exactly one call of the
        canonical constructor with the same positional arguments in the same order and the same keywords."""

        target = f"{CHECK}.{alias}"
        params = {"cls": T.Ref(None, strict=True, **{c: T.Callback(T.Any) for c in CANON}), **{a: T.Any for a in argnames}}
        raises = (OtherException,)
        check_frame = True

        def call_target(self, I, fn, args):
            pos = [args["cls"]] + [args[a] for a in argnames]
            return I.call(fn, pos, {"**opaque": OpaqueStar("kwargs", "kwargs")})

        def _calls(self, cls):
            out = []
            for c in CANON:
                cb = cls.attrs.get(c)
                if isinstance(cb, SymCallable):
                    out += [(c, call) for call in cb.calls]
            return out

        def ensures(self, result, old, cls, **a):
            calls = self._calls(cls)
            out = {"exactly_one_constructor_call": len(calls) == 1}
            if len(calls) == 1:
                name, (pargs, kw) = calls[0]
                out["calls_canonical"] = name == canonical
                out["same_positional_arguments_in_order"] = len(pargs) == len(argnames) and all(x is a[n] for x, n in zip(pargs, argnames))
                out["forwards_keywords"] = set(kw) == {"**opaque"} and getattr(kw.get("**opaque"), "name", None) == "kwargs"
                out["returns_canonical_result"] = isinstance(result, SAny) and any(
                    e[0] == "callback" and e[1].endswith(canonical) for e in cur().events)
            return out

        def on_raise(self, exc, old, cls, **a):
            calls = self._calls(cls)
            return {"propagates_only_canonical_error": len(calls) == 1 and calls[0][0] == canonical and exc.attrs.get("__from_callback__") is not None}

    A.__name__ = f"Alias_{alias}"
    return A


ALIASES = [
    _alias("eq", "equal_to", ["value"]), _alias("ne", "not_equal_to", ["value"]),
    _alias("gt", "greater_than", ["min_value"]), _alias("ge", "greater_than_or_equal_to", ["min_value"]),
    _alias("lt", "less_than", ["max_value"]), _alias("le", "less_than_or_equal_to", ["max_value"]),
    _alias("between", "in_range", ["min_value", "max_value", "include_min", "include_max"]),
]


# ---------------------------------------------------------------------------------------
# check back end
# ---------------------------------------------------------------------------------------


def check_ref(**over):
    f = dict(groupby=T.Const(None), groups=T.Const(None), ignore_na=T.Bool, element_wise=T.Bool,
             n_failure_cases=T.Opt(T.Nat), raise_warning=T.Bool, name=T.Any)
    f.update(over)
    from pandera.api.checks import Check

    return T.Ref(Check, **f)  # the real class: methods such as is_builtin_check are read from the live source


def backend(**over):
    import pandera.backends.pandas.checks as C

    return T.Ref(C.PandasCheckBackend, check=check_ref(**over), check_fn=T.Callback(T.Lazy(lambda n: SeriesVal.fresh(n, "bool", nullable=False))))


def Series(kind="real", nullable=True):
    return T.Lazy(lambda name: SeriesVal.fresh(name, kind, nullable=nullable))


class PreprocessField(Contract):
    """ignore_na=True: the check function never sees a null (nulls are dropped, other rows kept unchanged, in
    order); ignore_na=False: it sees the original object."""

    target = f"{CB}.preprocess_field"
    params = dict(self=backend(), check_obj=Series())

    def setup(self, I):
        PL.install(I)

    def call_target(self, I, fn, args):
        return I.call(fn, [args["self"], args["check_obj"]], {})

    def ensures(self, result, old, self_, check_obj):
        ign = fld0(fld0(self_, "check"), "ignore_na")
        i = z3.Int(cur().fresh_name("row"))
        out = {"is_series_view": isinstance(result, SeriesVal) and result.space is check_obj.space}
        if not out["is_series_view"]:
            return out
        keep = z3.If(core.as_z3_bool(ign), z3.And(check_obj.sel(i), z3.Not(check_obj.null(i))), check_obj.sel(i))
        out["rows"] = SBool(result.sel(i) == keep)
        out["values_unchanged"] = SBool(z3.Implies(result.sel(i), core.as_z3_bool(py_eq(result.at(i), check_obj.at(i)))))
        out["no_null_shown_when_ignore_na"] = SBool(z3.Implies(z3.And(core.as_z3_bool(ign), result.sel(i)), z3.Not(result.null(i))))
        return out

    def concretize(self, rec):
        def thunk():
            """a null and a violating value on rows that carry the SAME index label: the violating row is still checked"""
            import warnings

            import numpy as np
            import pandas as pd
            import pandera as pa

            warnings.simplefilter("ignore")
            obs, bad = {}, False
            for label, index in (("repeated labels", [0, 0, 1]), ("unique labels", [0, 1, 2])):
                s = pd.Series([np.nan, -5.0, 3.0], index=index)
                seen = pa.Check.gt(0)._backend if False else None
                from pandera.backends.pandas.checks import PandasCheckBackend

                got = PandasCheckBackend(pa.Check.gt(0)).preprocess_field(s).tolist()
                try:
                    pa.SeriesSchema(float, pa.Check.gt(0), nullable=True).validate(s)
                    verdict = "accepted"
                except pa.errors.SchemaError:
                    verdict = "rejected"
                obs[label] = {"check function sees": got, "verdict on [nan, -5, 3]": verdict}
                bad = bad or got != [-5.0, 3.0] or verdict != "rejected"
            return bad, obs

        return thunk


class ApplyField(Contract):
    """element_wise=True  <=>  the vectorised check `lambda s: s.map(f)`;  otherwise f(series) itself."""

    target = f"{CB}.apply_field"
    params = dict(self=T.Lazy(lambda n: backend().fresh(n)), check_obj=Series())
    raises = (OtherException,)

    def setup(self, I):
        PL.install(I)

    def make_args(self):
        import pandera.backends.pandas.checks as C

        be = T.Ref(C.PandasCheckBackend, check=check_ref(), check_fn=T.Callback(T.Bool)).fresh("self")
        return {"self": be, "check_obj": SeriesVal.fresh("check_obj", "real")}

    def call_target(self, I, fn, args):
        return I.call(fn, [args["self"], args["check_obj"]], {})

    def ensures(self, result, old, self_, check_obj):
        ew = fld0(fld0(self_, "check"), "element_wise")
        cb = fld0(self_, "check_fn")
        if ew is True or (not isinstance(ew, bool) and cur().decide(ew, "element_wise")):
            out = {"maps_over_rows": isinstance(result, SeriesVal) and result.space is check_obj.space and result._sel is check_obj._sel}
            if out["maps_over_rows"]:
                i = z3.Int(cur().fresh_name("row"))
                n0 = len(cb.calls)
                cb.raises = False
                v = result.at(i)  # forces f(check_obj[i])
                out["element_is_f_of_element"] = len(cb.calls) == n0 + 1 and cb.calls[-1][0][0] is not None and \
                    core.as_z3_bool(py_eq(cb.calls[-1][0][0], check_obj.at(i))) is not None and \
                    bool(z3.is_true(z3.simplify(core.as_z3_bool(py_eq(cb.calls[-1][0][0], check_obj.at(i))))))
                out["not_called_on_whole_series"] = n0 == 0
            return out
        return {"vectorised_call_on_the_object": len(cb.calls) == 1 and cb.calls[0][0][0] is check_obj}

    def on_raise(self, exc, old, self_, check_obj):
        return {"only_the_check_function_raises": exc.attrs.get("__from_callback__") is not None}

    def concretize(self, rec):
        def thunk():
            """element_wise=True must give the verdict and failure cases of the vectorised check `lambda s: s.map(f)`"""
            import numpy as np
            import pandas as pd
            import pandera as pa

            seen = []

            def f(x):
                seen.append(x)
                return x > 0

            bad, obs = False, {}
            for data in ([1.0, np.nan], [1.0, 2.0], [np.nan, -1.0]):
                for ign in (False, True):
                    s = pd.Series(data)
                    out = []
                    for chk in (pa.Check(f, element_wise=True, ignore_na=ign), pa.Check(lambda s: s.map(f), ignore_na=ign)):
                        try:
                            pa.SeriesSchema(float, chk, nullable=True).validate(s)
                            out.append("accept")
                        except pa.errors.SchemaError as e:
                            out.append("reject:" + str(sorted(map(str, e.failure_cases["failure_case"]))))
                    if out[0] != out[1]:
                        bad = True
                        obs[f"data={data} ignore_na={ign}"] = {"element_wise": out[0], "vectorised s.map(f)": out[1]}
            return bad, obs or "element-wise and vectorised verdicts agree on the probe series"

        return thunk


class GroupHead:
    """failure_cases.groupby(check_output).head(n): keeps at most n rows per group - a sub-view (axiom)."""


def install_groupby_head(I):
    # Series.groupby(mask).head(n): a sub-selection of the view.  A Series used as the grouper is ALIGNED on the labels of the grouped
    # object (pandas reindexes it): with repeated labels in the grouper's index that raises ValueError("cannot reindex on an axis with
    # duplicate labels").
    def groupby(self, by=None, **kw):
        if isinstance(by, SeriesVal):
            i, j = z3.Int(cur().fresh_name("i")), z3.Int(cur().fresh_name("j"))
            dup = SBool(z3.Exists([i, j], z3.And(by.sel(i), by.sel(j), i < j, by.label(i) == by.label(j))))
            if cur().decide(dup, "grouper index has repeated labels"):
                I.raise_py(ValueError, "cannot reindex on an axis with duplicate labels")
        return _GB(self)

    SeriesVal.groupby = groupby
    SeriesVal.head = SeriesVal.head  # (plain positional head is part of the theory)


class _GB:
    __pyvc_symbolic__ = True

    def __init__(self, s):
        self.s = s

    def head(self, n):
        s = self.s
        keep = z3.Function(cur().fresh_name("group_head"), z3.IntSort(), z3.BoolSort())
        return s.derive(sel=lambda i: z3.And(s._sel(i), keep(i)))


class PostprocessField(Contract):
    """verdict = all(check_output) and does not depend on n_failure_cases; failure cases are rows of the
    checked object whose output is False (all of them when n_failure_cases is None)."""

    target = f"{CB}.postprocess_field"
    params = dict(self=backend(), check_obj=Series(), check_output=T.Lazy(lambda n: None))
    # output: numpy bool (every entry True / False) or the nullable "boolean" extension dtype, whose entries may be <NA>: what a
    # comparison of an extension-dtype column (Int64, Float64, string) gives for a missing cell, and what a user function may return
    split = {"output": ["bool", "nullable_boolean"]}

    def setup(self, I):
        PL.install(I)
        install_groupby_head(I)

    def make_args(self):
        a = {"self": backend().fresh("self"), "check_obj": SeriesVal.fresh("check_obj", "real")}
        # the output of a check function on `check_obj`: a boolean series over the same rows
        out = SeriesVal.fresh("check_output", "bool", nullable=self.fixed.get("output", "bool") == "nullable_boolean", space=a["check_obj"].space)
        a["check_output"] = out.derive(sel=a["check_obj"]._sel)
        a["check_output"].dtype_ = bool
        return a

    def call_target(self, I, fn, args):
        return I.call(fn, [args["self"], args["check_obj"], args["check_output"]], {})

    def ensures(self, result, old, self_, check_obj, check_output):
        nfc = fld0(fld0(self_, "check"), "n_failure_cases")
        out = {"is_check_result": isinstance(result, Obj) and result.cls is CheckResult}
        passed = result.attrs["check_passed"]
        j = z3.Int(cur().fresh_name("j"))
        # an entry that is not True - False or missing - is not a pass (under ignore_na the missing cells never reach the check)
        every_entry_true = SBool(z3.ForAll([j], z3.Implies(check_output.sel(j), z3.And(z3.Not(check_output.null(j)), core.as_z3_bool(check_output.at(j))))))
        out["verdict_is_all_of_output"] = Iff(passed, every_entry_true)
        fc = result.attrs["failure_cases"]
        i = z3.Int(cur().fresh_name("row"))
        failing = z3.And(check_obj.sel(i), z3.Or(check_output.null(i), z3.Not(core.as_z3_bool(check_output.at(i)))))
        if fc is None:
            out["no_failure_cases_only_when_passed"] = Iff(passed, True)
        else:
            out["failure_cases_are_failing_rows"] = SBool(z3.Implies(fc.sel(i), failing))
            out["failure_cases_values"] = SBool(z3.Implies(fc.sel(i), core.as_z3_bool(py_eq(fc.at(i), check_obj.at(i)))))
            if nfc is None:
                out["all_failing_rows_reported_without_truncation"] = SBool(z3.Implies(failing, fc.sel(i)))
        return out


def _postprocess_probe(rec):
    def thunk():
        """the reported failure cases are exactly the elements whose check output is False - also under repeated row labels"""
        import warnings

        import pandas as pd
        import pandera as pa

        warnings.simplefilter("ignore")
        obs, bad = {}, False
        for idx in ([0, 0, 1], [0, 1, 2], ["x", "y", "x"]):
            s = pd.Series([1, -1, 2], index=idx)
            for n in (None, 1):
                try:
                    pa.SeriesSchema(int, pa.Check(lambda x: x > 0, n_failure_cases=n)).validate(s)
                    got = "accepted"
                except pa.errors.SchemaError as e:
                    fc = e.failure_cases
                    got = sorted(fc["failure_case"].tolist()) if hasattr(fc, "columns") else f"{e.reason_code.name}: {fc!r}"[:90]
                if got != [-1]:
                    bad = True
                    obs[f"values [1, -1, 2], index {idx}, n_failure_cases={n}"] = f"failure cases {got}, expected [-1]"
        return bad, obs or "failure cases are exactly the failing elements (also with repeated labels)"

    return thunk


PostprocessField.concretize = lambda self, rec: _postprocess_probe(rec)


class PostprocessBool(Contract):
    target = f"{CB}.postprocess_table_or_field_with_bool_output"
    params = dict(self=backend(), check_obj=Series(), check_output=T.Bool)

    def setup(self, I):
        PL.install(I)

    def call_target(self, I, fn, args):
        return I.call(fn, [args["self"], args["check_obj"], args["check_output"]], {})

    def ensures(self, result, old, self_, check_obj, check_output):
        return {"verdict_is_the_bool": Iff(result.attrs["check_passed"], check_output), "no_failure_cases": result.attrs["failure_cases"] is None}


# ---------------------------------------------------------------------------------------
# run_check: raise_warning
# ---------------------------------------------------------------------------------------

RESHAPE = "pandera.backends.pandas.error_formatters:reshape_failure_cases"
FMT1 = "pandera.backends.pandas.error_formatters:format_generic_error_message"
FMT2 = "pandera.backends.pandas.error_formatters:format_vectorized_error_message"


def check_result_type():
    return T.Ref(CheckResult, strict=True, check_output=T.Any, check_passed=T.Bool, checked_object=T.Any, failure_cases=T.Opt(T.Any))


class RunCheck(Contract):
    """raise_warning=True never yields a failed result and warns exactly when the check failed;
    otherwise the result's `passed` is the check's verdict; a user check raising propagates (the callers turn
    it into a CHECK_ERROR result - C06)."""

    target = "pandera.backends.pandas.base:PandasSchemaBackend.run_check"
    params = dict(
        self=T.Ref(None), check_obj=T.Any, schema=T.Ref(None),
        check=T.Lazy(lambda n: None), check_index=T.Nat,
    )
    opaque = (RESHAPE, FMT1, FMT2)
    raises = (OtherException,)

    def make_args(self):
        a = {"self": T.Ref(None).fresh("self"), "check_obj": T.fresh_value(T.Any, "check_obj"), "schema": T.Ref(None).fresh("schema"),
             "check_index": T.fresh_value(T.Nat, "check_index")}
        chk = T.Ref(None, ignore_na=T.Bool, raise_warning=T.Bool, __call__=T.Callback(check_result_type())).fresh("check")
        a["check"] = chk
        return a

    def setup(self, I):
        # calling the Check object == calling its __call__ (S-callback: the user predicate lives inside)
        orig_call = I.call

        def call(fn, args=(), kwargs=None):
            if isinstance(fn, Obj) and "__call__" in fn.field_types:
                return orig_call(I.getattr(fn, "__call__"), args, kwargs)
            return orig_call(fn, args, kwargs)

        I.call = call

    def call_target(self, I, fn, args):
        return I.call(fn, [args["self"], args["check_obj"], args["schema"], args["check"], args["check_index"]], {})

    def ensures(self, result, old, self_, check_obj, schema, check, check_index):
        cb = check.attrs["__call__"]
        res = None
        for o in cur().objects:
            if o.cls is CheckResult:
                res = o
        warns = [e for e in cur().events if e[0] == "warn"]
        rw = fld0(check, "raise_warning")
        cp = res.attrs["check_passed"]
        out = {"check_called_once_on_the_object": len(cb.calls) == 1 and cb.calls[0][0][0] is check_obj}
        out["warns_iff_failed_and_raise_warning"] = Iff(len(warns) == 1, And(rw, Not(cp))) if len(warns) <= 1 else False
        out["warning_class"] = all(w[1] is SchemaWarning for w in warns)
        out["raise_warning_never_fails"] = Implies(rw, py_eq(result.attrs["passed"], True))
        out["otherwise_verdict_is_check_verdict"] = Implies(Not(rw), Iff(result.attrs["passed"], cp))
        out["result_names_the_check"] = result.attrs["check"] is check
        if result.attrs["passed"] is not True:
            out["reason_code"] = result.attrs["reason_code"] is SchemaErrorReason.DATAFRAME_CHECK
            out["check_index_forwarded"] = result.attrs["check_index"] is check_index
        return out

    def on_raise(self, exc, old, **a):
        return {"only_the_check_raises": exc.attrs.get("__from_callback__") is not None}


class PolarsAgg:
    """a 1x1 polars frame holding the verdict: `.collect().item()`"""

    __pyvc_symbolic__ = True

    def __init__(self, v):
        self.v = v

    def collect(self, **kw):
        return self

    def item(self):
        return self.v


class PolarsLazy:
    """an opaque LazyFrame: collect() yields an opaque DataFrame (head / rows for the message)"""

    __pyvc_symbolic__ = True

    def __init__(self, name):
        self.name = name

    def collect(self, **kw):
        return PolarsLazy(self.name + ".collected")

    def head(self, *a):
        return self

    def rows(self, **kw):
        return core.SAny(name="rows")


class PolarsRunCheck(RunCheck):
    """polars twin of RunCheck (same documented meaning of raise_warning)"""

    target = "pandera.backends.polars.base:PolarsSchemaBackend.run_check"
    opaque = ()

    def make_args(self):
        class Schema:  # (only its __name__ is read, for the message)
            pass

        a = {"self": T.Ref(None).fresh("self"), "check_obj": T.fresh_value(T.Any, "check_obj"), "schema": T.Ref(Schema).fresh("schema"),
             "check_index": T.fresh_value(T.Nat, "check_index")}
        verdict = T.fresh_value(T.Bool, "check_passed")
        has_fc = cur().choose([("tabular_failure_cases", None), ("no_failure_cases", None)], "failure_cases")

        def result(name):
            o = Obj(CheckResult, name, pre=False)
            o.attrs.update(check_output=PolarsLazy("check_output"), check_passed=PolarsAgg(verdict), checked_object=a["check_obj"],
                           failure_cases=PolarsLazy("failure_cases") if has_fc == 0 else None)
            return o

        chk = T.Ref(None, ignore_na=T.Bool, raise_warning=T.Bool, __call__=T.Callback(T.Lazy(result))).fresh("check")
        a["check"] = chk
        cur().ghost["verdict"] = verdict
        return a

    def ensures(self, result, old, self_, check_obj, schema, check, check_index):
        cb = check.attrs["__call__"]
        warns = [e for e in cur().events if e[0] == "warn"]
        rw = fld0(check, "raise_warning")
        cp = cur().ghost["verdict"]
        out = {"check_called_once_on_the_object": len(cb.calls) == 1 and cb.calls[0][0][0] is check_obj}
        out["warns_iff_failed_and_raise_warning"] = Iff(len(warns) == 1, And(rw, Not(cp))) if len(warns) <= 1 else False
        out["warning_class"] = all(w[1] is SchemaWarning for w in warns)
        out["raise_warning_never_fails"] = Implies(rw, py_eq(result.attrs["passed"], True))
        out["otherwise_verdict_is_check_verdict"] = Implies(Not(rw), Iff(result.attrs["passed"], cp))
        out["result_names_the_check"] = result.attrs["check"] is check
        if result.attrs["passed"] is not True:
            out["reason_code"] = result.attrs["reason_code"] is SchemaErrorReason.DATAFRAME_CHECK
            out["check_index_forwarded"] = result.attrs["check_index"] is check_index
            out["row_wise_output_reported_for_drop_invalid_rows"] = isinstance(result.attrs.get("check_output"), PolarsLazy)
        return out


def _apply_field_standin(seed=0, tier="quick"):
    """run-time contract on the real apply_field: its output equals the check function's own output on the object (vectorised) /
    the mapped output (element-wise) - for every built-in check with representative arguments and custom checks, on empty, all-null,
    mixed and plain series"""
    import warnings

    import numpy as np
    import pandas as pd
    import pandera as pa
    from pandera.backends.pandas.checks import PandasCheckBackend

    warnings.simplefilter("ignore")
    num = [pd.Series([], dtype=float), pd.Series([np.nan, np.nan]), pd.Series([1.0, 2.0, np.nan]), pd.Series([3.0, -1.0])]
    txt = [pd.Series([], dtype=object), pd.Series([None, None], dtype=object), pd.Series(["ab", "b", None], dtype=object), pd.Series(["x"], dtype=object)]
    checks = [(pa.Check.gt(0), num), (pa.Check.ge(1), num), (pa.Check.lt(2), num), (pa.Check.le(2), num), (pa.Check.eq(1), num), (pa.Check.ne(1), num),
              (pa.Check.in_range(0, 2), num), (pa.Check.isin([1.0, 2.0]), num), (pa.Check.notin([1.0]), num), (pa.Check.unique_values_eq([1.0, 2.0]), num),
              (pa.Check.str_matches("a"), txt[2:]), (pa.Check.str_contains("b"), txt[2:]), (pa.Check.str_startswith("a"), txt[2:]), (pa.Check.str_endswith("b"), txt[2:]),
              (pa.Check.str_length(1, 2), txt[2:]), (pa.Check.isin(["ab"]), txt), (pa.Check.unique_values_eq(["x"]), txt),
              (pa.Check(lambda s: s > 0), num), (pa.Check(lambda s: bool(len(s))), num), (pa.Check(lambda x: x > 0, element_wise=True), num)]
    n = 0
    bound = f"{len(checks)} checks (all built-in families + custom vectorised / scalar-output / element-wise) x 2-4 series each (empty, all-null, mixed, plain)"
    same = lambda a, b: (a.equals(b) if hasattr(a, "equals") else a == b) if type(a) is type(b) else False  # noqa: E731
    for chk, series in checks:
        for s in series:
            for drop in (False, True):
                obj = s.dropna() if drop else s
                n += 1
                be = PandasCheckBackend(chk)
                try:
                    want = obj.map(be.check_fn) if chk.element_wise else be.check_fn(obj)
                except Exception as e:  # noqa: BLE001
                    want = ("raises", type(e).__name__)
                try:
                    got = be.apply_field(obj)
                except Exception as e:  # noqa: BLE001
                    got = ("raises", type(e).__name__)
                if not (same(got, want) or (isinstance(got, (bool, np.bool_)) and isinstance(want, (bool, np.bool_)) and bool(got) == bool(want))):
                    return {"examples": n, "bound": bound, "failing_input": {"check": str(chk), "series": obj.tolist()},
                            "observed": {"apply_field": repr(got)[:120], "the check function itself": repr(want)[:120]}}
    return {"examples": n, "bound": bound, "failing_input": None}


ApplyField.bounded_standin = staticmethod(_apply_field_standin)

CONTRACTS = ALIASES + [PreprocessField, ApplyField, PostprocessField, PostprocessBool, RunCheck, PolarsRunCheck]
