"""C14 (serialisation leg): the inferred schema survives to_yaml / from_yaml with the same verdict on its data.

Deductive part (per check of an inferred component):
  parse_checks                (schema -> statistics, pandera/schema_statistics/pandas.py)
  _serialize_check_stats      (statistics -> yaml-able value, pandera/io/pandas_io.py)
  _deserialize_check_stats    (yaml-able value -> Check, pandera/io/pandas_io.py)
The last two are verified as ONE pipeline (CheckStatsRoundTrip): the live source of both is interpreted, with the YAML
text stage between them as an assumed contract on the dependency (A-yaml: safe_dump accepts exactly None / bool / int /
float / str and lists / string-keyed dicts of those, and safe_load(safe_dump(v)) == v).
Oracle: "same verdict on the data the schema was inferred from" - the restored check must be made by the same
constructor and its bound b' must still admit the data: b' <= b for greater_than_or_equal_to, b' >= b for
less_than_or_equal_to, the same set for isin; options (ignore_na, raise_warning) are restored.
Everything text-level / end-to-end (yaml text, Column/DataFrameSchema construction, validate) is the bounded leg below.
"""
import z3

from pandera import dtypes
from pandera.engines import pandas_engine
from pyvc import core, types as T
from pyvc.core import And, Iff, Implies, Not, Or, PyExc, SAny, SBool, SNum, Unsupported, cur, py_eq
from pyvc.heap import DictObj, ListObj, Obj
from pyvc.interp import OtherException, is_concrete
from pyvc.spec import Contract, Lemma, resolve_target
from pyvc.theories import pandas_infer as PI
from pyvc.theories.pandas_infer import TsText, TsVal, fl

IO = "pandera.io.pandas_io"
STATS = "pandera.schema_statistics.pandas"
GE, LE, ISIN = "greater_than_or_equal_to", "less_than_or_equal_to", "isin"
DEFAULT_OPTIONS = {"raise_warning": False, "ignore_na": True}  # Check's documented defaults (n_failure_cases=None is dropped)


def install_native_dtype_methods(I):
    """methods of concrete pandera DataType objects called with concrete arguments are EXECUTED (real code, not a model);
    Engine.dtype likewise"""
    from contracts.C14_inference import install_native_engine_dtype

    install_native_engine_dtype(I)
    orig = I.call

    def call(fn, args=(), kwargs=None):
        import inspect

        if inspect.ismethod(fn) and isinstance(fn.__self__, dtypes.DataType) and is_concrete(list(args)) and is_concrete(kwargs or {}):
            try:
                return fn(*args, **(kwargs or {}))
            except Exception as e:  # the real method raised: the program's exception
                raise PyExc(I.make_exc(type(e), *e.args))
        return orig(fn, args, kwargs)

    I.call = call


class YamlUnrepresentable(Exception):
    pass


def yaml_stage(v):
    """A-yaml: what safe_load(safe_dump(v)) gives.  Text written by strftime stays that text."""
    if v is None or isinstance(v, (bool, int, float, str, SNum, SBool, TsText)):
        return v
    if isinstance(v, PI.CatValues):  # a python list of category labels
        return v
    if isinstance(v, (dict, DictObj)):
        return DictObj({k: yaml_stage(x) for k, x in v.items()})
    if isinstance(v, (list, ListObj)):
        return ListObj([yaml_stage(x) for x in v])
    raise YamlUnrepresentable(type(v).__name__)


class CheckStatsRoundTrip(Contract):
    target = f"{IO}:_deserialize_check_stats"
    params = dict(check=None, serialized_check_stats=None, dtype=None)
    check_frame = False
    CASES = {
        # name: (check name, argument name, pandas dtype alias of the component, kind of bound)
        "int64.ge": (GE, "min_value", "int64", "float"), "int64.le": (LE, "max_value", "int64", "float"),
        "float64.ge": (GE, "min_value", "float64", "float"), "float64.le": (LE, "max_value", "float64", "float"),
        "datetime.ge": (GE, "min_value", "datetime64[ns]", "timestamp"), "datetime.le": (LE, "max_value", "datetime64[ns]", "timestamp"),
        "datetime-tz.le": (LE, "max_value", "datetime64[ns, UTC]", "timestamp"),
        "category.isin": (ISIN, "allowed_values", "category", "set"),
    }
    split = {"case": sorted(CASES)}

    def setup(self, I):
        PI.install(I)
        install_native_dtype_methods(I)

    def make_args(self):
        from contracts.C14_inference import ctor

        case = self.arg("case", T.OneOf(*sorted(self.CASES)))
        cur().choose([(case, None)], "case")  # puts the case into the path label (known-finding patterns match on it)
        name, argname, alias, kind = self.CASES[case]
        bound = {"float": lambda: SNum(fl(core.sym_real("bound"))), "timestamp": lambda: TsVal.fresh("bound"),
                 "set": lambda: PI.CatValues(lambda x: core.sym_bool("mem"), "categories")}[kind]()
        cur().ghost.update(case=case, bound=bound, check_name=name)
        dtype = pandas_engine.Engine.dtype(alias)
        # what parse_checks hands to the serialiser for a check made by Check.<name>(bound) (contract ParseChecks below)
        stats = DictObj({argname: bound, "options": DictObj(DEFAULT_OPTIONS)})
        return {"check": ctor(name).fresh(name), "serialized_check_stats": stats, "dtype": dtype}

    def call_target(self, I, fn, a):
        ser = resolve_target(f"{IO}:_serialize_check_stats")
        p = cur()
        wire = I.call(ser, [a["serialized_check_stats"], a["dtype"]], {})
        try:
            wire = yaml_stage(wire)
        except YamlUnrepresentable as e:
            p.ghost["unrepresentable"] = str(e)
            return None
        # _serialize_component_stats writes str(dtype); _deserialize_component_stats reads it back with Engine.dtype
        back = pandas_engine.Engine.dtype(str(a["dtype"]))
        return I.call(fn, [a["check"], wire, back], {})

    def ensures(self, result, old, check, serialized_check_stats, dtype):
        from contracts.C14_inference import ctor_call

        p = cur()
        if "unrepresentable" in p.ghost:
            return {"serialised_statistic_is_yaml_representable": False}
        name, bound = p.ghost["check_name"], p.ghost["bound"]
        call = ctor_call(result)
        out = {"serialised_statistic_is_yaml_representable": True,
               "restored_by_the_same_constructor_once": call is not None and call[0] == name and len(check.calls) == 1}
        if not out["restored_by_the_same_constructor_once"]:
            return out
        _, a, kw = call
        got = a[0] if len(a) == 1 and not kw else list(kw.values())[0] if not a and len(kw) == 1 else None
        out["restored_check_has_one_bound"] = got is not None
        if got is None:
            return out
        if isinstance(bound, TsVal):
            ok = isinstance(got, TsVal)
            out["restored_bound_is_a_timestamp"] = ok
            if ok:
                out["restored_bound_still_admits_the_data"] = (got.ns <= bound.ns) if name == GE else (got.ns >= bound.ns)
        elif isinstance(bound, SNum):
            ok = isinstance(got, SNum)
            out["restored_bound_is_a_number"] = ok
            if ok:
                out["restored_bound_still_admits_the_data"] = (got <= bound) if name == GE else (got >= bound)
        else:
            out["restored_set_is_the_category_set"] = got is bound
        out["options_are_restored"] = all(result.attrs.get(k) == v for k, v in DEFAULT_OPTIONS.items())
        return out


class RegisteredChecks:
    """the `Check` class as parse_checks uses it: `check in Check` (metaclass __contains__) is executed on the real
    class for the concrete check name"""

    __pyvc_symbolic__ = True

    def pyvc_contains(self, I, x):
        from pandera.api.checks import Check

        name = x.attrs["name"] if isinstance(x, Obj) else x
        return hasattr(Check, name)


class ParseChecks(Contract):
    """for the checks of an inferred ordered component [ge(lo), le(hi)] with lo <= hi (lemma BoundsAreOrdered), or
    [isin(cats)]: never raises; one statistics entry per check, keyed by the check's name, holding the check's own
    statistics plus its non-None options"""

    target = f"{STATS}:parse_checks"
    params = dict(checks=None)
    sym_globals = {f"{STATS}:Check": T.Lazy(lambda n: RegisteredChecks())}
    check_frame = False

    def setup(self, I):
        PI.install(I)

    def _check(self, name, stats):
        o = Obj(None, name, pre=False)
        o.attrs.update(name=name, statistics=DictObj(stats), raise_warning=False, n_failure_cases=None, ignore_na=True)
        return o

    def make_args(self):
        k = cur().choose([("bounds", None), ("isin", None), ("no-checks", None)], "checks of the component")
        if k == 0:
            lo, hi = core.sym_real("lo"), core.sym_real("hi")
            core.register_model_var("lo", lo.z)
            core.register_model_var("hi", hi.z)
            cur().ghost["want"] = [(GE, "min_value", lo), (LE, "max_value", hi)]
            cur().ghost["ordered"] = lo <= hi
            return {"checks": ListObj([self._check(GE, {"min_value": lo}), self._check(LE, {"max_value": hi})])}
        if k == 1:
            cats = PI.CatValues(lambda x: core.sym_bool("mem"), "categories")
            cur().ghost["want"] = [(ISIN, "allowed_values", cats)]
            return {"checks": ListObj([self._check(ISIN, {"allowed_values": cats})])}
        cur().ghost["want"] = []
        return {"checks": ListObj()}

    def requires(self, checks):
        return cur().ghost.get("ordered", True)

    def ensures(self, result, old, checks):
        want = cur().ghost["want"]
        if not want:
            return {"no_checks_no_statistics": result is None}
        out = {"one_entry_per_check_in_order": isinstance(result, dict) and list(result.keys()) == [w[0] for w in want]}
        if not out["one_entry_per_check_in_order"]:
            return out
        for name, arg, v in want:
            e = result[name]
            out[f"{name}.keeps_the_statistic"] = isinstance(e, dict) and set(e.keys()) == {arg, "options"} and e[arg] is v
            if out[f"{name}.keeps_the_statistic"]:
                out[f"{name}.keeps_the_non_none_options"] = dict(e["options"]) == DEFAULT_OPTIONS
        return out


class BoundsAreOrdered(Lemma):
    """float(min(x)) <= float(max(x)) for every array with a value (A-minmax, A-float): the inferred pair of bounds is
    never 'incompatible' for parse_checks (precondition of ParseChecks)"""

    prop = "C14"

    def setup(self, I):
        PI.install(I)

    def statement(self):
        from contracts.C14_inference import make_array

        x = make_array("x", pandas_engine.Engine.dtype("int64"))
        if not cur().decide(x.has_value(), "x has a value"):
            return {"vacuous_without_values": True}
        lo, hi = x.min(), x.max()
        return {"rounded_bounds_are_ordered": SBool(fl(lo) <= fl(hi)), "exact_bounds_are_ordered": lo <= hi}


class AcceptsItsData(Lemma):
    """lemma.C14.accept: a component whose statistics satisfy the C14 oracle passes C01's checks on its own array:
    check_nullable (nullable or no null), the ge / le / isin checks with ignore_na=True (nulls dropped, verdict = all rows
    satisfy the leaf spec of contracts/specs.py), and the min / max elements meet the bounds with equality."""

    prop = "C14"

    def setup(self, I):
        PI.install(I)

    def statement(self):
        from contracts import specs
        from contracts.C14_inference import REPRESENTATIVES, component_stats_value, fresh_array, seen, spec_kind

        x = fresh_array("x", REPRESENTATIVES)
        rec = component_stats_value(x)
        i = z3.Int(cur().fresh_name("row"))
        core.register_model_var("row", i)
        no_null = x.forall(lambda r: z3.Not(x.null(r)))
        out = {"check_nullable_passes": Or(rec["nullable"], no_null)}
        checks = rec["checks"]
        shown = z3.And(x.sel(i), z3.Not(x.null(i)))  # rows the check function sees under ignore_na=True (C19 PreprocessField)
        if checks is None:
            out["no_value_check_to_fail"] = True
        elif GE in checks:
            v = SNum(seen(x, i))
            out["ge_check_passes_on_every_row"] = Implies(SBool(shown), specs.greater_than_or_equal_to(v, checks[GE]))
            out["le_check_passes_on_every_row"] = Implies(SBool(shown), specs.less_than_or_equal_to(v, checks[LE]))
            j = z3.Int(cur().fresh_name("j"))
            out["bounds_are_tight"] = SBool(z3.And(z3.Exists([j], z3.And(x.sel(j), z3.Not(x.null(j)), seen(x, j) == checks[GE].z)),
                                                   z3.Exists([j], z3.And(x.sel(j), z3.Not(x.null(j)), seen(x, j) == checks[LE].z))))
        else:
            out["isin_check_passes_on_every_row"] = Implies(SBool(shown), specs.isin(x.at(i), checks[ISIN]))
        return out


CONTRACTS = [CheckStatsRoundTrip, ParseChecks]
LEMMAS = [BoundsAreOrdered, AcceptsItsData]
