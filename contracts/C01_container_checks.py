"""C01 (container level): the frame-level core checks of DataFrameSchemaBackend against their declared meaning."""
import z3

from pandera.backends.base import CoreCheckResult
from pandera.errors import SchemaErrorReason
from pyvc import core, types as T
from pyvc.core import And, Iff, Implies, Not, Or, SBool, cur, ite, py_eq
from pyvc.heap import Obj
from pyvc.spec import Contract
from pyvc.theories import pandas_lite as PL
from pyvc.theories.pandas_lite import FrameVal
from contracts.util import fld, fld0

DF = "pandera.backends.pandas.container:DataFrameSchemaBackend"


class ColumnNamesUnique(Contract):
    """unique_column_names=True accepts a frame iff its column labels are pairwise distinct (whatever the labels are)."""

    target = f"{DF}.check_column_names_are_unique.__wrapped__"
    params = dict(self=T.Ref(None), check_obj=T.Lazy(lambda n: FrameVal.fresh(n)), schema=T.Ref(None, unique_column_names=T.Bool))

    def setup(self, I):
        PL.install(I)

    def call_target(self, I, fn, a):
        return I.call(fn, [a["self"], a["check_obj"], a["schema"]], {})

    def ensures(self, result, old, self_, check_obj, schema):
        u = fld0(schema, "unique_column_names")
        distinct = Not(check_obj.columns.has_duplicates)
        passed = result.attrs["passed"]
        out = {"verdict": isinstance(result, Obj) and result.cls is CoreCheckResult and Iff(passed, Or(Not(u), distinct))}
        if passed is not True:
            out["reason"] = Implies(Not(passed), result.attrs["reason_code"] is SchemaErrorReason.DUPLICATE_COLUMN_LABELS)
        return out

    def concretize(self, rec):
        def thunk():
            import pandas as pd
            import pandera as pa

            m = (rec.get("model") or {}).get("columns(check_obj)")
            if not isinstance(m, dict):
                return False, "no column model"
            # labels of the model: equal label terms -> equal concrete labels; falsy labels where the model says so
            names = {}
            cols = []
            for lab, tr in zip(m["labels"], m["truthy"]):
                if lab not in names:
                    names[lab] = (len(names) + 1) if tr == "True" else (0 if 0 not in names.values() else "")
                cols.append(names[lab])
            df = pd.DataFrame([[1] * len(cols)], columns=cols)
            try:
                pa.DataFrameSchema(unique_column_names=True).validate(df)
                accepted = True
            except pa.errors.SchemaError:
                accepted = False
            dup = len(set(cols)) != len(cols)
            return accepted == dup, {"columns": cols, "accepted": accepted, "has_duplicate_labels": dup}

        return thunk


CONTRACTS = [ColumnNamesUnique]
