"""C02 (pandas report): consolidate_failure_cases - the lazy report is built from EVERY collected error, each under the column it is about.

C02: "The lazy report's failure cases name every offending (column, row label, value) and no conforming cell."  For a list of collected
errors (cases: one error with tabular failure cases, with or without its own `column` column; one error with a scalar failure case; both):
    post.every_error_has_its_rows_in_the_report       one part per error, none dropped, nothing else added
    post.rows_of_an_error_are_under_its_column        tabular failure cases: the `column` of their rows is
                                                          - their own `column` column when they carry one (wide checks),
                                                          - else the dataframe column the component was validated against (`err.column_name`:
                                                            the matched column of a regex component) whenever that is given - WHATEVER its
                                                            value: a column labelled 0 / '' / False is a column like any other,
                                                          - else the name of the schema
                                                      scalar failure case: the name of the schema, index None, the scalar as the failure case
    post.rows_carry_the_error_context                 schema_context = class of the error's schema, check_number = check_index, check = the
                                                      identifier (the check itself when it is text, else its error / name / str, in that order)
    post.report_columns                               the report has exactly the six documented columns
The table operations the function performs (assign of constant columns, projection on the column list, from_records, concat /
reset_index / sort_values) are modelled structurally below; any other use is UNSUPPORTED.
"""
from pandera.errors import SchemaError
from pyvc import core, types as T
from pyvc.core import SAny, Unsupported, cur
from pyvc.heap import ListObj, Obj
from pyvc.spec import Contract
from contracts.util import fld0

EF = "pandera.backends.pandas.error_formatters"
REPORT_COLUMNS = ["schema_context", "column", "check", "check_number", "failure_case", "index"]


class FcTable:
    """tabular failure cases of one error: columns index, failure_case (and `column` for wide checks)"""

    __pyvc_symbolic__ = True

    def __init__(self, name, own_column):
        self.name, self.own_column = name, own_column
        self.rows = core.sym_int(f"len({name})")
        cur().assume(self.rows >= 0)

    def pyvc_class(self):
        import pandas as pd

        return pd.DataFrame

    def pyvc_contains(self, I, k):
        return k in (["index", "failure_case"] + (["column"] if self.own_column else []))

    def pyvc_getitem(self, I, k):
        if k == "column" and self.own_column:
            return _OwnColumn(self)
        raise Unsupported(f"failure_cases[{k!r}]")

    @property
    def shape(self):
        return (self.rows, 3 if self.own_column else 2)

    def assign(self, **kw):
        return ReportPart(self, dict(kw))


class _OwnColumn:
    __pyvc_symbolic__ = True

    def __init__(self, table):
        self.table = table

    def pyvc_class(self):
        import pandas as pd

        return pd.Series


class ReportPart:
    """failure_cases.assign(constant columns)[column list]"""

    __pyvc_symbolic__ = True

    def __init__(self, table, constants, projection=None):
        self.table, self.constants, self.projection = table, constants, projection

    def pyvc_class(self):
        import pandas as pd

        return pd.DataFrame

    def pyvc_getitem(self, I, k):
        if isinstance(k, (list, ListObj)):
            return ReportPart(self.table, self.constants, list(k))
        raise Unsupported("report part [...] with a non-list key")


class ScalarPart:
    """pd.DataFrame.from_records(list of dicts): one row per scalar failure case"""

    __pyvc_symbolic__ = True

    def __init__(self, records):
        self.records = list(records)

    def pyvc_class(self):
        import pandas as pd

        return pd.DataFrame


class Report:
    __pyvc_symbolic__ = True

    def __init__(self, parts, steps=()):
        self.parts, self.steps = list(parts), tuple(steps)

    def pyvc_class(self):
        import pandas as pd

        return pd.DataFrame

    def reset_index(self, drop=False, **kw):
        if not drop or kw:
            raise Unsupported("report.reset_index without drop=True")
        return Report(self.parts, self.steps + ("reset_index",))

    def sort_values(self, by, ascending=True, **kw):
        return Report(self.parts, self.steps + (("sort_values", by, ascending),))


class FlatLabel:
    """a column label that is not a tuple: any hashable scalar - it may well be falsy (0, '', False)"""

    __pyvc_symbolic__ = True

    def __init__(self, name):
        self.name = name
        self._truth = None

    def pyvc_class(self):
        return object

    def pyvc_truth(self):
        if self._truth is None:
            self._truth = core.sym_bool(f"bool({self.name})")
        return self._truth


class Column:  # (stands for the class of the schema an error was raised for: only its name is read)
    pass


class Check:  # (stands for pandera's Check: only `error` and `name` are read)
    pass


KINDS = {"table": ["table"], "table_with_own_column": ["own"], "scalar": ["scalar"], "table+scalar": ["table", "scalar"], "scalar+table+table": ["scalar", "table", "own"]}


class ConsolidateFailureCases(Contract):
    target = f"{EF}:consolidate_failure_cases"
    split = {"errors": list(KINDS)}
    raises = ()
    check_frame = False

    def setup(self, I):
        import pandas as pd
        import pandera.api.pandas.types as PT

        I.models[id(PT.is_table)] = lambda I_, x: isinstance(x, (FcTable, ReportPart, ScalarPart, Report))

        def from_records(I_, cls, records, **kw):
            return ScalarPart(records)

        I.models[id(pd.DataFrame.from_records.__func__)] = from_records

        def concat(I_, objs, **kw):
            objs = list(objs)
            if not all(isinstance(o, (ReportPart, ScalarPart)) for o in objs):
                raise Unsupported("concat of something other than report parts")
            return Report(objs)

        I.models[id(pd.concat)] = concat

    def make_args(self):
        errs = ListObj()
        for j, kind in enumerate(KINDS[self.fixed.get("errors", "table")]):
            # (flat labels; a tuple label - MultiIndex columns - is repeated per row, not modelled)
            schema = T.Ref(Column).fresh(f"err{j}.schema")
            schema.attrs["name"] = schema.attrs0["name"] = FlatLabel(f"err{j}.schema.name")
            e = Obj(SchemaError, f"err{j}", pre=True, fields=dict(check_index=T.Any))
            e.attrs["column_name"] = e.attrs0["column_name"] = FlatLabel(f"err{j}.column_name") if cur().choose([("given", None), ("None", None)], f"err{j}.column_name") == 0 else None
            chk = cur().choose([("text", None), ("check_with_error", None), ("check_with_name", None), ("check_without_either", None)], f"err{j}.check")
            if chk == 0:
                check = T.fresh_value(T.Str, f"err{j}.check")
            else:
                check = T.Ref(Check).fresh(f"err{j}.check")
                for a, v in (("error", SAny(name=f"err{j}.check.error") if chk == 1 else None), ("name", SAny(name=f"err{j}.check.name") if chk in (1, 2) else None)):
                    check.attrs[a] = v
                    check.attrs0[a] = v
            fc = SAny(name=f"err{j}.scalar_failure_case") if kind == "scalar" else FcTable(f"err{j}.failure_cases", kind == "own")
            for a, v in (("schema", schema), ("check", check), ("failure_cases", fc)):
                e.attrs[a] = v
                e.attrs0[a] = v
            errs.append(e)
        cur().ghost["errs"] = list(errs)
        return {"schema_errors": errs}

    def call_target(self, I, fn, a):
        return I.call(fn, [a["schema_errors"]], {})

    def _identifier_ok(self, got, err):
        chk = err.attrs0["check"]
        if not isinstance(chk, Obj):
            return got is chk
        error, name = chk.attrs0.get("error"), chk.attrs0.get("name")
        if error is not None:
            return got is error
        if name is not None:
            return got is name
        return not isinstance(got, Obj) and got is not None  # str(check)

    def ensures(self, result, old, schema_errors):
        errs = cur().ghost["errs"]
        out = {"is_a_report": isinstance(result, Report)}
        if not out["is_a_report"]:
            return out
        tables = [e for e in errs if isinstance(e.attrs0["failure_cases"], FcTable)]
        scalars = [e for e in errs if not isinstance(e.attrs0["failure_cases"], FcTable)]
        tparts = [p for p in result.parts if isinstance(p, ReportPart)]
        sparts = [p for p in result.parts if isinstance(p, ScalarPart)]
        recs = [r for p in sparts for r in p.records]
        out["every_error_has_its_rows_in_the_report"] = (len(tparts) == len(tables) and all(p.table is e.attrs0["failure_cases"] for p, e in zip(tparts, tables))
                                                         and len(recs) == len(scalars) and len(result.parts) == len(tparts) + len(sparts))
        if not out["every_error_has_its_rows_in_the_report"]:
            return out
        ok_col, ok_ctx, ok_cols = True, True, True
        for p, e in zip(tparts, tables):
            fc, col = e.attrs0["failure_cases"], p.constants.get("column")
            cn, sn = fld0(e, "column_name"), fld0(e.attrs0["schema"], "name")
            if fc.own_column:
                ok_col = ok_col and isinstance(col, _OwnColumn) and col.table is fc
            elif cn is not None:
                ok_col = ok_col and col is cn
            else:
                ok_col = ok_col and col is sn
            ok_ctx = ok_ctx and p.constants.get("check_number") is fld0(e, "check_index") and self._identifier_ok(p.constants.get("check"), e) \
                and p.constants.get("schema_context") == "Column"
            ok_cols = ok_cols and p.projection == REPORT_COLUMNS
        for r, e in zip(recs, scalars):
            r = dict(r)
            ok_col = ok_col and r.get("column") is fld0(e.attrs0["schema"], "name") and r.get("index") is None and r.get("failure_case") is e.attrs0["failure_cases"]
            ok_ctx = ok_ctx and r.get("check_number") is fld0(e, "check_index") and self._identifier_ok(r.get("check"), e)
            ok_cols = ok_cols and set(r) == set(REPORT_COLUMNS)
        out["rows_of_an_error_are_under_its_column"] = ok_col
        out["rows_carry_the_error_context"] = ok_ctx
        out["report_columns"] = ok_cols
        return out

    def concretize(self, rec):
        def thunk():
            """a regex column that matches a column labelled 0 (falsy): its failing cells are reported under 0, as the eager error names them"""
            import warnings

            import pandas as pd
            import pandera as pa

            warnings.simplefilter("ignore")
            obs, bad = {}, False
            schema = pa.DataFrameSchema({r"\d+": pa.Column(int, pa.Check.gt(0), regex=True)})
            df = pd.DataFrame({0: [1, -2], 1: [-3, 4]})
            want = sorted([(0, 1, -2), (1, 0, -3)])
            try:
                schema.validate(df, lazy=True)
                got = "accepted"
            except pa.errors.SchemaErrors as e:
                fc = e.failure_cases
                got = sorted(((c, int(i), int(v)) for c, i, v in zip(fc["column"], fc["index"], fc["failure_case"])), key=repr)
            if got != want:
                bad = True
                obs["regex column \\d+ on a frame with columns 0 and 1: (column, index, value) reported"] = f"{got}, expected {want}"
            return bad, obs or "failing cells of a regex column are reported under the matched column, also when its label is falsy"

        return thunk


CONTRACTS = [ConsolidateFailureCases]
