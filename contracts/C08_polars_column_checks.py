"""C08 / C01 (polars column core checks): check_nullable and check_unique of the polars ColumnBackend against the SAME specs as the
pandas ArraySchemaBackend (contracts/C01_array_checks.py):

    check_nullable  passes  <=> schema.nullable or no element of the column is null (float columns: nor NaN)
    check_unique    passes  <=> not schema.unique or the elements are pairwise distinct
and the reported check_output is row-aligned: true exactly on the rows that do not violate the constraint (what drop_invalid_rows uses).

For every column (all lengths, values, nulls), every flag value; one (non-regex) selector.
"""
import z3

from pandera.backends.base import CoreCheckResult
from pandera.errors import SchemaErrorReason
from pyvc import core, types as T
from pyvc.core import And, Iff, Implies, Not, Or, SBool, cur, py_eq
from pyvc.heap import Obj
from pyvc.spec import Contract
from pyvc.theories import pandas_lite as PL
from pyvc.theories import polars_lite as PP
from contracts.util import fld, fld0

COLP = "pandera.backends.polars.components:ColumnBackend"
KEY = PP.CHECK_OUTPUT_KEY


class _PlCore(Contract):
    check_frame = False

    def setup(self, I):
        PL.install(I)
        PP.install(I)
        import pandera.api.polars.utils as PU
        import pandera.backends.polars.components as PC

        names = lambda I, lf: list(lf.cols)  # noqa: E731
        for mod in (PU, PC):
            if hasattr(mod, "get_lazyframe_column_names"):
                I.models[id(mod.get_lazyframe_column_names)] = names
        I.models[id(PC.is_float_dtype)] = lambda I, lf, sel: cur().ghost["is_float"]

    def make_args(self):
        from pandera.backends.polars.components import ColumnBackend as B

        is_float = self.fixed.get("dtype", "other") == "float"
        lf = PP.FrameP.fresh("lf", columns=("a", "b"), kinds={"a": "real", "b": "real"}, nan_columns=("a",) if is_float else None)
        cur().ghost["lf"] = lf
        cur().ghost["is_float"] = is_float
        sel = "^(a|b)$" if self.fixed.get("selector", "a") == "regex" else "a"
        cur().ghost["selected"] = ["a", "b"] if sel != "a" else ["a"]
        return {"self": T.Ref(B).fresh("self"), "check_obj": lf,
                "schema": T.Ref(None, nullable=T.Bool, unique=T.Bool, selector=T.Const(sel), name=T.Const(sel)).fresh("schema")}

    def call_target(self, I, fn, a):
        return I.call(fn, [a["self"], a["check_obj"], a["schema"]], {})

    def results(self, result):
        return list(result) if isinstance(result, list) else None

    def report_is_well_formed(self, r, co, lf, i):
        """what failure_cases_metadata (the SchemaErrors report) and drop_invalid_rows assume of every polars error: the mask has one
        entry per data row, and the failure cases are exactly the rows the mask marks false (the report numbers them by the false
        positions of the mask: a different count makes polars raise while the report is being built)"""
        out = {"mask_is_over_the_data_rows": co.space is lf.space}
        fc = r.attrs.get("failure_cases")
        if isinstance(fc, PP.FrameP) and co.space is lf.space:
            out["failure_cases_are_the_rows_the_mask_marks_false"] = fc.space is lf.space and SBool(fc.sel(i) == z3.And(lf.sel(i), z3.Not(co.cols[KEY].null(i)), z3.Not(core.as_z3_bool(co.cols[KEY].at(i)))))
            out["failure_cases_show_the_checked_column_only"] = list(fc.cols) == ["a"]
            # (failure_cases_metadata numbers the i-th failure case by the i-th false entry of the mask)
            out["failure_cases_come_in_row_order"] = getattr(fc, "rows_in_data_order", True) is True
        else:
            out["failure_cases_are_a_frame"] = isinstance(fc, PP.FrameP)
        return out


class PolarsCheckNullableRegex(_PlCore):
    """a regex selector that matches two columns: one result per matched column that holds a null, each with a ONE-column row mask of
    THAT column's nulls (the mask drop_invalid_rows and the report read)"""

    target = f"{COLP}.check_nullable.__wrapped__"
    split = {"selector": ["regex"]}

    def ensures(self, result, old, self_, check_obj, schema):
        lf = cur().ghost["lf"]
        rs = self.results(result)
        out = {"returns_results": rs is not None}
        if rs is None:
            return out
        nullable = fld0(schema, "nullable")
        i = z3.Int(cur().fresh_name("row"))
        core.register_model_var("row", i)
        any_null = SBool(z3.Exists([i], z3.And(lf.sel(i), z3.Or(lf.cols["a"].null(i), lf.cols["b"].null(i)))))
        accepted = And(*[py_eq(r.attrs["passed"], True) for r in rs]) if rs else True
        out["verdict"] = Iff(accepted, Or(nullable, Not(any_null)))
        j = z3.Int(cur().fresh_name("j"))
        for r in rs:
            if r.attrs.get("passed") is True:
                continue
            co = r.attrs.get("check_output")
            ok = isinstance(co, PP.FrameP) and list(co.cols) == [KEY] and co.space is lf.space
            out["each_failing_result_carries_a_one_column_row_mask"] = out.get("each_failing_result_carries_a_one_column_row_mask", True) and ok
            if ok:
                m = core.as_z3_bool(co.cols[KEY].at(j))
                is_a = SBool(z3.ForAll([j], z3.Implies(lf.sel(j), m == z3.Not(lf.cols["a"].null(j)))))
                is_b = SBool(z3.ForAll([j], z3.Implies(lf.sel(j), m == z3.Not(lf.cols["b"].null(j)))))
                out["the_mask_is_the_null_mask_of_one_matched_column"] = And(out.get("the_mask_is_the_null_mask_of_one_matched_column", True), Or(is_a, is_b))
        return out


class PolarsCheckNullable(_PlCore):
    target = f"{COLP}.check_nullable.__wrapped__"
    split = {"dtype": ["float", "other"]}  # float columns can hold NaN: "nulls and nan values are effectively equivalent"

    def ensures(self, result, old, self_, check_obj, schema):
        lf = cur().ghost["lf"]
        col = lf.cols["a"]
        rs = self.results(result)
        out = {"returns_results": rs is not None}
        if rs is None:
            return out
        nullable = fld0(schema, "nullable")
        i = z3.Int(cur().fresh_name("row"))
        no_null = SBool(z3.ForAll([i], z3.Implies(lf.sel(i), z3.And(z3.Not(col.null(i)), z3.Not(col.nan(i))))))
        failing = [r for r in rs if r.attrs.get("passed") is not True and not (isinstance(r.attrs.get("passed"), SBool) and False)]
        accepted = And(*[py_eq(r.attrs["passed"], True) for r in rs]) if rs else True
        out["verdict"] = Iff(accepted, Or(nullable, no_null))
        out["reason"] = all(r.attrs["reason_code"] is SchemaErrorReason.SERIES_CONTAINS_NULLS for r in rs)
        for r in rs:
            co = r.attrs.get("check_output")
            if isinstance(co, PP.FrameP) and KEY in co.cols:
                j = z3.Int(cur().fresh_name("j"))
                out["check_output_true_exactly_on_non_null_rows"] = SBool(z3.Implies(lf.sel(j), core.as_z3_bool(co.cols[KEY].at(j)) == z3.And(z3.Not(col.null(j)), z3.Not(col.nan(j)))))
                out.update(self.report_is_well_formed(r, co, lf, j))
        return out


class PolarsCheckUnique(_PlCore):
    target = f"{COLP}.check_unique.__wrapped__"

    def ensures(self, result, old, self_, check_obj, schema):
        lf = cur().ghost["lf"]
        col = lf.cols["a"]
        rs = self.results(result)
        out = {"returns_results": rs is not None}
        if rs is None:
            return out
        unique = fld0(schema, "unique")
        i, j = z3.Int(cur().fresh_name("i")), z3.Int(cur().fresh_name("j"))

        def same(a, b):
            return z3.Or(z3.And(col.null(a), col.null(b)), z3.And(z3.Not(col.null(a)), z3.Not(col.null(b)), core.as_z3_bool(py_eq(col.at(a), col.at(b)))))

        distinct = SBool(z3.ForAll([i, j], z3.Implies(z3.And(lf.sel(i), lf.sel(j), i < j), z3.Not(same(i, j)))))
        accepted = And(*[py_eq(r.attrs["passed"], True) for r in rs]) if rs else True
        out["verdict"] = Iff(accepted, Or(Not(unique), distinct))
        out["reason"] = all(r.attrs["reason_code"] is SchemaErrorReason.SERIES_CONTAINS_DUPLICATES for r in rs)
        for r in rs:
            co = r.attrs.get("check_output")
            if isinstance(co, PP.FrameP) and KEY in co.cols:
                k, m = z3.Int(cur().fresh_name("k")), z3.Int(cur().fresh_name("m"))
                dup = z3.Exists([m], z3.And(lf.sel(m), m != k, same(k, m)))
                out["check_output_false_exactly_on_duplicated_rows"] = SBool(z3.Implies(lf.sel(k), core.as_z3_bool(co.cols[KEY].at(k)) == z3.Not(dup)))
                out.update(self.report_is_well_formed(r, co, lf, k))
        return out


class PolarsCheckDtype(_PlCore):
    """check_dtype (polars column): without a declared dtype one passing result; otherwise one result per selected column whose verdict
    is what the DECLARED dtype's `check` says about THAT column's dtype (and data), reason WRONG_DATATYPE, failure case = the dtype found"""

    target = f"{COLP}.check_dtype.__wrapped__"
    split = {"dtype": ["declared", "none"]}

    def make_args(self):
        a = super().make_args()
        if self.fixed.get("dtype", "declared") == "declared":
            dt = T.Ref(None, check=T.Callback(T.Lazy(lambda n: cur().ghost.setdefault("dtype_answer", T.fresh_value(T.Bool, n))), raises=False)).fresh("schema.dtype")
        else:
            dt = None
        a["schema"].attrs["dtype"] = dt
        a["schema"].attrs0["dtype"] = dt
        return a

    def ensures(self, result, old, self_, check_obj, schema):
        rs = self.results(result)
        out = {"returns_results": rs is not None}
        if rs is None:
            return out
        out["reason"] = all(r.attrs["reason_code"] is SchemaErrorReason.WRONG_DATATYPE for r in rs)
        dt = fld0(schema, "dtype")
        if dt is None:
            out["no_declared_dtype_one_passing_result"] = len(rs) == 1 and rs[0].attrs["passed"] is True
            return out
        calls = fld0(dt, "check").calls
        lf = cur().ghost["lf"]
        out["one_result_per_selected_column"] = len(rs) == 1 and len(calls) == 1
        if len(rs) == 1 and len(calls) == 1:
            (args, kw) = calls[0]
            found = PP._SchemaP(lf)._dtype("a")
            out["declared_dtype_asked_about_the_columns_own_dtype"] = len(args) == 2 and args[0] is found
            data = args[1] if len(args) == 2 else None
            sub = fld(data, "lazyframe") if isinstance(data, Obj) else None
            out["and_given_the_selected_column_as_data"] = isinstance(sub, PP.FrameP) and list(sub.cols) == ["a"] and sub.space is lf.space and fld(data, "key") == "a"
            ev = [e for e in cur().events if e[0] == "callback"]
            out["verdict_is_the_dtypes_answer"] = rs[0].attrs["passed"] is cur().ghost.get("dtype_answer") and len(ev) == 1
        return out


class PolarsColumnSetDefault(_PlCore):
    """ColumnBackend.set_default: `Column(default=v)` - "the default value for missing values in the column".  A value is missing when
    it is null or, in a float column, NaN (pandas `fillna` fills both; "nulls and nan values are effectively equivalent"):
        post.every_missing_value_becomes_the_default   per row: null or NaN -> v
        post.present_values_are_kept                   per row: otherwise the value itself
        post.other_columns_and_rows_untouched
    """

    target = f"{COLP}.set_default"
    # declared: Column(dtype, default=v) / Column(default=v) - a column need not declare a dtype (C06: no internal exception for it)
    split = {"dtype": ["float", "other"], "default": ["value", "none"], "declared": ["dtype", "no_dtype"]}
    raises = ()

    def make_args(self):
        from pandera.dtypes import DataType

        a = super().make_args()
        v = core.sym_real("default") if self.fixed.get("default", "value") == "value" else None
        core.register_model_var("default", v.z) if v is not None else None
        dt = T.Ref(DataType, type=T.Any).fresh("schema.dtype") if self.fixed.get("declared", "dtype") == "dtype" else None
        a["schema"] = T.Ref(None, default=T.Const(v), selector=T.Const("a"), name=T.Const("a"), dtype=T.Const(dt)).fresh("schema")
        cur().ghost["default"] = v
        return a

    def ensures(self, result, old, self_, check_obj, schema):
        lf, v = cur().ghost["lf"], cur().ghost["default"]
        if v is None:
            return {"no_default_returns_the_frame_itself": result is check_obj}
        out = {"returns_a_frame_over_the_same_rows": isinstance(result, PP.FrameP) and result.space is lf.space and list(result.cols) == list(lf.cols)}
        if not out["returns_a_frame_over_the_same_rows"]:
            return out
        i = z3.Int(cur().fresh_name("row"))
        core.register_model_var("row", i)
        src, dst = lf.cols["a"], result.cols["a"]
        missing = z3.Or(src.null(i), src.nan(i))
        out["same_rows_selected"] = SBool(result.sel(i) == lf.sel(i))
        out["every_missing_value_becomes_the_default"] = SBool(z3.Implies(z3.And(lf.sel(i), missing), z3.And(z3.Not(dst.null(i)), z3.Not(dst.nan(i)), core.as_z3_bool(py_eq(dst.at(i), v)))))
        out["present_values_are_kept"] = SBool(z3.Implies(z3.And(lf.sel(i), z3.Not(missing)), z3.And(z3.Not(dst.null(i)), z3.Not(dst.nan(i)), core.as_z3_bool(py_eq(dst.at(i), src.at(i))))))
        out["other_columns_untouched"] = result.cols["b"] is lf.cols["b"]
        return out

    def concretize(self, rec):
        def thunk():
            """Column(float, default=2.0) over [1.0, None, NaN]"""
            import math
            import warnings

            import polars as pl
            import pandera.polars as pp
            from pandera.backends.polars.components import ColumnBackend

            warnings.simplefilter("ignore")
            obs, bad = {}, False
            for label, data, dt, default in (("float", [1.0, None, float("nan")], pl.Float64, 2.0), ("int", [1, None, 3], pl.Int64, 2)):
                out = ColumnBackend().set_default(pl.LazyFrame({"a": data}, schema={"a": dt}), pp.Column(dt, name="a", default=default)).collect()["a"].to_list()
                want = [default if (x is None or (isinstance(x, float) and math.isnan(x))) else x for x in data]
                obs[label] = {"in": [repr(x) for x in data], "out": [repr(x) for x in out], "expected": [repr(x) for x in want]}
                bad = bad or out != want
            return bad, obs

        return thunk


class IsFloatDtype(Contract):
    """is_float_dtype(frame, selector): true iff EVERY column the selector matches is a float column (check_nullable / set_default then
    apply is_nan / is_not_nan to all of them: on a non-float column polars raises InvalidOperationError - C06).  Selections of 0-2 columns
    over {Float32, Float64, Int64, String, Boolean} enumerated."""

    target = "pandera.backends.polars.base:is_float_dtype"
    check_frame = False
    split = {"layout": list(range(1 + 5 + 25))}

    @staticmethod
    def _layouts():
        import itertools

        import polars as pl

        kinds = [pl.Float32, pl.Float64, pl.Int64, pl.String, pl.Boolean]
        return [()] + [(k,) for k in kinds] + list(itertools.product(kinds, repeat=2))

    def setup(self, I):
        import polars as pl
        import pandera.api.polars.utils as PU
        import pandera.backends.polars.base as PB

        dtypes = list(self._layouts()[self.fixed.get("layout", 0)])
        for mod in (PU, PB):
            if hasattr(mod, "get_lazyframe_column_dtypes"):
                I.models[id(mod.get_lazyframe_column_dtypes)] = lambda I_, lf: list(dtypes)
        from pyvc.theories.opaque import OpaqueVal

        I.models[id(pl.col)] = lambda I_, *a, **k: OpaqueVal("pl.col(selector)")

    def make_args(self):
        from pyvc.theories.opaque import OpaqueVal

        return {"check_obj": OpaqueVal("lazyframe"), "selector": core.SAny(name="selector")}

    def call_target(self, I, fn, a):
        return I.call(fn, [a["check_obj"], a["selector"]], {})

    def ensures(self, result, old, check_obj, selector):
        import polars as pl

        dtypes = self._layouts()[self.fixed.get("layout", 0)]
        want = all(d in (pl.Float32, pl.Float64) for d in dtypes)
        return {"float_iff_every_selected_column_is_float": (result is True) == want and isinstance(result, bool)}


def _standin(which):
    def run(seed=0, tier="quick"):
        """run-time contract on the real polars ColumnBackend core check: verdict and row-aligned check_output against the spec above"""
        import itertools
        import math
        import warnings

        import polars as pl
        import pandera.polars as pp
        from pandera.backends.polars.components import ColumnBackend

        warnings.simplefilter("ignore")
        domains = {"text": (["x", "y", None], pl.String), "float": ([1.5, 2.5, float("nan"), None], pl.Float64), "int": ([1, 2, None], pl.Int64)}
        n = 0
        bound = "columns of 0-4 rows over {x,y,null} / {1.5,2.5,NaN,null} / {1,2,null}; flag in {True,False}; a second column present"
        isnull = lambda v, fl: v is None or (fl and isinstance(v, float) and math.isnan(v))  # noqa: E731
        for dname, (vals, dt) in domains.items():
            for h in range(0, 5):
                for rows in itertools.product(vals, repeat=h):
                    for flag in (True, False):
                        n += 1
                        lf = pl.LazyFrame({"a": list(rows), "b": list(range(h))}, schema={"a": dt, "b": pl.Int64})
                        schema = pp.Column(dt, name="a", nullable=flag if which == "nullable" else True, unique=flag if which == "unique" else False)
                        fn = getattr(ColumnBackend(), "check_" + which)
                        try:
                            rs = fn(lf, schema)
                        except Exception as e:  # noqa: BLE001
                            return {"examples": n, "bound": bound, "failing_input": {"a": [repr(r) for r in rows], "flag": flag}, "observed": f"raised {type(e).__name__}: {e}"[:200]}
                        accepted = all(r.passed for r in rs)
                        if which == "unique":
                            key = lambda v: "null" if v is None else ("nan" if isinstance(v, float) and math.isnan(v) else v)  # noqa: E731
                            ks = [key(v) for v in rows]
                            dup = [ks.count(k) > 1 for k in ks]
                            want = (not flag) or not any(dup)
                            want_out = [not d for d in dup]
                        else:
                            bad = [isnull(v, dname == "float") for v in rows]
                            want = flag or not any(bad)
                            want_out = [not b for b in bad]
                        if accepted != want:
                            return {"examples": n, "bound": bound, "failing_input": {"a": [repr(r) for r in rows], which: flag},
                                    "observed": {"accepted": accepted, "expected": want}}
                        for r in rs:
                            if not r.passed and r.check_output is not None:
                                co = r.check_output.lazy().collect().get_column(KEY).to_list()
                                if co != want_out:
                                    return {"examples": n, "bound": bound, "failing_input": {"a": [repr(r) for r in rows], which: flag},
                                            "observed": {"check_output": co, "expected": want_out}}
        return {"examples": n, "bound": bound, "failing_input": None}

    return run


def _nullable_replay(self, rec):
    def thunk():
        """a non-nullable column over float data holding NaN and null, whatever dtype the schema declares: exactly those rows fail"""
        import warnings

        import polars as pl
        import pandera.polars as pp
        from pandera.backends.polars.components import ColumnBackend

        warnings.simplefilter("ignore")
        lf = pl.LazyFrame({"a": [1.0, float("nan"), None, 4.0]})
        obs, bad = {}, False
        for label, col in (("Column()", pp.Column(name="a")), ("Column(float)", pp.Column(float, name="a")), ("Column(int)", pp.Column(int, name="a"))):
            rs = ColumnBackend().check_nullable(lf, col)
            accepted = all(r.passed for r in rs)
            masks = [r.check_output.lazy().collect().get_column(KEY).to_list() for r in rs if not r.passed and r.check_output is not None]
            obs[label] = {"accepted": accepted, "check_output": masks}
            bad = bad or accepted or masks != [[True, False, False, True]]
        return bad, obs

    return thunk


def _unique_replay(self, rec):
    def thunk():
        """two different repeated values, not in ascending order: the lazy report names each duplicate under its own row index"""
        import warnings

        import polars as pl
        import pandera as pa
        import pandera.polars as pp

        warnings.simplefilter("ignore")
        data = [3, 1, 3, 1, 7]
        obs, bad = {}, False
        for label, schema in (("Column(unique=True)", pp.DataFrameSchema({"a": pp.Column(int, unique=True)})),
                              ("DataFrameSchema(unique=['a'])", pp.DataFrameSchema({"a": pp.Column(int)}, unique=["a"]))):
            try:
                schema.validate(pl.DataFrame({"a": data}), lazy=True)
                obs[label] = "accepted"
                bad = True
            except pa.errors.SchemaErrors as e:
                fc = e.failure_cases
                pairs = sorted((int(i), str(v)) for i, v in zip(fc["index"].to_list(), fc["failure_case"].to_list()) if i is not None)
                wrong = [(i, v) for i, v in pairs if str(data[i]) not in v]
                obs[label] = {"(row index, reported value)": pairs, "pairs whose value is not the value of that row": wrong}
                bad = bad or bool(wrong)
        return bad, obs

    return thunk


PolarsCheckUnique.concretize = _unique_replay
PolarsCheckNullable.concretize = _nullable_replay
PolarsCheckNullable.bounded_standin = staticmethod(_standin("nullable"))
PolarsCheckUnique.bounded_standin = staticmethod(_standin("unique"))

CONTRACTS = [PolarsCheckNullable, PolarsCheckNullableRegex, PolarsCheckUnique, PolarsCheckDtype, IsFloatDtype, PolarsColumnSetDefault]
