"""C05 / C07 (dtype objects): `check` never writes the dtype it is called on, nor the dtype it is given.

The dtype object of a Column lives inside the schema and is shared by every validation (and, for a dataframe-level dtype or a dtype
instance re-used in several columns, by several components).  pandera's dtypes are frozen dataclasses, but `object.__setattr__`
goes past that: a `check` that "resolves" its receiver to what it found in the data leaves the schema different from a snapshot
taken before the validation (its printed / serialised dtype, its equality, what a later coercion casts to).

Every engine dtype class that OVERRIDES `check` (numpy String; pandas Date, DateTime, Decimal, NpString; polars DateTime, Decimal,
Enum - the base `DataType.check` of each engine is under contract in C09), for all field values of the receiver, an argument of
the same class / another registered class / an unresolvable spelling, with and without a data container:

    frame.preexisting_objects_unchanged          on EVERY exit no field of the receiver or of the argument differs from its entry value
    strict_frame.no_write_to_shared_state        ... not even temporarily (C07)
and, where the override decides the verdict itself:
    polars DateTime  post.tz_agnostic_verdict_is_same_kind_and_time_unit / post.otherwise_native_types_equal_and_base_check
    numpy String / pandas NpString (no data)     post.recognises_object_and_string_types_only

Callees outside the class (`Engine.dtype`, the inherited `check`, `_check_decimal`, numpy / pandas element functions) are opaque
total functions here (assumed not to write their arguments; the inherited `check`s are themselves under contract in C09).
Bounded stand-in (when a body leaves the subset): the run-time contract "vars(receiver) and vars(argument) are the same before and
after" on real instances of the class against every registered dtype of its engine and 3 data containers.
"""
import dataclasses

import z3

import pandera.dtypes as D
from pandera.engines import numpy_engine, pandas_engine, polars_engine
from pyvc import core, types as T
from pyvc.core import And, Iff, Implies, Not, Or, PyExc, SAny, SBool, cur, py_eq
from pyvc.heap import Obj
from pyvc.interp import OtherException
from pyvc.spec import Contract
from pyvc.theories import dtype_lite as DL
from pyvc.theories.opaque import OpaqueVal
from contracts.C09_engine_specific import engine_fields, registered
from contracts.C09_dtype_check import truth
from contracts.util import fld, fld0

TARGETS = [
    ("numpy", numpy_engine, "String"), ("pandas", pandas_engine, "Date"), ("pandas", pandas_engine, "DateTime"), ("pandas", pandas_engine, "Decimal"),
    ("pandas", pandas_engine, "NpString"), ("polars", polars_engine, "DateTime"), ("polars", polars_engine, "Decimal"), ("polars", polars_engine, "Enum"),
]


_Opaque = OpaqueVal


def _standin_for(engine_name, mod, clsname):
    def standin(seed=0, tier="quick"):
        import copy
        import datetime
        import decimal
        import warnings

        import numpy as np
        import pandas as pd

        warnings.simplefilter("ignore")
        cls = getattr(mod, clsname)
        recv = []
        try:
            recv.append(cls())
        except Exception:  # noqa: BLE001
            pass
        extra = {"DateTime": [dict(time_zone_agnostic=True)] + ([dict(time_zone_agnostic=True, tz="UTC"), dict(tz="UTC")] if engine_name == "pandas" else [dict(time_zone="UTC"), dict(time_zone_agnostic=True, time_zone="UTC")]),
                 "Decimal": [dict(precision=10, scale=2)], "Enum": [dict(categories=["a", "b"])]}.get(clsname, [])
        for kw in extra:
            try:
                recv.append(cls(**kw))
            except Exception:  # noqa: BLE001
                pass
        others = []
        for c in registered(mod):
            try:
                others.append(c())
            except Exception:  # noqa: BLE001
                pass
        if engine_name == "pandas":
            others += [pandas_engine.DateTime(tz="UTC"), pandas_engine.DateTime(tz="Europe/Berlin")]
            conts = [None, pd.Series(pd.to_datetime(["2020-01-01"]).tz_localize("Europe/Berlin")), pd.Series([datetime.date(2020, 1, 1), None], dtype=object),
                     pd.Series([decimal.Decimal("1.25")], dtype=object), pd.Series(["a", None], dtype=object),
                     pd.Series([pd.Timestamp("2020-01-01", tz="UTC"), pd.Timestamp("2020-01-01", tz="Europe/Berlin")], dtype=object)]
        elif engine_name == "polars":
            import polars as pl

            others += [polars_engine.DateTime(time_zone="UTC"), polars_engine.DateTime(time_zone="Europe/Berlin", time_unit="ms"), polars_engine.Decimal(precision=10, scale=2)]
            try:
                others.append(polars_engine.Enum(categories=["a", "b"]))
            except Exception:  # noqa: BLE001
                pass
            conts = [None]
        else:
            conts = [None, pd.Series(["a"], dtype=object)]
        others += ["int64", "no such dtype"]
        n = 0
        bound = f"{len(recv)} receivers of {clsname} x {len(others)} arguments x {len(conts)} data containers"
        snap = lambda o: {k: repr(v) for k, v in vars(o).items()} if hasattr(o, "__dict__") else repr(o)  # noqa: E731
        for r0 in recv:
            for o in others:
                for c in conts:
                    r = copy.deepcopy(r0)
                    before_r, before_o = snap(r), snap(o)
                    n += 1
                    try:
                        r.check(o, c) if c is not None else r.check(o)
                    except Exception:  # noqa: BLE001
                        pass
                    if engine_name == "polars" and clsname == "DateTime":
                        import polars as pl

                        try:
                            verdict = bool(r.check(o))
                            native = polars_engine.Engine.dtype(o).type
                        except Exception:  # noqa: BLE001
                            verdict, native = False, None
                        if verdict and not isinstance(native, pl.Datetime):
                            return {"examples": n, "bound": bound, "failing_input": {"receiver": repr(r0), "argument": repr(o)},
                                    "observed": f"a Datetime type recognises {native!r}: a type of another kind"}
                    if snap(r) != before_r or snap(o) != before_o:
                        return {"examples": n, "bound": bound, "failing_input": {"receiver": repr(r0), "argument": repr(o), "data": None if c is None else repr(c.tolist() if hasattr(c, 'tolist') else c)},
                                "observed": {"receiver before": before_r, "receiver after": snap(r), "argument before": before_o, "argument after": snap(o)}}
        return {"examples": n, "bound": bound, "failing_input": None}

    return standin


def _mk(engine_name, mod, clsname):
    cls = getattr(mod, clsname)

    class C(Contract):
        target = f"{mod.__name__}:{clsname}.check"
        raises = (OtherException, NotImplementedError)
        split = {"argument": ["same_class", "other_class", "spelling"], "data": ["none", "given"]}
        strict_frame = True
        max_paths = 4000

        def setup(self, I):
            DL.install(I)

            # callees outside the class: opaque total functions (listed in the evidence as assumed)
            def resolve(I_, cls_, x):
                p = cur()
                if isinstance(x, Obj):
                    p.ghost["resolved"] = x
                    return x
                k = p.choose([("resolved", None), ("TypeError", None)], "Engine.dtype")
                if k == 1:
                    raise PyExc(I_.make_exc(TypeError, "not understood"))
                r = Obj(cls, "resolved", pre=True, fields=engine_fields(cls))
                r.attrs["type"] = r.attrs0["type"] = _Opaque("resolved.type")
                p.ghost["resolved"] = r
                return r

            f = mod.Engine.__dict__.get("dtype")
            I.models[id(f.__func__ if hasattr(f, "__func__") else f)] = resolve

            def base_check(I_, self_obj, *a, **k):
                p = cur()
                p.ghost.setdefault("base_check_calls", []).append((self_obj, a, k))
                return T.fresh_value(T.Bool, "inherited_check")

            for b in cls.__mro__[1:]:
                g = b.__dict__.get("check")
                if g is not None:
                    I.models[id(g)] = base_check
            if clsname == "Decimal" and engine_name == "pandas":
                I.models[id(pandas_engine._check_decimal)] = lambda I_, *a, **k: _Opaque("decimal_check")
            import numpy as np
            from pandera.engines import utils as EU

            # failure cases of a pandas container (precondition of the engine: the container is a Series / Index / DataFrame)
            I.models[id(EU.numpy_pandas_coerce_failure_cases)] = lambda I_, *a, **k: _Opaque("failure_cases")
            if engine_name == "polars":
                import polars as pl

                def pl_datetime(I_, time_unit=None, time_zone=None, **k):
                    # pl.Datetime(time_unit, time_zone): a Datetime whose attributes are the arguments (the default unit is polars' own)
                    v = OpaqueVal("pl.Datetime(..)")
                    v._isinst[(pl.Datetime,)] = True
                    v._attrs["time_unit"] = time_unit if time_unit is not None else OpaqueVal("default_time_unit")
                    v._attrs["time_zone"] = time_zone
                    return v

                I.models[id(pl.Datetime)] = pl_datetime
            I.models[id(np.full_like)] = lambda I_, *a, **k: _Opaque("all_false")
            import pandas as pd

            I.models[id(pd.DatetimeTZDtype)] = lambda I_, *a, **k: _Opaque("DatetimeTZDtype(unit, tz)")
            I.models[id(np.dtype)] = lambda I_, *a, **k: _Opaque("np.dtype(..)")

        def make_args(self):
            s = Obj(cls, "self", pre=True, fields=engine_fields(cls))
            how = self.fixed.get("argument", "same_class")
            if how == "same_class":
                o = Obj(cls, "pandera_dtype", pre=True, fields=engine_fields(cls))
            elif how == "other_class":
                cs = [c for c in registered(mod) if c is not cls]
                j = cur().choose([(c.__name__, None) for c in cs], "type(pandera_dtype)")
                o = Obj(cs[j], "pandera_dtype", pre=True, fields=engine_fields(cs[j]))
            else:
                o = T.fresh_value(T.Str, "pandera_dtype")
            # native type objects: opaque library values (attributes such as time_unit / categories are opaque values with symbolic equality)
            for ob in (s, o):
                if isinstance(ob, Obj):
                    nt = _Opaque(f"{ob.name}.type")
                    ob.attrs["type"] = nt
                    ob.attrs0["type"] = nt
            dc = None if self.fixed.get("data", "none") == "none" else _Opaque("data_container")
            return {"self": s, "pandera_dtype": o, "data_container": dc}

        def call_target(self, I, fn, a):
            return I.call(fn, [a["self"], a["pandera_dtype"], a["data_container"]], {})

        def ensures(self, result, old, self_, pandera_dtype, data_container):
            out = {"returns": True}
            res = cur().ghost.get("resolved")
            if engine_name == "polars" and clsname == "DateTime" and isinstance(res, Obj):
                import polars as pl

                tza = fld0(self_, "time_zone_agnostic")
                bc = cur().ghost.get("base_check_calls", [])
                if cur().ghost["interp"].truth(tza):
                    out["tz_agnostic_verdict_needs_no_base_check"] = not bc
                    # "time zone agnostic": any Datetime of the same time unit, whatever its zone - and nothing else (a Duration of the
                    # same unit is another KIND of type: C09 "a temporal type never recognises a type of another kind")
                    rt, st = fld0(res, "type"), fld0(self_, "type")
                    same_kind = rt.pyvc_isinstance(pl.Datetime)
                    same_unit = py_eq(rt.time_unit, st.time_unit)
                    out["tz_agnostic_verdict_is_same_kind_and_time_unit"] = Iff(truth(result), And(same_kind, same_unit))
                else:
                    out["otherwise_base_check_on_the_resolved_type_at_most_once"] = len(bc) <= 1 and all(c[0] is self_ and c[1] and c[1][0] is res for c in bc)
                    out["otherwise_not_recognised_unless_native_types_equal"] = Implies(truth(result), py_eq(fld0(self_, "type"), fld0(res, "type")))
            if clsname in ("String", "NpString") and data_container is None and isinstance(pandera_dtype, Obj):
                ok = issubclass(pandera_dtype.cls, (numpy_engine.Object, cls))
                out["recognises_object_and_string_types_only"] = Iff(truth(result), ok)
            return out

        def on_raise(self, exc, old, **a):
            if exc.cls is NotImplementedError:
                return {"not_implemented_only_for_pyspark_decimal": clsname == "Decimal"}
            return {}

        bounded_standin = staticmethod(_standin_for(engine_name, mod, clsname))

    C.__name__ = f"DtypeCheckLeavesDtypesAlone_{engine_name}_{clsname}"
    return C


class PandasDateTimeCoerceLeavesTheDtypeAlone(Contract):
    """pandas_engine.DateTime.coerce (incl. the time_zone_agnostic preparation, which re-assigns `tz` / `type` on the receiver): on
    every exit the dtype object holds what it held at entry, and every attribute store re-binds the very object that was there
    (so no reader in another thread can observe a change).
    Class invariant assumed at entry (established by __post_init__, the only other writer): `unit` is a non-empty string and, with a
    time zone, `type is pd.DatetimeTZDtype(unit, tz)` (pandas interns DatetimeTZDtype instances per (unit, tz): one object per pair)."""

    target = "pandera.engines.pandas_engine:DateTime.coerce"
    raises = (OtherException,)
    strict_frame = True
    split = {"tz": ["given", "None"], "agnostic": [True, False]}

    def setup(self, I):
        DL.install(I)
        import numpy as np
        import pandas as pd
        from pandera.engines import utils as EU
        from pandera.errors import ParserError

        self.raises = (ParserError,)
        interned = {}

        def dtz(I_, unit=None, tz=None, *a, **k):
            key = (id(unit), id(tz))
            if key not in interned:
                interned[key] = (OpaqueVal("DatetimeTZDtype(unit, tz)"), unit, tz)  # (keeps unit / tz alive: ids stay unique)
            return interned[key][0]

        cur_interned = interned
        self._dtz = lambda unit, tz: dtz(None, unit, tz)
        I.models[id(pd.DatetimeTZDtype)] = dtz
        I.models[id(np.dtype)] = lambda I_, *a, **k: OpaqueVal("np.dtype(..)")
        I.models[id(pd.Timestamp)] = lambda I_, *a, **k: OpaqueVal("Timestamp")
        I.models[id(EU.numpy_pandas_coerce_failure_cases)] = lambda I_, *a, **k: OpaqueVal("failure_cases")
        I.models[id(pandas_engine.DateTime._coerce)] = lambda I_, self_obj, data, pandas_dtype=None: (cur().ghost.__setitem__("cast_to", pandas_dtype), OpaqueVal("coerced"))[1]

    def make_args(self):
        cls = pandas_engine.DateTime
        s = Obj(cls, "self", pre=True, fields=engine_fields(cls))
        unit = T.fresh_value(T.Str, "unit")
        cur().assume(SBool(z3.Length(unit.z) > 0))
        tz = OpaqueVal("tzinfo") if self.fixed.get("tz", "given") == "given" else None
        ty = self._dtz(unit, tz) if tz is not None else OpaqueVal("datetime64[ns]")
        for a, v in (("unit", unit), ("tz", tz), ("type", ty), ("time_zone_agnostic", self.fixed.get("agnostic", False))):
            s.attrs[a] = v
            s.attrs0[a] = v
        cur().ghost["entry_type"] = ty
        return {"self": s, "data_container": OpaqueVal("data_container")}

    def call_target(self, I, fn, a):
        return I.call(fn, [a["self"], a["data_container"]], {})

    def ensures(self, result, old, self_, data_container):
        return {"cast_to_the_declared_native_type": cur().ghost.get("cast_to") is cur().ghost["entry_type"]}

    def on_raise(self, exc, old, self_, data_container):
        from pandera.errors import ParserError

        if exc.cls is ParserError:
            return {"parser_error_only_for_time_zone_agnostic_coercion": self.fixed.get("agnostic") is True}
        return {}


CONTRACTS = [_mk(*t) for t in TARGETS] + [PandasDateTimeCoerceLeavesTheDtypeAlone]


# ---------------------------------------------------------------------------------------------------------
# structural: process-wide registries reachable from a schema are never duplicated by copy / deepcopy
# ---------------------------------------------------------------------------------------------------------
def registries_are_not_duplicated_by_copies():
    """For every built-in check: the Dispatcher in Check.CHECK_FUNCTION_REGISTRY survives copy.copy / copy.deepcopy as the SAME object
    (a copy would freeze the set of implementations registered so far; back ends register lazily, so a schema would differ from a deep
    copy taken before its first validation: `schema == snapshot` is part of C05).  Exhaustive over the live registry."""
    import copy
    import warnings

    warnings.simplefilter("ignore")
    import pandera as pa

    bad = []
    reg = pa.Check.CHECK_FUNCTION_REGISTRY
    for name, fn in sorted(reg.items()):
        if copy.deepcopy(fn) is not fn or copy.copy(fn) is not fn:
            bad.append(name)
    chk = pa.Check.gt(0)
    same = copy.deepcopy(chk)._check_fn is chk._check_fn
    return [{"oid": "structural.registries_are_not_duplicated_by_copies/check_dispatchers", "ok": not bad and same,
             "note": f"{len(reg)} registered built-in check dispatchers; duplicated by a copy: {len(bad)}", "witness": {"duplicated": bad[:8], "deepcopy(Check.gt(0))._check_fn is the original": same}}]


def _replay_registry(rec):
    def thunk():
        import copy
        import subprocess
        import sys

        code = ("import warnings; warnings.simplefilter('ignore'); import copy, pandas as pd, pandera as pa\\n"
                "s = pa.DataFrameSchema({'a': pa.Column(int, pa.Check.gt(0))}); snap = copy.deepcopy(s)\\n"
                "s.validate(pd.DataFrame({'a': [1]})); print(s == snap)")
        p = subprocess.run([sys.executable, "-c", code], capture_output=True, text=True, timeout=300)
        out = p.stdout.strip().splitlines()[-1:] or [p.stderr[-200:]]
        return out != ["True"], {"schema == deepcopy taken before the first validation (fresh interpreter)": out[0]}

    return thunk


registries_are_not_duplicated_by_copies.concretize = _replay_registry
STRUCTURAL = [registries_are_not_duplicated_by_copies]
