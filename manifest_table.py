"""Which properties are claimed, at what level, with what trusted base (input of bin/gen_manifest.py)."""
COMMON_NOTE = ("Proof is modular over pandera's own code: pandas/polars/numpy/hypothesis operations and python builtins are assumed contracts "
               "(pyvc/theories, pyvc/stdlib_models.py); python semantics as encoded by PyVC (S-int, S-heap, S-exc, S-callback, S-lib); "
               "z3/cvc5 trusted. ")

CLAIMED = {
    "C01": {"text": "Every obligation generated from the contracts of the pandas built-in checks and per-field core checks is discharged by SMT for all inputs "
                    "(all series lengths, values, nulls, bounds, flags). Covers the leaf predicates and field-level core checks; the composition to whole-schema "
                    "verdicts is covered as far as the listed functions go.",
            "note": COMMON_NOTE + "Regex matching is an uninterpreted relation; reshape_failure_cases is opaque."},
    "C18": {"text": "Environment parsing, context save/override/restore on every exit of an arbitrary with-body (generator split at the yield), the scope wrapper "
                    "skip rule, report filtering and the polars depth default are proved for all option values / all depths.",
            "note": COMMON_NOTE + "The with-body is an arbitrary effect on the context configuration; copy.copy model."},
    "C19": {"text": "Alias constructors are proved to be exactly one call of the canonical constructor with the same arguments; ignore_na/element_wise/"
                    "n_failure_cases/raise_warning semantics of the pandas check back end are proved for all series and option values.",
            "note": COMMON_NOTE + "groupby(...).head(n) is axiomatised as an arbitrary sub-selection; user predicates are S-callbacks."},
    "C20": {"text": "pandas subsample is proved against the position-set spec (rows == head U tail U pick, each once, values and order kept) for all "
                    "frames/series, all h,t,n and random states under the unique-index precondition; the any-index form is refuted by the verifier and listed as a "
                    "known finding with native replay. The wiring of subsample vs whole object into every core check is proved for the container and array back ends.",
            "note": COMMON_NOTE + "sample(n, random_state) is an uninterpreted row set that depends only on (random_state, n, object); polars subsample not yet under contract."},
}

NOT_APPLICABLE = {}

SOURCE_COMMITS = []
