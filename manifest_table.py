"""Which properties are claimed, at what level, with what trusted base (input of bin/gen_manifest.py)."""
COMMON_NOTE = ("Proof is modular over pandera's own code: pandas/polars/numpy/hypothesis operations and python builtins are assumed contracts "
               "(pyvc/theories, pyvc/stdlib_models.py); python semantics as encoded by PyVC (S-int, S-heap, S-exc, S-callback, S-lib); "
               "z3/cvc5 trusted. ")

CLAIMED = {
    "C01": {"text": "Every obligation generated from the contracts of the pandas built-in checks and per-field core checks is discharged by SMT for all inputs "
                    "(all series lengths, values, nulls, bounds, flags). Covers the leaf predicates, the field-level core checks incl. check_dtype, the composition "
                    "(every parser and every core check runs on every validate, also for a frame that already carries the schema in its .pandera accessor; every failing "
                    "result is reported), the whole check pipeline from Check.__call__ to the CheckResult (back-end __call__, the preprocess / apply / postprocess dispatchers over the "
                    "full object-kind x output-kind matrix, apply_field / apply_table / apply_dict: no verdict without calling the check function; table-shaped output bounded), joint "
                    "uniqueness and - shape-bounded - column presence / strict / filter / order."
                    " Since session 4 also: IndexBackend.validate (the index is judged as the series of its own values AND dtype), duplicated nulls among the uniqueness failure cases, the index keeps its own dtype under a dataframe-level dtype, nullable-boolean check outputs (refuted: known finding), frame-level ignore_na from the documentation (refuted: known finding)."
                    " Session 5: table-shaped check outputs aligned with the table are decided (cell verdicts, verdict, reported cells; unaligned outputs / repeated labels stay bounded); every violated joint-uniqueness group is reported; the container twins (strict / ordered over layouts with regex columns) are part of C01.",
            "note": COMMON_NOTE + "Regex matching is an uninterpreted relation; reshape_failure_cases is opaque."},
    "C18": {"text": "Environment parsing, context save/override/restore on every exit of an arbitrary with-body (generator split at the yield), the scope wrapper "
                    "skip rule, report filtering and the polars depth default are proved for all option values / all depths; the kill switch "
                    "(validation disabled -> argument returned, no back end looked up) at every public validate of the pandas and polars APIs; structural: every core check "
                    "of both back ends (resolved through the MRO of each concrete back-end class) carries exactly one scope and that scope is the declared scope of the reason "
                    "codes it reports; call-site obligation that parser-stage errors respect the depth (refuted: known finding)."
                    " Since session 4 also: the collector contracts of C02 (the handler keeps every error it is offered, whatever the depth)."
                    " Session 5: the polars cast selected per depth (DATA_ONLY validates data) is part of C18.",
            "note": COMMON_NOTE + "The with-body is an arbitrary effect on the context configuration; copy.copy model."},
    "C19": {"text": "Alias constructors are proved to be exactly one call of the canonical constructor with the same arguments; ignore_na/element_wise/"
                    "n_failure_cases/raise_warning semantics of the pandas check back end are proved for all series and option values; group-by checks (call and group formatting); the "
                    "check pipeline shared with C01 (every option acts only in the step that documents it; dispatch never skips a step)."
                    " Since session 4 also: grouped ignore_na (preprocess_table_with_key with a groupby), nullable-boolean outputs, a dispatcher is refreshed by the built-in it implements."
                    " Session 5: polars element-wise checks are evaluated with the Check's keyword arguments; table-shaped outputs (ignore_na per cell, n_failure_cases).",
            "note": COMMON_NOTE + "groupby(...).head(n) is axiomatised as an arbitrary sub-selection; user predicates are S-callbacks."},
    "C02": {"text": "ErrorHandler.collect_error/collect_errors are proved (eager raises exactly the offered error and records nothing; lazy appends exactly one "
                    "record), every collection loop is proved to offer each failing core result exactly once, in order, carrying the result's fields, the component "
                    "loop loses and invents nothing, and the lazy/eager agreement follows as a lemma over those contracts; the same for the polars container; which cells a "
                    "failing check reports (postprocess_field: exactly the rows whose output is False, also under repeated labels); every run_checks of both back ends yields one "
                    "result per declared check; the polars lazy report lists one row per failure case of every collected error, none merged (failure_cases_metadata over height-only frames). "
                    "The pandas reshape/consolidate pipelines are not under contract."
                    " Since session 4 also: reshape_failure_cases for one-column failure cases (a failure case on a row labelled NaN is kept), the polars producers of row masks (check_nullable, check_unique, joint uniqueness: failure cases in row order, one per masked-out row)."
                    " Session 5: consolidate_failure_cases (the column, context and completeness of the report rows), every violated joint-uniqueness group, the polars coercion helper (every column attempted, one error per column), a standalone Column under lazy coercion.",
            "note": COMMON_NOTE + "reshape_failure_cases / consolidate_failure_cases are opaque (pandas unstack/concat pipelines); SchemaErrors.__init__ is used through its contract."},
    "C03": {"text": "Lineage obligations on the real bodies of DataFrameSchemaBackend.validate, ArraySchemaBackend.validate and SeriesSchema.validate: the object that is "
                    "checked and returned is the result of the whole parser chain in order (each parser under its interface contract); drop_invalid_rows row algebra "
                    "proved for pandas (all error counts, closed-form loop invariant) and polars (all frames, <= 3 errors); the polars container (parsers in documented order, "
                    "sub-sample taken from the parsed frame, result is the parsed frame) and column back end; polars add_missing_columns (declared dtype, nothing lost, "
                    "nothing else added), set_default (present columns only) and strict_filter_columns on frames that hold columns column_info does not list (the added ones are kept). "
                    "The custom-parser pipeline (run_parsers of both pandas back ends for 0-3 parsers, run_parser, Parser.__call__, PandasParserBackend) and the write-back of parsed columns by "
                    "ColumnBackend.validate. Idempotence of the individual parsers (library casts) is not decided. Refuted, known findings: polars drop_invalid_rows with head/tail/sample; "
                    "a column-level drop_invalid_rows inside a DataFrameSchema; column parsers under sub-sampling."
                    " Since session 4 also: facts resolved from one frame of the parser chain (column info, dtypes) are used for that frame only (both containers); the coerced index is the index of the result."
                    " Session 5: polars set_default over regex-declared columns, the column info of the PARSED frame (lengths of frame facts modelled), dtype-less added columns.",
            "note": COMMON_NOTE + "The parsers add_missing_columns/strict_filter_columns/set_defaults/coerce_dtype are replaced by interface contracts (return a derived table or raise "
                    "SchemaError(s)); dtype coercion semantics are pandas/polars facts (C10)."},
    "C04": {"text": "Ownership/frame obligations on every validate entry point of the pandas back end (container, array, column, index, series) and the polars API: with "
                    "inplace=False no callee that writes in place ever receives the caller's object; container kind preserved (polars DataFrame/LazyFrame at the API level, "
                    "LazyFrame in / LazyFrame out in the polars column back end incl. drop_invalid_rows); MultiIndex back end; the Index back end hands the index values on "
                    "under positional labels; copy-on-entry is a DEEP copy (preprocess of the array and container back ends; shallow copies and column views share buffers in the "
                    "theory) and set_default never fills the caller's Series in place."
                    " Session 5: ColumnInfo name lists with decidable truth (the caller's frame after a collected add_missing_columns error), the final collect of the polars API (pending strict cast), back-end lookup failure.",
            "note": COMMON_NOTE + "S-lib mutator table (which library operations write their receiver) is assumed; MultiIndexBackend.validate is covered by the fix but not under contract."},
    "C05": {"text": "Frame obligations (every attribute of every pre-existing schema object equals its entry value on every normal and exceptional exit) on the "
                    "validate call graph of the pandas back end, including the mutate-then-revert idioms, for every component kind and every outcome of the component's validate; "
                    "MultiIndexBackend.validate and the polars component functions work on private copies (proved for every outcome); every `check` override of the numpy / pandas / "
                    "polars engine dtypes leaves its receiver and its argument unwritten on every exit (native dtype objects and data containers are opaque values)."
                    " Since session 4 also: every schema transformation (the C15 contracts: receiver unchanged, nothing mutable shared), the hypothesis check back end (no write to the Hypothesis object), polars dtype-only schemas, closure variables of decorator factories as pre-existing state."
                    " Session 5: schema comparison never raises (component __eq__), the coercion helper with the schema's index (single / MultiIndex exit).",
            "note": COMMON_NOTE + "Serialisation / statistics / strategies / model operations of the property's history alphabet are covered by C12-C16's contracts, not here."},
    "C06": {"text": "Exception-set obligations (only documented classes escape) and restore-on-exceptional-exit obligations with the user callback raising at a symbolic "
                    "position k of each run_checks loop; call-site precondition of drop_invalid_rows; structural obligation that every SchemaError construction site "
                    "uses a mapped reason code; the polars container / column back ends, polars add_missing_columns and set_default (no polars exception class escapes); the mask of a "
                    "failed polars coercion has one row per data row (else building the report raises); dtype `check` overrides raise nothing."
                    " Since session 4 also: a raising user parser must stay in the documented channel (refuted: known finding), polars Column default without dtype, polars Category.try_coerce."
                    " Session 5: DataFrame / Series attribute protocol (a column label is an attribute: the dask branch), back-end lookup failure is a TypeError, dtype-less added columns, the polars final collect, the coercion helper's exits.",
            "note": COMMON_NOTE + "Which exceptions library operations raise is declared per model; an undeclared library exception is outside the claim."},
    "C07": {"text": "Decides the sufficient condition data-race freedom on pandera state: the validate call graph is re-verified with the strict frame (no write, not even "
                    "a reverted one, to schema objects or module globals). The three writes that exist are refuted and listed as known findings with deterministic "
                    "callback-gated two-thread replays; everything else is proved. Lazy back-end registration: nothing shared is written before the last register_backend "
                    "call (publish order), every declared type gets its back ends, register_backend is an idempotent publish; writes to live module-level containers of pandera "
                    "are tracked; Dispatcher.__call__ (the process-wide object behind every built-in check) only reads; DataFrameModel.to_schema binds only finished objects to the "
                    "class (no in-place write after publication; the same rule is part of the strict frame everywhere); structural inventory: the functions that write module-level state and the "
                    "memoised functions of all of pandera are exactly the documented ones. Schedules themselves are not enumerated."
                    " Since session 4 also: inventory of interpreter-wide switches (warnings filters, os.environ, numpy / pandas / polars options, seeds).",
            "note": COMMON_NOTE + "pandas/polars/numpy are assumed thread-compatible on distinct data objects; liveness and deadlock are out of reach of contracts."},
    "C08": {"text": "All polars built-in checks are proved against the same spec functions as their pandas twins, and for the 9 comparison/membership checks the REAL "
                    "pandas and polars check back ends are executed side by side symbolically and proved to reach the same verdict for every column, bounds and "
                    "ignore_na=True (ignore_na=False is refuted: known finding). Container level: collect_column_info -> strict_filter_columns -> check_column_presence of BOTH "
                    "back ends against one documented spec of strict / 'filter' / ordered / required / add_missing_columns, for all option values over all column layouts "
                    "with <= 3 declared and <= 3 frame columns (shape-bounded, options symbolic); polars component copies, parsers and null handling of row-wise outputs "
                    "(ignore_na) as shared with C03/C05/C11; polars check_nullable (incl. NaN in float columns) / check_unique against the pandas specs, with bounded stand-ins."
                    " Since session 4 also: NaN arriving as a float value vs as a null in the twin checks (polars total order of floats modelled; refuted: known findings), unique_values_eq on both back ends, compiled patterns with flags, polars Column.set_default, regex column selection (collect_column_info composed with collect_schema_components), column info regenerated after the parsers, add_missing_columns column order (refuted: known finding)."
                    " Session 5: the polars container validate (components chosen by the parsed frame) is part of C08; element-wise checks with the Check's keyword arguments.",
            "note": COMMON_NOTE + "polars expression semantics (Kleene logic, all() ignoring nulls) are axioms of pyvc/theories/polars_lite.py; the container twins are bounded in the "
                    "column layout (148 layouts, stated in every obligation note), regex columns excluded; parsed-output equality across back ends is not under contract."},
    "C09": {"text": "DataType.check predicates over the live class lattice with symbolic widths, Engine.dtype resolution order for a generic engine (symbolic equivalents table), "
                    "engine-specific check/dtype entry points, the 27 from_parametrized_dtype converters (every parameter of the native type is forwarded, for all native objects), "
                    "registration (register_dtype registers the parametrised-dtype hook of a class only if the class itself defines it; _register_from_parametrized_dtype), "
                    "and an exhaustive structural closure over every registered key of the numpy/pandas/polars/pyspark engines."
                    " Since session 4 also: pandas Engine.dtype itself (TypeError only; bare pyarrow instances), constructor contracts of the polars parametrised types and pandas STRING, Array / ArrowBinary converters, registry clauses data_types_are_value_objects and native_pyarrow_instance_resolves_to_its_arrow_type.",
            "note": COMMON_NOTE + "Parametrised constructors (time zones, units, categories, decimal precision) are bounded stand-ins (listed under bounded, not counted)."},
    "C10": {"text": "The wrappers are proved: try_coerce (pandas, numpy) returns coerce's result, propagates/wraps errors into a ParserError carrying exactly the "
                    "element-wise failure cases; numpy_pandas_coercible is element-wise 'coerce_value does not raise'; schema-level ParserError -> "
                    "SchemaError(DATATYPE_COERCION) with the same failure cases; polars coercible/failure-case row algebra incl. polars_coerce_failure_cases under every way polars can "
                    "refuse the cast (mask over the data rows, failure cases == masked-out rows); polars column / container coercion helpers; polars try_coerce evaluates the cast before returning. The per-dtype casting behaviour "
                    "(the heart of the property) is a library fact: covered only by a bounded run-time contract on the real try_coerce of the registered types."
                    " Since session 4 also: NpString.coerce over a container theory (object dtype keeps what is written), polars Category.try_coerce, the no-key (dataframe-level dtype) case of polars_object_coercible / polars_coerce_failure_cases proved instead of bounded."
                    " Session 5: numpy_pandas_coercible restated from the property (missing values), numpy_pandas_coerce_failure_cases (decided by the data type of THIS call; memoised functions are state), Date / Decimal over the container kinds; signed decimals in the bounded family (bounded).",
            "note": COMMON_NOTE + "coerce / coerce_value of each data type are S-callbacks in the proofs; the non-strict polars cast is an uninterpreted 'castable' predicate. "
                    "Bounded part: 40 (quick) / 400 (thorough) containers per data type, length <= 5."},
    "C11": {"text": "pandas drop_invalid_rows: rows(result) == rows whose label no collected error reports, for any number of errors (closed-form invariant), values/order kept; "
                    "polars: rows kept iff every row-aligned check output is true, for all frames and <= 3 errors; what a row-wise polars check reports per row "
                    "(ignore_na leaves no null output, column and dataframe-level checks); the row masks of polars nullability / uniqueness / failed coercion are over the data rows; "
                    "the call-site preconditions (only row-attributable errors; masks over the frame that is filtered, i.e. no head/tail/sample) are refuted and listed."
                    " Since session 4 also: the regex component selection of the polars container and reshape_failure_cases (what drop_invalid_rows reads)."
                    " Session 5: the MultiIndex branch of pandas drop_invalid_rows (rows matched by the text of their label); that text is one function of the label (structural + enumerated obligations); polars when/then/otherwise (mask never null).",
            "note": COMMON_NOTE + "MultiIndex label round trip through str/eval and reshape_failure_cases' 'index' column are not under contract."},
    "C12": {"text": "YAML/JSON leg: the live serialisers and deserialisers are executed as composite round trips (through an assumed dump+load transport that is the identity on "
                    "the JSON domain) and proved attribute by attribute for check statistics/options of all 15 built-in checks, components and whole schemas; script leg: every "
                    "template slot is proved to evaluate to the attribute it is named after (text theory); structural obligations on templates and keys."
                    " Session 5: non-finite statistics in to_script (text axiom E1 restricted to finite floats, E6), strict by its three legal values.",
            "note": COMMON_NOTE + "yaml/json/black/exec are assumed (31 theory axioms replayed on the real libraries); schema shapes 0-2 columns, no index / Index / MultiIndex; from_yaml's file handling is a bounded stand-in."},
    "C13": {"text": "The 14 check strategies are proved against the C01 spec functions (support of the result inside dtype domain and check meaning, chained or base) for "
                    "int64/float64/str, numpy_time_dtypes bounds for datetime/timedelta; field_element_strategy's chaining loop with the invariant support(elements) within the intersection of the checks seen; flag flow of the "
                    "series/index/column assembly and schema strategy entry points; the post-processing pipeline of dataframe_strategy (custom checks without strategy are "
                    "evaluated on the frame that is emitted, the index component is attached; assembly call abstracted to an arbitrary base strategy); structural dispatcher table; "
                    "structural: no function of the strategy modules keeps state between calls."
                    " Since session 4 also: joint uniqueness of dataframe_strategy is carried by a column that cannot be nulled (all-nullable: known finding); the row strategy honours the columns' own checks."
                    " Session 5: the null mask is the last value step of index_strategy.",
            "note": COMMON_NOTE + "hypothesis strategies are modelled by their support (pyvc/theories/hypothesis_lite.py); data_frames/multiindex assembly is a bounded stand-in."},
    "C14": {"text": "Statistics inference, statistics->checks, schema construction and the check serialisation pipeline are proved over all in-quantifier dtypes; lemma: the inferred "
                    "bounds admit the data and are attained."
                    " Since session 4 also: RangeIndex (start / stop symbolic, five steps) in infer_index_statistics."
                    " Session 5: list-valued statistics are ONE argument of their check (single-category categoricals).",
            "note": COMMON_NOTE + "pd.api.types.infer_dtype answers, float rounding monotonicity and the YAML text leg are assumed / bounded (see notes/C14.md)."},
    "C15": {"text": "Every transformation method (pandas and polars schema classes) is proved per attribute (touched / untouched / schema-level / key order / no shared "
                    "mutable state / receiver frame / error exits) for all attribute values over an enumerated family of dict shapes; inverse laws as two-operation programs."
                    " Since session 4 also: the schema-level joint uniqueness constraints under every operation (unique_spec), `required` as part of the reset-after-set law (refuted: known finding)."
                    " Session 5: reset_index with a level named like a column / of an unnamed index; comparisons of schemas never raise.",
            "note": COMMON_NOTE + "Dict shapes are enumerated (3 columns, 2-3 index levels, enumerated request lists): a bound of the claim; 'accepts exactly the transformed frames' is a bounded run-time contract."},
    "C16": {"text": "Check/parser collection over an abstract MRO of unbounded depth (closed-form quantified invariants), to_check/to_parser, Field keyword dispatch, "
                    "column/index properties, to_schema caching and parent frame; structural tables for the option wiring."
                    " Since session 4 also: _regex_filter with non-text aliases."
                    " Session 5: FieldInfo.name (a given alias is the name whatever its value).",
            "note": COMMON_NOTE + "_collect_fields (annotation parsing) is a bounded stand-in over generated hierarchies; Config / extras inheritance is a bounded enumeration over chains, mixins and diamonds (<= 4 model classes)."},
    "C17": {"text": "For 27 signature shapes (arity <= 3 plus *rest/**kw, sync and async) the real decorator factories and wrappers are symbolically executed for all argument "
                    "values, options and behaviours of schema.validate and the body: option forwarding, gate, transparency, designation independence; decoration-time state "
                    "(closures, handlers) is unchanged by every call (two-phase frame)."
                    " Since session 4 also: Union annotations with None anywhere; check_io keeps no state between calls (closure variables in the frame)."
                    " Session 5: check_input / check_io also for a designated argument left at its default or passed by keyword with an int getter (three findings repaired, none open), namedtuple outputs.",
            "note": COMMON_NOTE + "The family of signature shapes is a bound of this claim; inspect/typing run natively on real function objects (see notes/C17.md)."},
    "C20": {"text": "pandas subsample is proved against the position-set spec (rows == head U tail U pick, each once, values and order kept) for all "
                    "frames/series, all h,t,n and random states under the unique-index precondition; the any-index form is refuted by the verifier and listed as a "
                    "known finding with native replay. The wiring of subsample vs whole object into every core check is proved for the pandas container and array back ends and the "
                    "polars container; polars subsample against the same spec (value de-duplication and sample refuted: known findings); the Index back end forwards the options and "
                    "validates the index values under positional labels.",
            "note": COMMON_NOTE + "sample(n, random_state) is an uninterpreted row set that depends only on (random_state, n, object)."},
}

NOT_APPLICABLE = {}

SOURCE_COMMITS = []
