"""Replay of known finding C07-pandas-column-rename (exit 1 = reproduces).
ColumnBackend.validate sets schema.name to the matched column on the SHARED regex Column for the duration of the column's
validation.  A concurrent validation with the same schema resets the name (collect_schema_components), so the first call
continues with the regex pattern as column key and fails where its solo run succeeds.  Callback-gated schedule."""
import sys
import threading
import pandas as pd
import pandera as pa

in_cb, release = threading.Event(), threading.Event()
gate = {"on": False}


def blocking_parser(series):
    if gate["on"] and threading.current_thread().name == "A":
        in_cb.set()
        release.wait(10)
    return series


schema = pa.DataFrameSchema({"^c_.*$": pa.Column(int, parsers=pa.Parser(blocking_parser), regex=True)})
good = pd.DataFrame({"c_1": [1]})


def outcome():
    try:
        schema.validate(good)
        return "accepted"
    except Exception as e:  # noqa
        return "raised " + type(e).__name__


solo = outcome()
gate["on"] = True
res = {}
ta = threading.Thread(target=lambda: res.__setitem__("A", outcome()), name="A")
ta.start()
in_cb.wait(10)
tb = threading.Thread(target=lambda: res.__setitem__("B", outcome()), name="B")
tb.start()
tb.join(10)
release.set()
ta.join(10)
print({"solo": solo, "A_interleaved_with_B": res.get("A"), "B": res.get("B")})
sys.exit(1 if res.get("A") != solo else 0)
