"""Replay of known finding C13-str-length-none-bound: exits 1 while the defect reproduces on the real code.

Check.str_length documents min_value / max_value as optional (one may be None).  str_length_strategy passes None to
st.text(min_size=None) (InvalidArgument) and, when chained, to partial(min_len, None) / partial(max_len, None) (TypeError at draw
time): a satisfiable schema cannot be synthesised at all.
"""
import sys, warnings
warnings.simplefilter("ignore")
import hypothesis
import pandas as pd
import pandera as pa


def invalid_draw(schema, size=3):
    """a draw of schema.strategy(size) that schema.validate rejects (found by hypothesis.find), or None"""
    def bad(obj):
        try:
            schema.validate(obj)
            return False
        except (pa.errors.SchemaError, pa.errors.SchemaErrors):
            return True
    try:
        return hypothesis.find(schema.strategy(size=size), bad, settings=hypothesis.settings(max_examples=120, database=None, deadline=None))
    except (hypothesis.errors.NoSuchExample, hypothesis.errors.Unsatisfiable):
        return None


out = {}
for label, schema in {"str_length(max_value=3)": pa.SeriesSchema(str, pa.Check.str_length(max_value=3)),
                      "[str_startswith('a'), str_length(max_value=3)]": pa.SeriesSchema(str, [pa.Check.str_startswith("a"), pa.Check.str_length(max_value=3)]),
                      "[str_startswith('a'), str_length(min_value=2)]": pa.SeriesSchema(str, [pa.Check.str_startswith("a"), pa.Check.str_length(min_value=2)])}.items():
    try:
        ex = schema.example(size=2)
        schema.validate(ex)
        out[label] = "ok"
    except (hypothesis.errors.InvalidArgument, TypeError) as e:
        out[label] = f"{type(e).__name__}: {e}"[:120]
print(out)
sys.exit(1 if any(v != "ok" for v in out.values()) else 0)
