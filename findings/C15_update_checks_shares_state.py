"""C15 finding: update_checks / set_checks return a shallow copy: the new component shares its parsers list and
metadata dict with the receiver, so changing the result changes the receiver (receiver fingerprint is not stable).
Exits 1 while the defect reproduces."""
import os, sys
sys.path.insert(0, os.environ.get("PANDERA_REPO", "/repo"))
import pandera as pa

c = pa.Column(int, parsers=[pa.Parser(lambda s: s)], metadata={"k": 1})
before = (len(c.parsers), dict(c.metadata))
c2 = c.update_checks([pa.Check.ge(0)])
c2.parsers.append(pa.Parser(lambda s: s + 1))
c2.metadata["k"] = 2
after = (len(c.parsers), dict(c.metadata))
print("receiver (n parsers, metadata) before:", before, "after mutating the RESULT:", after)
bad = before != after
print("DEFECT REPRODUCES" if bad else "not reproduced")
sys.exit(1 if bad else 0)
