"""Replay of known finding C17-int-getter-keyword-indexerror: exits 1 while the defect reproduces on the real code.

check_input with an integer obj_getter indexes the POSITIONAL arguments of the call only: when the designated argument is
passed by keyword a perfectly valid call raises IndexError and the body never runs (the undecorated function, and the
str / None designations of the same parameter, accept the call).
"""
import sys

import pandas as pd

import pandera as pa
from pandera import check_input

schema = pa.DataFrameSchema({"a": pa.Column(int)})
df = pd.DataFrame({"a": [1]})


def run(getter, how):
    @check_input(schema, getter)
    def body(df, x=0):
        return "body ran"

    try:
        return body(df) if how == "positional" else body(df=df)
    except Exception as e:  # noqa: BLE001
        return f"{type(e).__name__}"


obs = {(g, how): run(g, how) for g in (None, "df", 0) for how in ("positional", "keyword")}
for k, v in obs.items():
    print(f"obj_getter={k[0]!r} argument passed {k[1]}: {v}")
sys.exit(0 if all(v == "body ran" for v in obs.values()) else 1)
