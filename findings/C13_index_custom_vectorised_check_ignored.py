"""Replay of known finding C13-index-vectorised-check-ignored: exits 1 while the defect reproduces on the real code.

series_strategy and dataframe_strategy filter whole draws by every vectorised check that has no strategy; index_strategy and
multiindex_strategy do not: a custom vectorised check on an Index / MultiIndex level is ignored by the strategy.
"""
import sys, warnings
warnings.simplefilter("ignore")
import hypothesis
import pandas as pd
import pandera as pa
import pandera.backends.pandas.builtin_checks  # noqa: F401

out = {}
for label, ix in {"Index(int, Check(lambda s: s < 1000))": pa.Index(int, pa.Check(lambda s: s < 1000), name="i"),
                  "MultiIndex([Index(int, Check(lambda s: s < 1000))])": pa.MultiIndex([pa.Index(int, pa.Check(lambda s: s < 1000), name="l0")])}.items():
    schema = pa.DataFrameSchema(index=ix)
    def bad(obj, schema=schema):
        try:
            schema.validate(pd.DataFrame(index=obj))
            return False
        except (pa.errors.SchemaError, pa.errors.SchemaErrors):
            return True
    try:
        ex = hypothesis.find(ix.strategy(size=3), bad, settings=hypothesis.settings(max_examples=100, database=None, deadline=None))
        out[label] = list(ex)
    except (hypothesis.errors.NoSuchExample, hypothesis.errors.Unsatisfiable):
        out[label] = None
print({"draws rejected by their own schema": out})
sys.exit(1 if any(v is not None for v in out.values()) else 0)
