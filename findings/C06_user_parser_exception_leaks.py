"""Replay of known finding C06-user-parser-exception-leaks (exit 1 = reproduces).
A user check that raises is reported as a failed check (SchemaError / SchemaErrors, reason CHECK_ERROR).  A user PARSER that raises is
not: run_parsers calls it unguarded and the raw exception leaves validate - column level and dataframe level, eager and lazy."""
import sys
import warnings

warnings.simplefilter("ignore")
import pandas as pd
import pandera as pa


def boom(x):
    raise ValueError("parser failed")


df = pd.DataFrame({"a": [1, 2]})
obs, bad = {}, False
for label, schema in (("column parser", pa.DataFrameSchema({"a": pa.Column(int, parsers=pa.Parser(boom))})),
                      ("dataframe parser", pa.DataFrameSchema({"a": pa.Column(int)}, parsers=pa.Parser(boom)))):
    for lazy in (False, True):
        try:
            schema.validate(df, lazy=lazy)
            got = "returned"
        except (pa.errors.SchemaError, pa.errors.SchemaErrors) as e:
            got = type(e).__name__
        except Exception as e:  # noqa: BLE001
            got = f"leaked {type(e).__name__}"
            bad = True
        obs[f"{label}, lazy={lazy}"] = got
print(obs)
sys.exit(1 if bad else 0)
