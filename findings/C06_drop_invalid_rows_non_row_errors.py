"""Replay of known finding C06-drop-non-row-errors (exit 1 = reproduces).

drop_invalid_rows reads err.failure_cases['index'] for EVERY collected error. Errors that are not attributable to rows
(wrong dtype: failure_cases is the string 'object'; missing column; ...) make validate leak
TypeError('string indices must be integers') - this is the first example of docs/source/drop_invalid_rows.md."""
import sys
import pandas as pd
import pandera as pa
from pandera import Check, Column, DataFrameSchema

df = pd.DataFrame({"counter": ["1", "2", "3"]})
schema = DataFrameSchema({"counter": Column(int, checks=[Check(lambda x: x >= 3)])}, drop_invalid_rows=True)
try:
    out = schema.validate(df, lazy=True)
    res = "returned"
except (pa.errors.SchemaError, pa.errors.SchemaErrors):
    res = "schema error"
except Exception as e:  # noqa
    res = f"{type(e).__name__}: {e}"
print({"docs example drop_invalid_rows": res})
sys.exit(1 if res.startswith("TypeError") else 0)
