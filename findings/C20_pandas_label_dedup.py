"""Replay of known finding C20-pandas-label-dedup: exits 1 when the defect reproduces on the real code.

pandas subsample() de-duplicates the concatenated head/tail/sample rows by INDEX LABEL
(x[~x.index.duplicated()]), so with a non-unique index rows that were requested are never validated.
"""
import sys
import pandas as pd
import pandera as pa

schema = pa.DataFrameSchema({"a": pa.Column(int, pa.Check.ge(0))})
df = pd.DataFrame({"a": [1, 2, -3]}, index=[0, 0, 0])
try:
    schema.validate(df, head=3)
    accepted = True
except pa.errors.SchemaError:
    accepted = False
# spec: head=3 selects all three rows; the last one violates ge(0) -> must be rejected
try:
    schema.validate(df)
    full = True
except pa.errors.SchemaError:
    full = False
print({"validate(head=3) accepted": accepted, "validate() accepted": full})
sys.exit(1 if (accepted and not full) else 0)
