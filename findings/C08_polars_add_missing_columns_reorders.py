"""Replay of known finding C08-polars-add-missing-columns-reorders (exit 1 = reproduces).
DataFrameSchema(add_missing_columns=True): the pandas back end inserts the missing columns and is "careful not to modify order of
existing dataframe columns"; the polars back end re-orders the whole frame into schema order.  Same spec, same table, different
parsed table."""
import sys
import warnings

warnings.simplefilter("ignore")
import pandas as pd
import polars as pl
import pandera as pa
import pandera.polars as pp

data = {"b": [1, 2], "a": [1, 2]}
out = {}
for m, fr in ((pa, pd.DataFrame(data)), (pp, pl.DataFrame(data))):
    s = m.DataFrameSchema({"a": m.Column(int), "b": m.Column(int), "c": m.Column(int, default=7)}, add_missing_columns=True)
    out[m.__name__] = list(s.validate(fr).columns)
print(out)
sys.exit(1 if out["pandera"] != out["pandera.polars"] else 0)
