"""C15 finding: reset_index rebuilds the column from only dtype/parsers/checks/nullable/unique/coerce/name of the level
(title, description, default, metadata, report_duplicates, drop_invalid_rows are lost); for a MultiIndex it reads the
level from MultiIndex.columns, which carries only dtype/checks/nullable/unique, so coerce and parsers are lost too - for
the new column AND for the level that stays.  Consequence: S accepts D but reset_index(S) rejects D.reset_index().
Exits 1 while the defect reproduces."""
import os, sys
sys.path.insert(0, os.environ.get("PANDERA_REPO", "/repo"))
import pandas as pd
import pandera as pa

I = pa.Index(int, name="i", title="t", description="d", default=1, metadata={"k": 1}, report_duplicates="exclude_last", drop_invalid_rows=True)
S = pa.DataFrameSchema({"a": pa.Column(int)}, index=I)
c = S.reset_index().columns["i"]
lost = [p for p in ("title", "description", "default", "metadata", "report_duplicates", "drop_invalid_rows") if getattr(c, p) != getattr(I, p)]
print("single Index -> column, properties lost:", lost)
M = pa.DataFrameSchema({"a": pa.Column(int)}, index=pa.MultiIndex([pa.Index(int, name="i", coerce=True), pa.Index(int, name="j")]))
D = pd.DataFrame({"a": [1]}, index=pd.MultiIndex.from_tuples([("1", 2)], names=["i", "j"]))
M.validate(D)
out = {}
for lv in ("i", "j"):
    R = M.reset_index([lv])
    try:
        R.validate(D.reset_index(lv))
        out[lv] = "accepted"
    except pa.errors.SchemaError as e:
        out[lv] = "REJECTED: " + str(e)[:70]
print("coerce of new column 'i':", M.reset_index(["i"]).columns["i"].coerce, "| coerce of remaining level 'i':", M.reset_index(["j"]).index.coerce)
print("M accepts D; reset_index(M, [lv]) on D.reset_index(lv):", out)
bad = bool(lost) or any(v != "accepted" for v in out.values())
print("DEFECT REPRODUCES" if bad else "not reproduced")
sys.exit(1 if bad else 0)
