"""Replay of known finding C14-float128-bounds: exits 1 while the defect reproduces on the real code.

_get_array_check_statistics rounds the bounds with float(); numpy compares a longdouble column with a python float in
extended precision, so a minimum (maximum) that float() rounds up (down) is excluded by its own inferred check.
"""
import sys
import numpy as np
import pandas as pd
import pandera as pa

ld = np.longdouble
if np.finfo(ld).nmant <= 52:
    print("longdouble is float64 on this platform: not applicable")
    sys.exit(0)
lo = pd.DataFrame({"x": np.array([ld(3) - 4 * np.finfo(ld).epsneg, ld(5)], dtype=ld)})   # min just below 3.0
hi = pd.DataFrame({"x": np.array([ld(0), ld(3) + 4 * np.finfo(ld).eps], dtype=ld)})      # max just above 3.0
obs = {}
for label, df in {"min rounds up": lo, "max rounds down": hi}.items():
    schema = pa.infer_schema(df)
    try:
        schema.validate(df)
        obs[label] = "accepted"
    except pa.errors.SchemaError as e:
        obs[label] = "rejected: " + str(e).splitlines()[0][:140]
print(obs)
sys.exit(1 if any(v.startswith("rejected") for v in obs.values()) else 0)
