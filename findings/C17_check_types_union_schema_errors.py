"""Replay of known finding C17-check-types-union-schema-errors: exits 1 while the defect reproduces on the real code.

check_types._check_arg: when every alternative of a Union[...] annotation rejects the argument it raises
`SchemaErrors(schema_errors=error_handler.schema_errors if isinstance(arg_value, pd.DataFrame) else error_handler.collect_errors)`:
for a frame that is not a pandas.DataFrame the BOUND METHOD `collect_errors` is passed as the error list and
SchemaErrors.__init__ dies with "TypeError: 'method' object is not iterable" instead of reporting the validation errors.
"""
import sys
import typing

import polars as pl

import pandera.polars as pa
from pandera import check_types
from pandera.errors import SchemaError, SchemaErrors
from pandera.typing.polars import LazyFrame


class A(pa.DataFrameModel):
    a: int


class B(pa.DataFrameModel):
    b: int


ran = []


@check_types
def body(df: typing.Union[LazyFrame[A], LazyFrame[B]]):
    ran.append(1)
    return "body ran"


try:
    out = body(pl.LazyFrame({"c": [1]}))
except Exception as e:  # noqa: BLE001
    out = e
print("accepted alternative:", body(pl.LazyFrame({"b": [1]})))
print("rejected by every alternative:", f"{type(out).__name__}: {str(out)[:80]}")
sys.exit(0 if isinstance(out, (SchemaError, SchemaErrors)) else 1)
