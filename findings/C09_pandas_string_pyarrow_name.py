"""Replay of known finding C09-pandas-string-pyarrow-name (exit 1 = reproduces).
str(pandas_engine.STRING(storage="pyarrow")) is 'string[pyarrow]' (the name pandas prints for StringDtype("pyarrow") and resolves
back to it), but the pandas engine registers that name for ArrowString = pd.ArrowDtype(pyarrow.string()): the printed name of the
type does not resolve back to an equal type."""
import sys
import warnings

warnings.simplefilter("ignore")
import pandas as pd
from pandera.engines import pandas_engine as PE

t = PE.STRING(storage="pyarrow")
back = PE.Engine.dtype(str(t))
print({"str(t)": str(t), "Engine.dtype(str(t))": f"{type(back).__name__} boxing {back.type!r}", "equal": back == t,
       "pandas resolves the name to": repr(pd.api.types.pandas_dtype(str(t)))})
sys.exit(1 if back != t else 0)
