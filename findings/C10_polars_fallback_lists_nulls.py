"""Replay of known finding C10-polars-fallback-lists-nulls (exit 1 = reproduces).
When the non-strict cast itself raises (e.g. String -> Boolean), polars_coerce_failure_cases falls back to 'all rows are
failure cases', which lists null inputs too, although a null alone coerces fine."""
import sys
import warnings

warnings.simplefilter("ignore")
import polars as pl
from pandera.engines import polars_engine as pe

t = pe.Bool()
alone = t.try_coerce(pl.LazyFrame({"a": [None]}, schema={"a": pl.String})).collect()["a"].to_list()
try:
    t.try_coerce(pl.LazyFrame({"a": ["2.5", None]}))
    fc = "no error"
except Exception as e:  # noqa
    fc = e.failure_cases["a"].to_list()
print({"[None] alone coerces to": alone, "failure cases of ['2.5', None]": fc})
sys.exit(1 if fc == ["2.5", None] else 0)
