"""Replay of known finding C20-polars-value-dedup (exit 1 = reproduces).
polars subsample() ends with .unique() on ROW VALUES: duplicate rows of the data vanish from the validated sample, so
unique=True passes on duplicated data when head/tail is given (validating the same rows directly fails)."""
import sys
import warnings

warnings.simplefilter("ignore")
import polars as pl
import pandera.polars as pa
from pandera.errors import SchemaError, SchemaErrors

schema = pa.DataFrameSchema({"a": pa.Column(int, unique=True)})
df = pl.DataFrame({"a": [1, 1, 2]})


def verdict(**kw):
    try:
        schema.validate(df, **kw)
        return "accept"
    except (SchemaError, SchemaErrors):
        return "reject"


full, sub = verdict(), verdict(head=3)
print({"validate()": full, "validate(head=3)": sub})
sys.exit(1 if full != sub else 0)
