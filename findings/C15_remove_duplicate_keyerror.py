"""C15 finding: remove_columns(['a', 'a']) (and set_index(['a', 'a']), which calls it) leaks KeyError: neither the
mirrored DataFrame.drop behaviour (duplicates are harmless) nor the documented SchemaInitError.
Exits 1 while the defect reproduces."""
import os, sys
sys.path.insert(0, os.environ.get("PANDERA_REPO", "/repo"))
import pandera as pa

S = pa.DataFrameSchema({"a": pa.Column(int), "b": pa.Column(str)})
obs = {}
for label, f in (("remove_columns(['a','a'])", lambda: S.remove_columns(["a", "a"])), ("set_index(['a','a'])", lambda: S.set_index(["a", "a"]))):
    try:
        f()
        obs[label] = "ok"
    except (pa.errors.SchemaInitError, ValueError) as e:
        obs[label] = "documented " + type(e).__name__
    except Exception as e:  # noqa
        obs[label] = "LEAKS " + type(e).__name__ + ": " + str(e)
print(obs)
bad = any(v.startswith("LEAKS") for v in obs.values())
print("DEFECT REPRODUCES" if bad else "not reproduced")
sys.exit(1 if bad else 0)
