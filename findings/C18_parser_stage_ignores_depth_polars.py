"""Replay of known finding C18-parser-stage-ignores-depth/polars (exit 1 = reproduces): the parser stage of the polars container
back end collects strict / ordered errors (SCHEMA-level) under DATA_ONLY."""
import sys
import warnings

warnings.simplefilter("ignore")
import polars as pl
import pandera as pa
import pandera.polars as pp
from pandera.config import ValidationDepth, config_context


def verdict(schema, df, depth):
    with config_context(validation_depth=depth):
        try:
            schema.validate(df)
            return "accept"
        except (pa.errors.SchemaError, pa.errors.SchemaErrors):
            return "reject"


df = pl.DataFrame({"a": [1.0], "b": [1]})
obs = {"strict=True + undeclared column under DATA_ONLY": verdict(pp.DataFrameSchema({"a": pp.Column(float)}, strict=True), df, ValidationDepth.DATA_ONLY),
       "ordered=True + swapped columns under DATA_ONLY": verdict(pp.DataFrameSchema({"b": pp.Column(int), "a": pp.Column(float)}, ordered=True), df, ValidationDepth.DATA_ONLY)}
print(obs)
sys.exit(1 if all(v == "reject" for v in obs.values()) else 0)
