"""Replay of known finding C17-method-arity-heuristic: exits 1 while the defect reproduces on the real code.

check_input._wrapper guesses "self is missing from args" from `len(args) == len(sig.parameters) - 1`.  For a method
`m(self, df, x=1)` called as `obj.m(df)` the guess is wrong: the positional arguments are bound shifted by one
(self=None, df=<the instance>, x=<the frame>), so with a str obj_getter (and in check_io) the INSTANCE is validated instead of
the frame and the body would receive self=None; with `obj.m(df, x=2)` -> `obj.m(df, x=2)` the call dies with TypeError.
"""
import sys

import pandas as pd

import pandera as pa
from pandera import check_input, check_io

schema = pa.DataFrameSchema({"a": pa.Column(int, pa.Check.ge(0))})
good = pd.DataFrame({"a": [1, 2]})


class K:
    @check_input(schema, "df")
    def by_name(self, df, x=1):
        return ("body ran", type(self).__name__, len(df), x)

    @check_input(schema)
    def by_default(self, df, x=1):
        return ("body ran", type(self).__name__, len(df), x)

    @check_io(df=schema)
    def by_io(self, df, x=1):
        return ("body ran", type(self).__name__, len(df), x)

    @check_input(schema, "df")
    def two_required(self, df, x):
        return ("body ran", type(self).__name__, len(df), x)


def run(f, *a, **k):
    try:
        return f(*a, **k)
    except Exception as e:  # noqa: BLE001
        return f"{type(e).__name__}: {str(e)[:70]}"


k = K()
obs = {
    "by_default(df)           ": run(k.by_default, good),
    "by_name(df)              ": run(k.by_name, good),
    "by_name(df=df)           ": run(k.by_name, df=good),
    "by_io(df)                ": run(k.by_io, good),
    "two_required(df, x=2)    ": run(k.two_required, good, x=2),
}
for name, v in obs.items():
    print(name, "->", v)
want = {"by_default(df)           ": ("body ran", "K", 2, 1), "by_name(df)              ": ("body ran", "K", 2, 1),
        "by_name(df=df)           ": ("body ran", "K", 2, 1), "by_io(df)                ": ("body ran", "K", 2, 1),
        "two_required(df, x=2)    ": ("body ran", "K", 2, 2)}
sys.exit(0 if obs == want else 1)
