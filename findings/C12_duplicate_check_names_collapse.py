"""Replay of known finding C12-duplicate-check-names-collapse: exits 1 while the defect reproduces on the real code, 0 otherwise.

parse_checks keys the statistics by check name: two checks of the same kind collapse into one entry.
"""
import sys
import warnings

warnings.simplefilter("ignore")
import pandas as pd
import pandera as pa
from pandera import Check, Column, DataFrameSchema, Index, MultiIndex, io


def run_script(text):
    ns = {}
    exec(text, ns)
    return ns["schema"]


def leg(name, make):
    """-> (equal_to_original, error)"""
    try:
        s = make()
        if name == "yaml":
            back = io.from_yaml(io.to_yaml(s))
        elif name == "json":
            back = io.from_json(io.to_json(s))
        else:
            back = run_script(io.to_script(s))
        return back == make(), None
    except Exception as e:  # noqa
        return False, f"{type(e).__name__}: {str(e)[:120]}"


mk = lambda: DataFrameSchema({"a": Column(int, [Check.gt(0), Check.gt(5)])})
obs = {l: leg(l, mk) for l in ("yaml", "json", "script")}
n = len(io.from_yaml(io.to_yaml(mk())).columns["a"].checks)
print(obs, {"checks after yaml round trip": n, "original": 2})
sys.exit(1 if n != 2 else 0)
