"""C15 finding: reset_index appends the former index level(s) at the END of schema.columns, DataFrame.reset_index inserts
them at the FRONT.  With ordered=True the transformed schema rejects the transformed frame although the original schema
accepts the original frame.  Exits 1 while the defect reproduces."""
import os, sys
sys.path.insert(0, os.environ.get("PANDERA_REPO", "/repo"))
import pandas as pd
import pandera as pa

S = pa.DataFrameSchema({"a": pa.Column(int), "b": pa.Column(str)}, index=pa.Index(int, name="i"), ordered=True)
D = pd.DataFrame({"a": [1], "b": ["x"]}, index=pd.Index([7], name="i"))
S.validate(D)
R, RD = S.reset_index(), D.reset_index()
print("schema columns:", list(R.columns), "| frame columns:", list(RD.columns))
try:
    R.validate(RD)
    verdict = "accepted"
except pa.errors.SchemaError as e:
    verdict = "REJECTED: " + str(e)[:80]
print("S accepts D; reset_index(S) on D.reset_index():", verdict)
bad = verdict != "accepted"
print("DEFECT REPRODUCES" if bad else "not reproduced")
sys.exit(1 if bad else 0)
