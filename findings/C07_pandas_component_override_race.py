"""Replay of known finding C07-pandas-component-override (exit 1 = reproduces).
run_schema_component_checks sets component.coerce = False (and dtype) on the SHARED Column while its checks run.  A second
thread validating with the same schema in that window reads coerce == False, skips coercion and rejects data that the same
call accepts when run alone.  Callback-gated schedule (deterministic)."""
import sys
import threading
import pandas as pd
import pandera as pa

in_check, release = threading.Event(), threading.Event()
gate = {"on": False}


def blocking(series):
    if gate["on"] and threading.current_thread().name == "A":
        in_check.set()
        release.wait(10)
    return True


schema = pa.DataFrameSchema({"a": pa.Column(int, pa.Check(blocking), coerce=True)})
needs_coercion = pd.DataFrame({"a": ["1", "2"]})


def outcome():
    try:
        return ("ok", str(schema.validate(needs_coercion)["a"].dtype))
    except Exception as e:  # noqa
        return ("raised", type(e).__name__)


solo = outcome()
gate["on"] = True
res = {}
ta = threading.Thread(target=lambda: res.__setitem__("A", outcome()), name="A")
ta.start()
in_check.wait(10)
tb = threading.Thread(target=lambda: res.__setitem__("B", outcome()), name="B")
tb.start()
tb.join(10)
release.set()
ta.join(10)
print({"solo": solo, "B_during_A": res.get("B"), "A": res.get("A")})
sys.exit(1 if res.get("B") != solo else 0)
