"""Replay of known finding C12-datetime-subsecond: exits 1 while the defect reproduces on the real code, 0 otherwise.

Datetime statistics are written with '%Y-%m-%d %H:%M:%S': the sub-second part of a Timestamp bound is lost in YAML / JSON.
"""
import sys
import warnings

warnings.simplefilter("ignore")
import pandas as pd
import pandera as pa
from pandera import Check, Column, DataFrameSchema, Index, MultiIndex, io


def run_script(text):
    ns = {}
    exec(text, ns)
    return ns["schema"]


def leg(name, make):
    """-> (equal_to_original, error)"""
    try:
        s = make()
        if name == "yaml":
            back = io.from_yaml(io.to_yaml(s))
        elif name == "json":
            back = io.from_json(io.to_json(s))
        else:
            back = run_script(io.to_script(s))
        return back == make(), None
    except Exception as e:  # noqa
        return False, f"{type(e).__name__}: {str(e)[:120]}"


mk = lambda: DataFrameSchema({"a": Column("datetime64[ns]", Check.gt(pd.Timestamp("2020-01-01 00:00:00.5")))})
obs = {l: leg(l, mk) for l in ("yaml", "json")}
back = io.from_yaml(io.to_yaml(mk()))
print(obs, {"original": mk().columns["a"].checks[0].statistics, "after yaml": back.columns["a"].checks[0].statistics})
df = pd.DataFrame({"a": pd.to_datetime(["2020-01-01 00:00:00.25"])})
def verdict(s):
    try:
        s.validate(df); return "pass"
    except pa.errors.SchemaError:
        return "fail"
print({"verdict original": verdict(mk()), "verdict after yaml": verdict(back)})
sys.exit(1 if any(not ok for ok, _ in obs.values()) else 0)
