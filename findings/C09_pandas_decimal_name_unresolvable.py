"""pandas engine: str(pandas_engine.Decimal(p, s)) == 'Decimal(p, s)' is not a spelling Engine.dtype accepts (it even escapes as ValueError from numpy instead of TypeError); str(ArrowDecimal128) == 'decimal128(p, s)[pyarrow]' is rejected by pandas itself (NotImplementedError).

Stand-alone replay: exits 1 while the defect reproduces on the pandera tree under $PANDERA_REPO (default /repo), 0 otherwise.
"""
import os
import sys
import warnings

sys.path.insert(0, os.environ.get("PANDERA_REPO", "/repo"))
warnings.simplefilter("ignore")

from pandera.engines import pandas_engine

E = pandas_engine.Engine
bad = []
for t in [pandas_engine.Decimal(), pandas_engine.Decimal(10, 2), pandas_engine.ArrowDecimal128(), pandas_engine.ArrowDecimal128(10, 2)]:
    s = str(t)
    try:
        r = E.dtype(s)
        ok = r == t
        print(f"dtype({s!r}) = {r!r}")
    except Exception as e:
        ok = False
        print(f"dtype({s!r}) raises {type(e).__name__}: {str(e)[:100]}")
    if not ok:
        bad.append(s)
print("DEFECT REPRODUCES" if bad else "not reproduced")
sys.exit(1 if bad else 0)
