"""Replay of known finding C14-complex-bounds: exits 1 while the defect reproduces on the real code.

complex dtypes are `is_numeric`, so _get_array_check_statistics infers float(x.min()) / float(x.max()) - float() of a
numpy complex discards the imaginary part - and the inferred schema rejects the column it was inferred from.
"""
import sys
import warnings
import pandas as pd
import pandera as pa

warnings.filterwarnings("ignore")
df = pd.DataFrame({"a": [1 + 2j, 3j]})
schema = pa.infer_schema(df)
checks = [(c.name, c.statistics) for c in schema.columns["a"].checks or []]
try:
    schema.validate(df)
    verdict = "accepted"
except pa.errors.SchemaError as e:
    verdict = "rejected: " + str(e).splitlines()[0][:140]
print({"inferred checks": checks, "validate": verdict})
sys.exit(1 if verdict.startswith("rejected") else 0)
