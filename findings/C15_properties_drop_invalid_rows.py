"""C15 finding: Column.properties lacks 'drop_invalid_rows', so update_column / update_columns (which rebuild columns
from `properties`) silently reset drop_invalid_rows to False - update_columns even for columns it was not asked to touch.
Exits 1 while the defect reproduces, 0 otherwise."""
import os, sys
sys.path.insert(0, os.environ.get("PANDERA_REPO", "/repo"))
import pandera as pa
import pandera.polars as pap

bad = []
for mod, label in ((pa, "pandas"), (pap, "polars")):
    S = mod.DataFrameSchema({"a": mod.Column(int, drop_invalid_rows=True, nullable=True), "b": mod.Column(str)})
    obs = {
        "properties has key": "drop_invalid_rows" in S.columns["a"].properties,
        "update_column('a', nullable=False) keeps a.drop_invalid_rows": S.update_column("a", nullable=False).columns["a"].drop_invalid_rows,
        "update_columns({'b': ...}) keeps untouched a.drop_invalid_rows": S.update_columns({"b": {"nullable": True}}).columns["a"].drop_invalid_rows,
    }
    print(label, obs)
    bad += [f"{label}: {k}" for k, v in obs.items() if v is not True]
print("DEFECT REPRODUCES:" if bad else "not reproduced", bad)
sys.exit(1 if bad else 0)
