"""Replay of known finding C18-polars-nullable-scope-mismatch (exit 1 = reproduces).
polars ColumnBackend.check_nullable is DATA-scoped but reports SERIES_CONTAINS_NULLS, which pandera's own map (and the pandas back
end) declares SCHEMA-level: under DATA_ONLY the frame is rejected while the error report, filtered by the declared scope, is
empty; under SCHEMA_ONLY pandas rejects the same data and polars accepts it."""
import sys
import warnings

warnings.simplefilter("ignore")
import pandas as pd
import polars as pl
import pandera as pa
import pandera.polars as pp
from pandera.config import ValidationDepth, config_context

obs = {}
with config_context(validation_depth=ValidationDepth.DATA_ONLY):
    try:
        pp.DataFrameSchema({"a": pp.Column(int, nullable=False)}).validate(pl.DataFrame({"a": [1, None]}), lazy=True)
        obs["polars DATA_ONLY"] = "accept"
    except pa.errors.SchemaErrors as e:
        obs["polars DATA_ONLY"] = f"reject, {len(e.schema_errors)} error(s), report={e.message}"
with config_context(validation_depth=ValidationDepth.SCHEMA_ONLY):
    for name, schema, data in (("pandas SCHEMA_ONLY", pa.DataFrameSchema({"a": pa.Column(float, nullable=False)}), pd.DataFrame({"a": [1.0, None]})),
                               ("polars SCHEMA_ONLY", pp.DataFrameSchema({"a": pp.Column(float, nullable=False)}), pl.DataFrame({"a": [1.0, None]}))):
        try:
            schema.validate(data, lazy=True)
            obs[name] = "accept"
        except pa.errors.SchemaErrors:
            obs[name] = "reject"
print(obs)
sys.exit(1 if obs["polars DATA_ONLY"].endswith("report={}") and obs["pandas SCHEMA_ONLY"] != obs["polars SCHEMA_ONLY"] else 0)
