"""pyspark engine: Engine.dtype strips '(digits...)' from string spellings, so the printed name 'DecimalType(20,5)' of Decimal(20, 5) resolves to the default Decimal(10, 0).

Stand-alone replay: exits 1 while the defect reproduces on the pandera tree under $PANDERA_REPO (default /repo), 0 otherwise.
"""
import os
import sys
import warnings

sys.path.insert(0, os.environ.get("PANDERA_REPO", "/repo"))
warnings.simplefilter("ignore")

from pandera.engines import pyspark_engine

E = pyspark_engine.Engine
t = pyspark_engine.Decimal(20, 5)
r = E.dtype(str(t))
print(f"str = {str(t)!r}; dtype(str) = {r!r}; equal: {r == t}")
bad = not (r == t)
print("DEFECT REPRODUCES" if bad else "not reproduced")
sys.exit(1 if bad else 0)
