"""Replay of known finding C12-script-unquoted-text-slots: exits 1 while the defect reproduces on the real code, 0 otherwise.

to_script inserts the schema-level strict / title / description raw into the program text:
strict='filter' becomes the builtin `filter`, a title or description becomes a syntax error.
"""
import sys
import warnings

warnings.simplefilter("ignore")
import pandas as pd
import pandera as pa
from pandera import Check, Column, DataFrameSchema, Index, MultiIndex, io


def run_script(text):
    ns = {}
    exec(text, ns)
    return ns["schema"]


def leg(name, make):
    """-> (equal_to_original, error)"""
    try:
        s = make()
        if name == "yaml":
            back = io.from_yaml(io.to_yaml(s))
        elif name == "json":
            back = io.from_json(io.to_json(s))
        else:
            back = run_script(io.to_script(s))
        return back == make(), None
    except Exception as e:  # noqa
        return False, f"{type(e).__name__}: {str(e)[:120]}"


cases = {
    "strict='filter'": lambda: DataFrameSchema({"a": Column(int)}, strict="filter"),
    "title='my title'": lambda: DataFrameSchema({"a": Column(int)}, title="my title"),
    "description='desc x'": lambda: DataFrameSchema({"a": Column(int)}, description="desc x"),
}
obs = {k: leg("script", mk) for k, mk in cases.items()}
print(obs)
sys.exit(1 if any(not ok for ok, _ in obs.values()) else 0)
