"""Replay of known finding C11-index-check-failure-labels-are-positions (exit 1 = reproduces).
IndexBackend.validate validates `index.to_series().reset_index(drop=True)`: the failure cases of an Index check name the failing values
by POSITION.  drop_invalid_rows removes rows by LABEL: on a non-default index the invalid row survives and the row that happens to
carry the position as its label is dropped."""
import sys
import warnings

warnings.simplefilter("ignore")
import pandas as pd
import pandera as pa

schema = pa.DataFrameSchema({"x": pa.Column(int)}, index=pa.Index(int, pa.Check.lt(25)), drop_invalid_rows=True)
obs, bad = {}, False
for idx in ([10, 20, 30], [2, 0, 30], [0, 1, 2]):
    out = schema.validate(pd.DataFrame({"x": [1, 2, 3]}, index=idx), lazy=True).index.tolist()
    want = [v for v in idx if v < 25]
    obs[str(idx)] = {"returned index": out, "rows whose index value is < 25": want}
    bad = bad or out != want
print(obs)
sys.exit(1 if bad else 0)
