"""C15 finding: resetting one level of a MultiIndex with >= 3 levels returns a MultiIndex whose `indexes` (and therefore
`names`, repr, strategies) still list the removed level, while its `columns` do not: a partially transformed schema.
Exits 1 while the defect reproduces."""
import os, sys
sys.path.insert(0, os.environ.get("PANDERA_REPO", "/repo"))
import pandera as pa

M = pa.DataFrameSchema({"a": pa.Column(int)}, index=pa.MultiIndex([pa.Index(int, name=n) for n in "ijk"]))
R = M.reset_index(["i"])
print("levels after reset_index(['i']): names =", R.index.names, "| columns =", list(R.index.columns))
bad = list(R.index.names) != ["j", "k"]
try:
    R.reset_index(["i"])
    print("a second reset_index(['i']) is accepted although 'i' is already a column")
    bad = True
except Exception as e:  # noqa
    print("second reset:", type(e).__name__, str(e)[:80])
print("DEFECT REPRODUCES" if bad else "not reproduced")
sys.exit(1 if bad else 0)
