"""Replay of known finding C11-polars-drop-invalid-rows-with-subsample (exit 1 = reproduces).
pandera.polars validate(head=/tail=/sample=) runs the checks on the sub-sampled frame, but drop_invalid_rows filters the WHOLE parsed
frame with the row masks those checks produced: the masks have the height of the sub-sample, polars raises ShapeError from validate
(an internal exception, C06) - and when the heights happen to agree the wrong rows would be dropped (C11).  pandas drops by label and
is not affected."""
import sys
import warnings

warnings.simplefilter("ignore")
import polars as pl
import pandera as pa
import pandera.polars as pp

schema = pp.DataFrameSchema({"a": pp.Column(int, pa.Check.gt(0))}, drop_invalid_rows=True)
df = pl.DataFrame({"a": [1, -1, 3]})
obs, bad = {}, False
for kw in ({"head": 2}, {"tail": 2}):
    try:
        out = schema.validate(df, lazy=True, **kw)
        rows = out["a"].to_list()
        obs[str(kw)] = f"returned {rows}"
        bad = bad or rows != [1, 3]
    except (pa.errors.SchemaError, pa.errors.SchemaErrors) as e:
        # (the only invalid row is among the validated rows: drop_invalid_rows has to remove it and return [1, 3], as pandas does)
        obs[str(kw)] = "raised " + type(e).__name__ + " instead of returning [1, 3]"
        bad = True
    except Exception as e:  # noqa: BLE001
        obs[str(kw)] = f"leaked {type(e).__name__}: {e}"[:140]
        bad = True
print(obs)
sys.exit(1 if bad else 0)
