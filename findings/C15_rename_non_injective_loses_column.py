"""C15 finding: rename_columns with two old names mapped to one new name neither raises SchemaInitError nor mirrors
DataFrame.rename: it silently returns a schema that lost a column.  Exits 1 while the defect reproduces."""
import os, sys
sys.path.insert(0, os.environ.get("PANDERA_REPO", "/repo"))
import pandera as pa

S = pa.DataFrameSchema({"a": pa.Column(int), "b": pa.Column(str), "c": pa.Column(float)})
try:
    R = S.rename_columns({"a": "x", "b": "x"})
    print("returned columns:", list(R.columns), "(3 expected or SchemaInitError)")
    bad = len(R.columns) != 3
except pa.errors.SchemaInitError as e:
    print("raises SchemaInitError:", e)
    bad = False
print("DEFECT REPRODUCES" if bad else "not reproduced")
sys.exit(1 if bad else 0)
