"""Replay of known finding C16-config-metadata-dropped: exits 1 while the defect reproduces on the real code.

`metadata` is a documented Config option ("a dictionary object to store key-value data at schema level") and a
DataFrameSchema constructor option of the same name, but DataFrameModel.to_schema never forwards it: the schema compiled
from the model has metadata None, the object-API schema with the same options has it, so
Model.to_schema() != DataFrameSchema(<same columns, checks and options>) and schema.get_metadata() loses the data.
"""
import sys
import warnings

import pandera as pa
import pandera.polars as pap

warnings.simplefilter("ignore")
obs = {}
for label, api in (("pandas", pa), ("polars", pap)):
    class Model(api.DataFrameModel):
        a: int

        class Config:
            name = "Model"
            metadata = {"owner": "team-x"}

    equivalent = api.DataFrameSchema({"a": api.Column(int)}, name="Model", metadata={"owner": "team-x"})
    obs[label] = {"Model.to_schema().metadata": Model.to_schema().metadata, "equivalent schema .metadata": equivalent.metadata,
                  "schemas equal": Model.to_schema() == equivalent,
                  "get_metadata()": Model.to_schema().get_metadata()}
print(obs)
sys.exit(1 if any(o["Model.to_schema().metadata"] != o["equivalent schema .metadata"] for o in obs.values()) else 0)
