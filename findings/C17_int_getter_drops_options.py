"""Replay of known finding C17-int-getter-drops-options: exits 1 while the defect reproduces on the real code.

check_input with an INTEGER obj_getter calls `schema.validate(args[i])` without the decorator's validation options
(head, tail, sample, random_state, lazy, inplace); the str / None designations of the same parameter forward them.
Observed through lazy=True (two failing columns must give SchemaErrors) and head=1 (only the first row is validated).
"""
import sys

import pandas as pd

import pandera as pa
from pandera import check_input

schema = pa.DataFrameSchema({"a": pa.Column(int, pa.Check.ge(0)), "b": pa.Column(int, pa.Check.ge(0))})
two_bad_columns = pd.DataFrame({"a": [-1], "b": [-1]})
bad_second_row = pd.DataFrame({"a": [1, -1], "b": [1, 1]})


def outcome(getter, **options):
    @check_input(schema, getter, **options)
    def body(df):
        return "body ran"

    def run(df):
        try:
            return body(df)
        except Exception as e:  # noqa: BLE001
            return type(e).__name__

    return run


obs = {}
for name, getter in (("None", None), ("'df'", "df"), ("0", 0)):
    obs[f"obj_getter={name} lazy=True on two failing columns"] = outcome(getter, lazy=True)(two_bad_columns)
    obs[f"obj_getter={name} head=1 on a frame whose 2nd row fails"] = outcome(getter, head=1)(bad_second_row)
for k, v in obs.items():
    print(f"{k}: {v}")
ok = (obs["obj_getter=0 lazy=True on two failing columns"] == obs["obj_getter='df' lazy=True on two failing columns"] == "SchemaErrors"
      and obs["obj_getter=0 head=1 on a frame whose 2nd row fails"] == obs["obj_getter='df' head=1 on a frame whose 2nd row fails"] == "body ran")
sys.exit(0 if ok else 1)
