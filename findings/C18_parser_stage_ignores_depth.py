"""Replay of known finding C18-parser-stage-ignores-depth (exit 1 = reproduces).
Errors raised by the parser stage of DataFrameSchemaBackend.validate (strict / ordered filtering: SCHEMA-level; coercion and
add_missing_columns: DATA-level) are collected whatever the validation depth: under DATA_ONLY a frame is rejected for an
undeclared column, under SCHEMA_ONLY for an uncoercible value - the verdict is not that of the restricted schema."""
import sys
import warnings

warnings.simplefilter("ignore")
import pandas as pd
import pandera as pa
from pandera.config import ValidationDepth, config_context


def verdict(schema, df, depth):
    with config_context(validation_depth=depth):
        try:
            schema.validate(df)
            return "accept"
        except (pa.errors.SchemaError, pa.errors.SchemaErrors):
            return "reject"


df = pd.DataFrame({"a": [1.0], "b": [1]})
obs = {
    "strict=True + undeclared column under DATA_ONLY": verdict(pa.DataFrameSchema({"a": pa.Column(float)}, strict=True), df, ValidationDepth.DATA_ONLY),
    "ordered=True + swapped columns under DATA_ONLY": verdict(pa.DataFrameSchema({"b": pa.Column(int), "a": pa.Column(float)}, ordered=True), df, ValidationDepth.DATA_ONLY),
    "coerce=True + uncoercible value under SCHEMA_ONLY": verdict(pa.DataFrameSchema({"a": pa.Column(int, coerce=True)}), pd.DataFrame({"a": ["x"]}), ValidationDepth.SCHEMA_ONLY),
}
print(obs)
sys.exit(1 if all(v == "reject" for v in obs.values()) else 0)
